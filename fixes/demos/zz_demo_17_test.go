package dt

import (
	"testing"

	"github.com/tychoish/fun/dt/cmp"
)

// Report #17 (D1): List.SortMerge does `*l = *mergeSort(l, lt)`: it copies the
// header of the temporary merged list over *l. Every element (and the root)
// still points at the temporary list, so the elements are not "in" l and
// ownership-checked operations such as PopFront refuse to work.
func TestDemo17ListSortMergeKeepsOwnership(t *testing.T) {
	l := &List[int]{}
	l.Append(3, 1, 2)
	l.SortMerge(cmp.LessThanNative[int])

	if l.Len() != 3 {
		t.Fatalf("Len = %d", l.Len())
	}
	if front := l.Front(); !front.In(l) {
		t.Errorf("after SortMerge, l.Front().In(l) == false")
	}
	e := l.PopFront()
	if !e.Ok() || e.Value() != 1 {
		t.Errorf("after SortMerge, PopFront() = (%v, ok=%v), want (1, ok=true); Len=%d", e.Value(), e.Ok(), l.Len())
	}
}
