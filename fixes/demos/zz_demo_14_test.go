package srv

import (
	"context"
	"runtime"
	"testing"
)

// Report #14 (S6): Service.Close reads s.cancel when isRunning is true, but
// Start sets isRunning (Swap) *before* it assigns s.cancel inside the once
// body. A Close that overlaps Start therefore reads s.cancel while Start is
// writing it (data race; the read may also see nil and the close is lost
// silently). Run with -race.
func TestDemo14CloseConcurrentWithStart(t *testing.T) {
	ctx, cancel := context.WithCancel(context.Background())
	defer cancel()

	for round := 0; round < 300; round++ {
		s := &Service{Run: func(ctx context.Context) error { <-ctx.Done(); return nil }}

		started := make(chan error, 1)
		go func() { started <- s.Start(ctx) }()

		for !s.Running() { // true as soon as Start has begun
			runtime.Gosched()
		}
		s.Close() // overlaps the rest of Start

		if err := <-started; err != nil {
			t.Fatal(err)
		}
		s.Close() // in case the first one was too early to have an effect
		if err := s.Wait(); err != nil {
			t.Fatal(err)
		}
	}
}
