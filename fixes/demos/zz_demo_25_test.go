package pubsub

import (
	"context"
	"errors"
	"testing"
	"time"
)

// Report #25 (W2): Queue.BlockingAdd's wait loop re-checks only the capacity
// predicate. Close broadcasts, the blocked producer wakes, finds the queue
// still full, and parks again -- forever, although the documentation says it
// returns when the queue is closed.
func TestDemo25QueueBlockingAddThenClose(t *testing.T) {
	ctx, cancel := context.WithCancel(context.Background())
	defer cancel()

	q, err := NewQueue[int](QueueOptions{HardLimit: 1, SoftQuota: 1})
	if err != nil {
		t.Fatal(err)
	}
	if err := q.Add(1); err != nil {
		t.Fatal(err)
	}

	errs := make(chan error, 1)
	go func() { errs <- q.BlockingAdd(ctx, 2) }()
	time.Sleep(100 * time.Millisecond) // producer parks on the full queue

	if err := q.Close(); err != nil {
		t.Fatal(err)
	}

	select {
	case err := <-errs:
		if !errors.Is(err, ErrQueueClosed) {
			t.Fatalf("BlockingAdd returned %v, want ErrQueueClosed", err)
		}
	case <-time.After(2 * time.Second):
		t.Fatal("BlockingAdd still blocked 2s after Queue.Close()")
	}
}
