package fun

import (
	"context"
	"sync/atomic"
	"testing"
	"time"
)

// Report #10 (N1): Operation.Launch builds the waiting operation with
// WaitChannel(sig) but discards it (the returned closure calls WaitChannel
// and throws the resulting Operation away), so the "wait" returns at once.
func TestDemo10OperationLaunchWaits(t *testing.T) {
	ctx, cancel := context.WithTimeout(context.Background(), 5*time.Second)
	defer cancel()

	var finished atomic.Bool
	op := Operation(func(context.Context) {
		time.Sleep(300 * time.Millisecond)
		finished.Store(true)
	})

	wait := op.Launch(ctx)
	start := time.Now()
	wait(ctx)
	if !finished.Load() {
		t.Fatalf("the operation returned by Launch came back after %s, before the launched operation finished", time.Since(start).Round(time.Millisecond))
	}
}
