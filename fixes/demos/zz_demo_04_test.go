package fun

import (
	"context"
	"runtime"
	"sync"
	"testing"
	"time"
)

// Report #4 (W4): the goroutine that wakes a blocked WaitGroup.Wait when
// its context is cancelled calls cond.Broadcast() WITHOUT holding wg.mu.
// If the cancellation lands after the waiter's `select` saw the context
// still live but before the waiter reached cond.Wait(), the broadcast finds
// nobody parked and is lost; the waiter then parks forever even though its
// context is cancelled and nothing else will ever signal it (counter > 0).
//
// The window is a few instructions wide. The code under test is NOT
// modified; the window is widened only from the outside:
//
//   - GOMAXPROCS is 2: one P is occupied by a "hammer" goroutine that keeps
//     forcing stop-the-world preemption (runtime.ReadMemStats), the other P
//     runs everything else.
//   - A stop-the-world request suspends the waiter at its next function
//     entry (the entry of sync.Cond.Wait lies inside the window) or, via
//     signal, at an arbitrary instruction, and puts it on the global run
//     queue, i.e. *behind* the goroutines in the P's local queue: its own
//     watcher and the goroutine that cancels the context. If the suspension
//     happens inside the window, cancel + watcher.Broadcast run first, then
//     the waiter resumes and parks: lost wake-up.
//
// The same unlocked-watcher shape exists in pubsub.Queue (x3) and
// pubsub.Deque (x2); WaitGroup.Wait is the one the triage table names.
//
// This is a STATISTICAL demo (many thousand Wait/cancel pairs); it fails on
// the unfixed tree as soon as one waiter is lost. With the watcher taking
// wg.mu (the fix) the broadcast cannot happen between the waiter's select
// and its cond.Wait (the waiter holds wg.mu there), so it always passes.
func TestDemo04WaitGroupLostCancelWakeup(t *testing.T) {
	const budget = 8 * time.Second
	const grace = time.Second

	defer runtime.GOMAXPROCS(runtime.GOMAXPROCS(2))

	stop := make(chan struct{})
	var hammer sync.WaitGroup
	hammer.Add(1)
	go func() {
		defer hammer.Done()
		var ms runtime.MemStats
		for {
			select {
			case <-stop:
				return
			default:
				runtime.ReadMemStats(&ms)
				// let the other P make some progress between two
				// stop-the-world phases.
				for t0 := time.Now(); time.Since(t0) < 20*time.Microsecond; {
				}
			}
		}
	}()
	defer func() { close(stop); hammer.Wait() }()

	timer := time.NewTimer(time.Hour)
	defer timer.Stop()

	iterations := 0
	for deadline := time.Now().Add(budget); time.Now().Before(deadline); iterations++ {
		wg := &WaitGroup{}
		wg.Add(1) // never Done before the check: only the context can end Wait
		ctx, cancel := context.WithCancel(context.Background())
		done := make(chan struct{})

		go cancel()                               // runs after the waiter has parked (or was suspended)
		go func() { wg.Wait(ctx); close(done) }() // runs first (runnext)

		select {
		case <-done:
			continue
		default:
		}

		timer.Reset(grace)
		select {
		case <-done:
			if !timer.Stop() {
				<-timer.C
			}
		case <-timer.C:
			blocked := ctx.Err() != nil
			wg.Done() // release the leaked waiter so the test ends cleanly
			<-done
			t.Fatalf("pair %d: WaitGroup.Wait(ctx) still blocked %s after ctx was cancelled (ctx cancelled=%v): lost wake-up",
				iterations, grace, blocked)
		}
	}
	t.Logf("ran %d Wait/cancel pairs, none lost", iterations)
}
