package srv

import (
	"context"
	"runtime"
	"sync"
	"sync/atomic"
	"syscall"
	"testing"
	"time"
)

// Report #26 (S8): Start must report success (nil) exactly once per Service.
// A second Start does
//
//	if s.isFinished.Load() { return ErrServiceReturned }          // (1)
//	if s.isRunning.Swap(true) { return ErrServiceAlreadyStarted } // (2)
//	s.doStart.Do(...)                                              // no-op
//	return nil
//
// If the service finishes between (1) and (2) -- it stores isFinished=true,
// then isRunning=false -- the Swap at (2) succeeds: the caller gets a second
// nil although nothing was started, and Running() is stuck at true for a
// service that has returned.
//
// The window is two instructions wide and contains no call. The code under
// test is NOT modified; the interleaving is provoked from outside: the test
// goroutine calls Start in a tight loop while the service is told to finish
// (on other Ps), and the OS thread running that loop is stalled at arbitrary
// instructions by bursts of SIGURG from three other threads (the Go runtime
// ignores SIGURG it did not ask for). A good share of the stalls land between
// (1) and (2). Linux only (tgkill).
//
// STATISTICAL demo: fails at the first round in which a second Start is nil.
func TestDemo26StartReturnsNilOnce(t *testing.T) {
	runtime.LockOSThread()
	defer runtime.UnlockOSThread()
	pid, tid := syscall.Getpid(), syscall.Gettid()

	stop := make(chan struct{})
	var active atomic.Bool // the storm only blows while the test spins on Start
	var storm sync.WaitGroup
	for i := 0; i < 3; i++ {
		storm.Add(1)
		go func() {
			defer storm.Done()
			for {
				select {
				case <-stop:
					return
				default:
				}
				if !active.Load() {
					runtime.Gosched()
					continue
				}
				for t0 := time.Now(); time.Since(t0) < 40*time.Microsecond; {
					_ = syscall.Tgkill(pid, tid, syscall.SIGURG)
				}
				for t0 := time.Now(); time.Since(t0) < 5*time.Microsecond; {
				}
			}
		}()
	}
	defer func() { close(stop); storm.Wait() }()

	ctx, cancel := context.WithCancel(context.Background())
	defer cancel()

	rounds := 0
	for deadline := time.Now().Add(5 * time.Second); time.Now().Before(deadline); rounds++ {
		release := make(chan struct{})
		s := &Service{Run: func(context.Context) error { <-release; return nil }}

		if err := s.Start(ctx); err != nil {
			t.Fatalf("first Start: %v", err)
		}
		// finish the service from another goroutine, a little later
		go func() {
			for t0 := time.Now(); time.Since(t0) < 30*time.Microsecond; { // busy wait: timers are too coarse
			}
			close(release)
		}()

		var err error
		active.Store(true)
		for {
			if err = s.Start(ctx); err != ErrServiceAlreadyStarted {
				break
			}
		}
		active.Store(false)

		if err == nil {
			_ = s.Wait()
			t.Fatalf("round %d: a second Start() returned nil; after Wait(): Running()=%v although the service has returned", rounds, s.Running())
		}
		if err != ErrServiceReturned {
			t.Fatalf("unexpected error %v", err)
		}
		if werr := s.Wait(); werr != nil {
			t.Fatal(werr)
		}
		if s.Running() {
			t.Fatalf("round %d: Running() true after Wait()", rounds)
		}
	}
	t.Logf("%d rounds, Start returned nil exactly once in each", rounds)
}
