package srv

import (
	"context"
	"runtime"
	"sync"
	"syscall"
	"testing"
	"time"
)

// Report #13 (S5): inside Start's once-body, `defer s.isRunning.Store(true)`
// runs AFTER the goroutine that ends with `isRunning.Store(false)` has been
// launched. If that goroutine gets through Run/shutdown/cleanup before Start's
// deferred store executes, the final value is true: Running() reports a
// running service although Run has returned and Wait() is over.
//
// The window (from the last `go` statement to the deferred store) is a few
// instructions wide and contains no call, so neither luck nor the Go scheduler
// (cooperative preemption happens at function entries) will put a delay there.
// The code under test is NOT modified; the window is widened from outside by
// stalling the OS thread that executes Start at arbitrary instructions: the
// test goroutine is locked to its thread and three other threads send that
// thread bursts of SIGURG (the signal the Go runtime itself uses for
// preemption requests and silently ignores when it did not ask for one).
// While a burst lasts the thread makes no progress; if it is stalled inside
// the window, the service's goroutines are picked up by other Ps and finish
// first. Linux only (tgkill).
//
// STATISTICAL demo (on the unfixed tree roughly one service in ten is hit);
// fails at the first service that is Running() after Wait().
func TestDemo13RunningAfterWait(t *testing.T) {
	runtime.LockOSThread()
	defer runtime.UnlockOSThread()
	pid, tid := syscall.Getpid(), syscall.Gettid()

	stop := make(chan struct{})
	var storm sync.WaitGroup
	for i := 0; i < 3; i++ {
		storm.Add(1)
		go func() {
			defer storm.Done()
			for {
				select {
				case <-stop:
					return
				default:
				}
				for t0 := time.Now(); time.Since(t0) < 40*time.Microsecond; {
					_ = syscall.Tgkill(pid, tid, syscall.SIGURG)
				}
				for t0 := time.Now(); time.Since(t0) < 5*time.Microsecond; {
				}
			}
		}()
	}
	defer func() { close(stop); storm.Wait() }()

	ctx, cancel := context.WithCancel(context.Background())
	defer cancel()

	n := 0
	for deadline := time.Now().Add(5 * time.Second); time.Now().Before(deadline); n++ {
		s := &Service{Run: func(context.Context) error { return nil }}
		if err := s.Start(ctx); err != nil {
			t.Fatal(err)
		}
		if err := s.Wait(); err != nil {
			t.Fatal(err)
		}
		if s.Running() {
			t.Fatalf("service %d: Run returned and Wait() is over, but Running() == true", n)
		}
	}
	t.Logf("%d services, none Running() after Wait()", n)
}
