package dt

import (
	"testing"

	"github.com/tychoish/fun/dt/cmp"
)

// Report #28 (Q1/Q2): List.IsSorted compared the first element with the root
// sentinel's zero value and never compared the last adjacent pair.
func TestDemo28IsSortedAdjacentPairs(t *testing.T) {
	for _, tc := range []struct {
		in   []int
		want bool
	}{
		{[]int{3, 1}, false},
		{[]int{1, 3, 2}, false},
		{[]int{-1, 5}, true},
		{[]int{-5, -3, -1}, true},
		{[]int{1, 2, -3}, false},
		{[]int{1, 1, 2}, true},
	} {
		l := &List[int]{}
		for _, v := range tc.in {
			l.PushBack(v)
		}
		if got := l.IsSorted(cmp.LessThanNative[int]); got != tc.want {
			t.Errorf("IsSorted(%v) = %v, want %v", tc.in, got, tc.want)
		}
	}
}
