package pubsub

import (
	"context"
	"testing"
	"time"
)

// Report #9 (B2): Broker.Wait holds b.mu while it blocks in wg.Wait, and
// Broker.Stop needs b.mu to cancel the broker: once somebody waits, nobody can
// stop the broker, so the wait never ends.
func TestDemo09BrokerWaitThenStop(t *testing.T) {
	ctx, cancel := context.WithCancel(context.Background())
	defer cancel() // unblocks everything on the unfixed tree

	b := NewBroker[int](ctx, BrokerOptions{})

	waited := make(chan struct{})
	go func() { b.Wait(ctx); close(waited) }()
	time.Sleep(100 * time.Millisecond) // Wait is now blocked

	stopped := make(chan struct{})
	go func() { b.Stop(); close(stopped) }()

	select {
	case <-stopped:
	case <-time.After(2 * time.Second):
		t.Fatal("Broker.Stop() still blocked after 2s while another goroutine is in Broker.Wait()")
	}
	select {
	case <-waited:
	case <-time.After(2 * time.Second):
		t.Fatal("Broker.Wait() did not return within 2s of Stop()")
	}
}
