package dt

import (
	"sync"
	"testing"
)

// Report 27 (found by rule L3b): Set.Equal on unordered synchronized sets used the map's own key
// iterator, which ranges the map from a goroutine it starts; Equal's early return released the set's
// lock while that goroutine was still reading the map. Run with -race: fails before the fix
// "Set iterates a snapshot of its keys…", passes after.
func TestDemo27SetEqualRangesMapFromGoroutine(t *testing.T) {
	for iter := 0; iter < 200; iter++ {
		a := &Set[int]{}
		a.Synchronize()
		b := &Set[int]{}
		b.Synchronize()
		for i := 0; i < 64; i++ {
			a.Add(i)
			b.Add(i + 1000)
		}
		wg := &sync.WaitGroup{}
		wg.Add(2)
		go func() { defer wg.Done(); _ = a.Equal(b) }()
		go func() { defer wg.Done(); a.Add(5000 + iter); a.Delete(3) }()
		wg.Wait()
	}
}
