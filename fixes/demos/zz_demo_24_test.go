package dt

import (
	"runtime"
	"sync"
	"testing"

	"github.com/tychoish/fun/dt/cmp"
)

// Report #24 (L1): a.Equal(b) holds only a's lock but calls b.isOrdered(),
// which reads b.list; b.SortQuick on an unordered set writes b.list (under
// b's lock). Run with -race.
func TestDemo24SetEqualReadsOtherUnlocked(t *testing.T) {
	for round := 0; round < 200; round++ {
		a := NewSetFromSlice([]int{1, 2, 3})
		b := NewSetFromSlice([]int{1, 2, 3})
		a.Synchronize()
		b.Synchronize()

		var wg sync.WaitGroup
		wg.Add(1)
		go func() {
			defer wg.Done()
			for i := 0; i < 50; i++ {
				_ = a.Equal(b)
			}
		}()
		runtime.Gosched()
		b.SortQuick(cmp.LessThanNative[int]) // b becomes ordered: writes b.list
		wg.Wait()
	}
}
