package pubsub

import (
	"context"
	"testing"
	"time"
)

// Report #3 (W3/W6): a blocking iterator that has reached the tail of a
// 2-element deque parks on dq.nfront (element.wait picks the cond from the
// waiter's position), but PushBack -> addAfter only signals nfront when the
// new element is inserted right after the root. The appended element is never
// announced to the parked iterator.
func TestDemo03DequeBlockingIteratorAtTail(t *testing.T) {
	ctx, cancel := context.WithCancel(context.Background())
	defer cancel()

	dq := NewUnlimitedDeque[int]()
	_ = dq.PushBack(1)
	_ = dq.PushBack(2)

	next := dq.ProducerBlocking()
	for _, want := range []int{1, 2} {
		v, err := next(ctx)
		if err != nil || v != want {
			t.Fatalf("got %d, %v; want %d", v, err, want)
		}
	}

	type res struct {
		v   int
		err error
	}
	out := make(chan res, 1)
	go func() { v, err := next(ctx); out <- res{v, err} }()

	time.Sleep(100 * time.Millisecond) // iterator parks at the tail
	if err := dq.PushBack(3); err != nil {
		t.Fatal(err)
	}

	select {
	case r := <-out:
		if r.err != nil || r.v != 3 {
			t.Fatalf("iterator returned %d, %v; want 3", r.v, r.err)
		}
	case <-time.After(2 * time.Second):
		t.Fatalf("blocking iterator still parked 2s after PushBack(3) (len=%d)", dq.Len())
	}
}
