#!/bin/bash
# usage: run_all.sh <worktree> <repeat>
export GOFLAGS=-mod=mod GOPROXY=off GOSUMDB=off GOTOOLCHAIN=local
tree=$1; rep=${2:-1}
while read nn pkg name race; do
  for i in $(seq $rep); do
    out=$(cd $tree && go test $race -count=1 -run "^$name\$" $pkg 2>&1)
    st=$(echo "$out" | grep -E "^(ok|FAIL|---)" | head -1 | awk '{print $1,$2}')
    key=$(echo "$out" | grep -E "zz_demo_[0-9]+_test.go:[0-9]+: |WARNING: DATA RACE|fatal error" | head -1 | sed 's/^ *//')
    echo "#$nn [$tree $race] run$i: $(echo "$out" | grep -qE '^ok' && echo PASS || echo FAIL) | $key"
  done
done <<LIST
01 ./pubsub/ TestDemo01DequeCloseWakesWaiter
02 ./pubsub/ TestDemo02DequeWaitFrontWithItems
03 ./pubsub/ TestDemo03DequeBlockingIteratorAtTail
04 . TestDemo04WaitGroupLostCancelWakeup
05 ./pubsub/ TestDemo05QueueAddSignalConsumedByProducer
06 ./pubsub/ TestDemo06QueueDistributorLenRace -race
07 ./pubsub/ TestDemo07QueueProducerAfterDrain
08 ./pubsub/ TestDemo08BrokerStatsReplyBlocksEventLoop
09 ./pubsub/ TestDemo09BrokerWaitThenStop
10 . TestDemo10OperationLaunchWaits
11 . TestDemo11ExcludedErrorsAreExcluded
12 . TestDemo12AbortModeStopsSiblings
13 ./srv/ TestDemo13RunningAfterWait
14 ./srv/ TestDemo14CloseConcurrentWithStart -race
15 ./dt/ TestDemo15SetIterationVsAdd -race
16 ./dt/ TestDemo16SetSortThenDelete
17 ./dt/ TestDemo17ListSortMergeKeepsOwnership
18 ./dt/ TestDemo18AppendForeignElement
19 ./erc/ TestDemo19CollectorIteratorSnapshot -race
24 ./dt/ TestDemo24SetEqualReadsOtherUnlocked -race
25 ./pubsub/ TestDemo25QueueBlockingAddThenClose
26 ./srv/ TestDemo26StartReturnsNilOnce
28 ./dt/ TestDemo28IsSortedAdjacentPairs
29 ./srv/ TestDemo29GroupKeepsMembersRunning
LIST
