package pubsub

import (
	"context"
	"testing"
	"time"
)

// Report #5 (W6): Queue.doAdd wakes ONE waiter of q.nupdates, but that cond
// carries two different predicates: "there is capacity" (BlockingAdd) and
// "there is a new entry" (the iterator). If the single Signal is delivered
// to a BlockingAdd waiter whose predicate is still false, it re-parks and the
// iterator never learns about the new item.
//
// Queue: soft quota 1, burst credit available. With one item queued,
// BlockingAdd parks (cap()==softQuota <= len) while a plain Add still succeeds
// on burst credit (and raises the soft quota to the new length, so the woken
// BlockingAdd finds cap <= len again).
func TestDemo05QueueAddSignalConsumedByProducer(t *testing.T) {
	ctx, cancel := context.WithCancel(context.Background())
	defer cancel()

	q, err := NewQueue[int](QueueOptions{HardLimit: 8, SoftQuota: 1, BurstCredit: 4})
	if err != nil {
		t.Fatal(err)
	}
	if err := q.Add(1); err != nil {
		t.Fatal(err)
	}

	next := q.Producer()
	if v, err := next(ctx); err != nil || v != 1 {
		t.Fatalf("got %d, %v", v, err)
	}

	// park order on nupdates: two producers first, then the iterator.
	addErrs := make(chan error, 2)
	for i := 0; i < 2; i++ {
		go func(v int) { addErrs <- q.BlockingAdd(ctx, v) }(100 + i)
		time.Sleep(100 * time.Millisecond)
	}
	type res struct {
		v   int
		err error
	}
	out := make(chan res, 1)
	go func() { v, err := next(ctx); out <- res{v, err} }()
	time.Sleep(100 * time.Millisecond)

	if err := q.Add(2); err != nil { // succeeds on burst credit
		t.Fatalf("Add(2): %v", err)
	}

	select {
	case r := <-out:
		if r.err != nil || r.v != 2 {
			t.Fatalf("iterator returned %d, %v; want 2", r.v, r.err)
		}
	case <-time.After(2 * time.Second):
		t.Fatalf("iterator still parked 2s after Add(2) succeeded (len=%d): the one Signal went to a BlockingAdd waiter", q.Len())
	}
}
