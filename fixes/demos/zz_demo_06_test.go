package pubsub

import (
	"sync"
	"testing"
)

// Report #6 (L3): Queue.Distributor stores the method value q.tracker.len as
// its size function, so Distributor.Len reads the tracker without q.mu and
// races with Add. Run with -race.
func TestDemo06QueueDistributorLenRace(t *testing.T) {
	q := NewUnlimitedQueue[int]()
	dist := q.Distributor()

	var wg sync.WaitGroup
	wg.Add(2)
	go func() {
		defer wg.Done()
		for i := 0; i < 2000; i++ {
			_ = q.Add(i)
		}
	}()
	total := 0
	go func() {
		defer wg.Done()
		for i := 0; i < 2000; i++ {
			total += dist.Len()
		}
	}()
	wg.Wait()
	_ = total
	if n := dist.Len(); n != 2000 {
		t.Fatalf("Len = %d", n)
	}
}
