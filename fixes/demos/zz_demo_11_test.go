package fun

import (
	"context"
	"errors"
	"testing"
	"time"
)

// Report #11 (N2): WorkerGroupConf.ExcludedErrors is documented as "errors
// that should not be included in the collected errors" and can be set with
// WorkerGroupConfAddExcludeErrors, but nothing ever reads it.
func TestDemo11ExcludedErrorsAreExcluded(t *testing.T) {
	ctx, cancel := context.WithTimeout(context.Background(), 5*time.Second)
	defer cancel()

	errBoring := errors.New("boring, excluded error")

	// direct: the classifier
	var seen []error
	conf := WorkerGroupConf{
		ContinueOnError: true,
		ExcludedErrors:  []error{errBoring},
		ErrorHandler:    func(err error) { seen = append(seen, err) },
	}
	if !conf.CanContinueOnError(errBoring) {
		t.Error("CanContinueOnError(excluded) = false with ContinueOnError set")
	}
	if len(seen) != 0 {
		t.Errorf("excluded error was handed to the ErrorHandler: %v", seen)
	}

	// end to end: through a worker pool
	err := SliceIterator([]int{1, 2, 3, 4}).ProcessParallel(
		func(_ context.Context, in int) error {
			if in == 2 {
				return errBoring
			}
			return nil
		},
		WorkerGroupConfNumWorkers(2),
		WorkerGroupConfContinueOnError(),
		WorkerGroupConfAddExcludeErrors(errBoring),
	)(ctx)
	if errors.Is(err, errBoring) {
		t.Errorf("ProcessParallel reported the excluded error: %v", err)
	}
}
