package pubsub

import (
	"context"
	"testing"
	"time"
)

// Report #8 (B1): Broker.Stats hands the event loop a callback that replies
// with a bare `signal <- stats` on an unbuffered channel. If the caller's
// context ends after the callback was handed over but before the reply is
// ready, nobody ever receives: the broker's event loop is stuck in the send for
// good, it no longer sees its own ctx.Done, and Stop/Wait never complete.
//
// The "caller gives up while the loop is computing the reply" history is made
// deterministic with a distributor whose Len() takes 300ms while the caller's
// context lasts 50ms.
func TestDemo08BrokerStatsReplyBlocksEventLoop(t *testing.T) {
	ctx, cancel := context.WithCancel(context.Background())
	defer cancel()

	base := DistributorChannel(make(chan int))
	dist := MakeDistributor(base.Processor(), base.Producer(), func() int {
		time.Sleep(300 * time.Millisecond)
		return 0
	})
	b := MakeDistributorBroker(ctx, dist, BrokerOptions{})

	sctx, scancel := context.WithTimeout(ctx, 50*time.Millisecond)
	_ = b.Stats(sctx) // returns on sctx expiry, before the loop replies
	scancel()

	b.Stop()

	wctx, wcancel := context.WithTimeout(context.Background(), 3*time.Second)
	defer wcancel()
	b.Wait(wctx)
	if wctx.Err() != nil {
		t.Fatalf("broker did not stop within 3s of Stop(): %d goroutine(s) of the broker still running (event loop stuck in `signal <- stats`)", b.wg.Num())
	}
}
