package dt

import (
	"context"
	"testing"

	"github.com/tychoish/fun/dt/cmp"
)

// Report #16 (D6): sorting an unordered set makes it ordered via
// forceSetupOrdered, which copies the keys into the list but leaves the hash
// values nil (no element index). A later Delete cannot unlink the element, so
// the deleted value is still produced by iteration.
func TestDemo16SetSortThenDelete(t *testing.T) {
	for name, sortFn := range map[string]func(*Set[int]){
		"SortQuick": func(s *Set[int]) { s.SortQuick(cmp.LessThanNative[int]) },
		"SortMerge": func(s *Set[int]) { s.SortMerge(cmp.LessThanNative[int]) },
	} {
		t.Run(name, func(t *testing.T) {
			s := NewSetFromSlice([]int{3, 1, 2})
			sortFn(s)
			s.Delete(2)

			if s.Check(2) || s.Len() != 2 {
				t.Fatalf("Delete did not take: Check(2)=%v Len=%d", s.Check(2), s.Len())
			}
			var got []int
			iter := s.Iterator()
			for iter.Next(context.Background()) {
				got = append(got, iter.Value())
			}
			if len(got) != 2 || got[0] != 1 || got[1] != 3 {
				t.Fatalf("after Delete(2) the set iterates %v, want [1 3]", got)
			}
		})
	}
}
