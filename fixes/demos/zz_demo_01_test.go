package pubsub

import (
	"context"
	"errors"
	"testing"
	"time"
)

// Report #1 (W3): Deque.Close sets dq.closed but notifies none of the
// condition variables, so a goroutine parked in WaitFront on an empty deque
// is never woken and never observes the close.
func TestDemo01DequeCloseWakesWaiter(t *testing.T) {
	ctx, cancel := context.WithCancel(context.Background())
	defer cancel() // releases the waiter on the unfixed tree

	dq := NewUnlimitedDeque[int]()
	errs := make(chan error, 1)
	go func() { _, err := dq.WaitFront(ctx); errs <- err }()

	time.Sleep(100 * time.Millisecond) // let the waiter park
	if err := dq.Close(); err != nil {
		t.Fatal(err)
	}

	select {
	case err := <-errs:
		if !errors.Is(err, ErrQueueClosed) {
			t.Fatalf("WaitFront returned %v, want ErrQueueClosed", err)
		}
	case <-time.After(2 * time.Second):
		t.Fatal("WaitFront still blocked 2s after Deque.Close()")
	}
}
