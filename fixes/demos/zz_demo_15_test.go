package dt

import (
	"context"
	"testing"
	"time"
)

// Report #15 (N1 + L3b): Set.Producer promises that, for a synchronized set,
// "the Producer always holds the Set's lock when called", but the deferred
// `out.WithLock(mu)` result is discarded, so iteration of an ordered set walks
// the list unlocked; for unordered sets Map.ProducerKeys ranges the map from
// its own goroutine, which no wrapper around the receive side can protect.
// Run with -race (the unordered case may also die with the runtime's
// "concurrent map iteration and map write").
func TestDemo15SetIterationVsAdd(t *testing.T) {
	for _, tc := range []struct {
		name    string
		ordered bool
	}{{"Unordered", false}, {"Ordered", true}} {
		t.Run(tc.name, func(t *testing.T) {
			ctx, cancel := context.WithTimeout(context.Background(), 5*time.Second)
			defer cancel()

			s := &Set[int]{}
			s.Synchronize()
			if tc.ordered {
				s.Order()
			}
			for i := 0; i < 200; i++ {
				s.Add(i)
			}

			done := make(chan struct{})
			go func() {
				defer close(done)
				for i := 200; i < 1200; i++ {
					s.Add(i)
				}
			}()

			seen := 0
			iter := s.Iterator()
			for iter.Next(ctx) {
				seen++
			}
			if err := iter.Close(); err != nil {
				t.Error(err)
			}
			<-done
			if seen < 200 {
				t.Errorf("iterated only %d of the 200 items present at the start", seen)
			}
		})
	}
}
