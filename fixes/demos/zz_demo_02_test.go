package pubsub

import (
	"context"
	"testing"
	"time"
)

// Report #2 (W7): Deque.waitPop parks on the first element's "next changed"
// condition before it even tries to pop, so WaitFront blocks although the
// deque holds items.
func TestDemo02DequeWaitFrontWithItems(t *testing.T) {
	dq := NewUnlimitedDeque[int]()
	if err := dq.PushBack(1); err != nil {
		t.Fatal(err)
	}
	if err := dq.PushBack(2); err != nil {
		t.Fatal(err)
	}

	ctx, cancel := context.WithTimeout(context.Background(), 2*time.Second)
	defer cancel()

	start := time.Now()
	v, err := dq.WaitFront(ctx)
	if err != nil {
		t.Fatalf("WaitFront on a deque holding 2 items: err=%v after %s (len=%d)", err, time.Since(start).Round(time.Millisecond), dq.Len())
	}
	if v != 1 {
		t.Fatalf("WaitFront = %d, want 1", v)
	}
}
