package pubsub

import (
	"context"
	"fmt"
	"testing"
	"time"
)

// Report #7 (D5/L4): Queue.Producer keeps a cursor to the last entry it
// returned. When that entry is removed and the queue drains, entry.link is nil
// while the entry is no longer q.back.
//
//	(a) Add after the drain, then iterate: the producer sees cursor.link==nil,
//	    goes to waitForNew, which snapshots q.back *after* the Add and so waits
//	    for yet another item -- blocked with an unseen item in the queue.
//	(b) iterate (parks in waitForNew), then Add: on wake-up the producer does
//	    `next = next.link` with next.link == nil (it only compared against
//	    q.front) and dereferences nil.
func TestDemo07QueueProducerAfterDrain(t *testing.T) {
	setup := func(t *testing.T) (*Queue[string], func(context.Context) (string, error)) {
		q := NewUnlimitedQueue[string]()
		if err := q.Add("first"); err != nil {
			t.Fatal(err)
		}
		next := q.Producer()
		if v, err := next(context.Background()); err != nil || v != "first" {
			t.Fatalf("got %q, %v", v, err)
		}
		if v, ok := q.Remove(); !ok || v != "first" { // drain: cursor entry is now unlinked
			t.Fatalf("Remove = %q, %v", v, ok)
		}
		return q, next
	}

	t.Run("AddThenIterate", func(t *testing.T) {
		q, next := setup(t)
		if err := q.Add("second"); err != nil {
			t.Fatal(err)
		}
		ctx, cancel := context.WithTimeout(context.Background(), time.Second)
		defer cancel()
		v, err := next(ctx)
		if err != nil || v != "second" {
			t.Fatalf("iterator returned %q, %v with %d unseen item(s) queued; want \"second\"", v, err, q.Len())
		}
	})

	t.Run("IterateThenAdd", func(t *testing.T) {
		q, next := setup(t)
		ctx, cancel := context.WithTimeout(context.Background(), 2*time.Second)
		defer cancel()

		out := make(chan string, 1)
		go func() {
			defer func() {
				if p := recover(); p != nil {
					out <- fmt.Sprint("PANIC: ", p)
				}
			}()
			v, err := next(ctx)
			out <- fmt.Sprintf("%q, %v", v, err)
		}()
		time.Sleep(100 * time.Millisecond) // iterator parks
		if err := q.Add("second"); err != nil {
			t.Fatal(err)
		}
		select {
		case got := <-out:
			if got != `"second", <nil>` {
				t.Fatalf("iterator: %s; want \"second\", <nil>", got)
			}
		case <-time.After(3 * time.Second):
			t.Fatal("iterator never returned")
		}
	})
}
