package dt

import (
	"fmt"
	"testing"
)

// Report #18 (D2): Element.Append is documented to refuse an element that
// "belongs to another list", but appendable() has that check commented out.
// Appending a member of list A into list B relinks it into B without
// unlinking it from A: A's count and A's chain disagree, and walking A ends up
// in B.
func TestDemo18AppendForeignElement(t *testing.T) {
	a, b := &List[int]{}, &List[int]{}
	a.Append(1, 2, 3)
	b.Append(10)

	walk := func(l *List[int]) string {
		var out []int
		n := 0
		for e := l.Front(); e.Ok() && n < 10; e = e.Next() {
			out = append(out, e.Value())
			n++
		}
		return fmt.Sprint(out)
	}

	foreign := a.Front().Next() // the "2" of list a
	bBack := b.Back()
	if ret := bBack.Append(foreign); ret != bBack {
		t.Errorf("Append of an element owned by another list was accepted")
	}
	if !foreign.In(a) {
		t.Errorf("element no longer reports membership of its list")
	}
	if got := walk(a); a.Len() != 3 || got != "[1 2 3]" {
		t.Errorf("list a corrupted: Len=%d walk=%s, want Len=3 walk=[1 2 3]", a.Len(), got)
	}
	if got := walk(b); b.Len() != 1 || got != "[10]" {
		t.Errorf("list b changed: Len=%d walk=%s, want Len=1 walk=[10]", b.Len(), got)
	}
}
