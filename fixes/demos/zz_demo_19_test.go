package erc

import (
	"context"
	"errors"
	"fmt"
	"sync"
	"testing"
)

// Report #19 (L3): Collector.Iterator hands out a cursor that starts at the
// collector's *live* head node (&ec.stack). Add rewrites that node under the
// collector's mutex, the iterator reads it with no lock.
//
//   - sequentially visible: the documentation says the iterator "will not
//     observe new errors added to the collector", yet an error added after
//     Iterator() returned is produced;
//   - concurrently: a data race (run with -race).
func TestDemo19CollectorIteratorSnapshot(t *testing.T) {
	ctx := context.Background()

	t.Run("DoesNotObserveLaterAdds", func(t *testing.T) {
		ec := &Collector{}
		ec.Add(errors.New("early"))
		iter := ec.Iterator()
		ec.Add(errors.New("late"))

		var got []string
		for iter.Next(ctx) {
			got = append(got, iter.Value().Error())
		}
		if fmt.Sprint(got) != "[early]" {
			t.Errorf("iterator produced %v, want [early]", got)
		}
	})

	t.Run("ConcurrentAdd", func(t *testing.T) {
		ec := &Collector{}
		for i := 0; i < 10; i++ {
			ec.Add(fmt.Errorf("err %d", i))
		}
		var wg sync.WaitGroup
		wg.Add(1)
		go func() {
			defer wg.Done()
			for i := 0; i < 1000; i++ {
				ec.Add(fmt.Errorf("more %d", i))
			}
		}()
		for round := 0; round < 50; round++ {
			iter := ec.Iterator()
			n := 0
			for iter.Next(ctx) {
				n++
			}
			if n < 10 {
				t.Errorf("saw %d errors", n)
			}
		}
		wg.Wait()
	})
}
