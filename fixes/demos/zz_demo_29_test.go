package srv

import (
	"context"
	"testing"
	"time"

	"github.com/tychoish/fun"
)

// Report #29 (O4): Group's Run returned once all members were started; the
// service then cancelled the context the members share, stopping them at once.
func TestDemo29GroupKeepsMembersRunning(t *testing.T) {
	ctx, cancel := context.WithCancel(context.Background())
	defer cancel()
	mk := func() *Service {
		return &Service{Run: func(ctx context.Context) error { <-ctx.Done(); return nil }}
	}
	a, b := mk(), mk()
	g := Group(fun.SliceIterator([]*Service{a, b}))
	if err := g.Start(ctx); err != nil {
		t.Fatal(err)
	}
	time.Sleep(200 * time.Millisecond)
	if !g.Running() || !a.Running() || !b.Running() {
		t.Errorf("nothing ended, yet running: group=%v a=%v b=%v", g.Running(), a.Running(), b.Running())
	}
	cancel()
	done := make(chan error, 1)
	go func() { done <- g.Wait() }()
	select {
	case err := <-done:
		if err != nil {
			t.Error(err)
		}
	case <-time.After(5 * time.Second):
		t.Fatal("group did not finish after its context ended")
	}
	if a.Running() || b.Running() {
		t.Error("members still running after the group finished")
	}
}
