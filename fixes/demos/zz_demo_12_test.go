package fun

import (
	"context"
	"errors"
	"sync/atomic"
	"testing"
	"time"
)

// Report #12 (N4/E8/F6): in abort mode (ContinueOnError unset) a failing item
// is meant to stop the whole worker group. The hook that cancels the group
// fires only if the per-split worker *returns* io.EOF/ErrCurrentOpAbort, but
// Processor.ReadAll converts exactly those errors into a nil return, so the
// hook never fires: the failing split stops, every other worker carries on
// through the whole input.
func TestDemo12AbortModeStopsSiblings(t *testing.T) {
	ctx, cancel := context.WithTimeout(context.Background(), 8*time.Second)
	defer cancel()

	const total = 1000
	input := make([]int, total)
	for i := range input {
		input[i] = i
	}

	errBoom := errors.New("boom at item 5")
	var processed atomic.Int64

	err := SliceIterator(input).ProcessParallel(
		func(_ context.Context, in int) error {
			if in == 5 {
				return errBoom
			}
			time.Sleep(time.Millisecond)
			processed.Add(1)
			return nil
		},
		WorkerGroupConfNumWorkers(4),
	)(ctx)

	if !errors.Is(err, errBoom) {
		t.Errorf("want the failure to be reported, got %v", err)
	}
	if n := processed.Load(); n > total/10 {
		t.Fatalf("abort mode: item 5 failed, yet %d of %d items were processed afterwards", n, total)
	} else {
		t.Logf("processed %d items", n)
	}
}
