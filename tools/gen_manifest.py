#!/usr/bin/env python3
"""Generate /verif/MANIFEST.json from the table below (single source of truth)."""
import json, os
HERE = os.path.dirname(os.path.dirname(os.path.abspath(__file__)))
props = [json.loads(l) for l in open(os.path.join(HERE, 'properties.jsonl'))]
ids = [p['id'] for p in props]

# id -> (technique, level text, level note, design ref)
CLAIMED = {
}
NA_REASON = {}
DEFAULT_NA = "static rules for this property are not built yet in this round (see DESIGN.md §5 for the planned structural clauses); no other technique is substituted"

checks = []
for pid in ids:
    if pid not in CLAIMED:
        continue
    tech, text, note, ref = CLAIMED[pid]
    checks.append({
        "property_id": pid,
        "quick_cmd": f"./run.sh {pid} quick",
        "thorough_cmd": f"./run.sh {pid} thorough",
        "evidence_file": f"/verif/evidence/{pid}.json",
        "replay_cmd_template": "cat {path}",
        "engine": "funcheck",
        "level_claimed": {"category": "other", "text": text, "design_ref": ref},
        "level_note": note,
        "technique": tech,
    })
na = [{"property_id": pid, "reason": NA_REASON.get(pid, DEFAULT_NA)} for pid in ids if pid not in CLAIMED]
manifest = {
    "version": 1,
    "setup_cmd": "./setup.sh",
    "hooks": {
        "guard": "verif",
        "enable": "none needed: the checks are static and read /repo's sources as they are; no instrumentation is compiled in",
        "baseline_off_cmd": "cd /repo && go test -vet=off -count=1 -timeout 25m ./...",
        "source_commits": [],
        "add_only": True,
    },
    "engines": [{
        "name": "funcheck",
        "path": "/verif/checker",
        "serves_properties": [c["property_id"] for c in checks],
        "kind_free_text": "repository-specific static analyser: go/packages + go/types + go/cfg dataflow (lock sets, condition-variable protocol, typestate/ordering, escape of guarded references, predicate abstraction of classification functions, sibling agreement); no code of the repository is executed",
    }],
    "checks": checks,
    "not_applicable": na,
    "notes": "Family: static analysis only. Every check loads /repo's current sources on each run and reports a named construct. Known genuine defects that cannot be repaired without editing pinned tests are in /verif/known-findings.txt.",
}
json.dump(manifest, open(os.path.join(HERE, 'MANIFEST.json'), 'w'), indent=1)
print("claimed", len(checks), "not applicable", len(na))
