#!/usr/bin/env python3
"""Generate /verif/MANIFEST.json from the table below (single source of truth)."""
import json, os
HERE = os.path.dirname(os.path.dirname(os.path.abspath(__file__)))
props = [json.loads(l) for l in open(os.path.join(HERE, 'properties.jsonl'))]
ids = [p['id'] for p in props]

# id -> (technique, level text, level note, design ref)
T_LOCK = "static lock-set dataflow over go/cfg + lock-required call-graph propagation + escape analysis of guarded references"
T_COND = "static condition-variable protocol analysis (notify-after-write on all CFG paths, lock-set at notify sites, wait-loop shape)"
NOTE = "Trusted: go/types, go/cfg, x/tools go/packages v0.29.0, the hand-confirmed tables in checker/tables.go (guarded fields, exceptions with reasons), sync/atomic/context/channel semantics. Lock identity is (owner variable, owner type, field); aliasing two variables to one object is not modelled. The check decides the structural clauses listed in the evidence explanation, not the behaviour as a whole; clauses out of static reach are listed there as NOT decided."
def lvl(t): return "Necessary structural conditions of the property, decided for every path of the current source (hence for every schedule/input that can exercise those paths): " + t + " A behavioural property quantified over schedules/values cannot be decided as a whole by static analysis; this level claims exactly these clauses and fails loudly (undecided = failure) when the code leaves the shapes the rules understand."
CLAIMED = {
 "C01": ("static typestate of the pipe-close protocol + once-guarded lazy start + goroutine accounting (AST/CFG rules P1 P2 G2 X5 PS1 X1)", lvl("the reader/worker start is Once-guarded, each pipe is closed only by its single sender or after the wait group of all senders, workers are counted before they start, ChanSend.Write is the only (non-dropping) hand-off, skip rows continue."), NOTE, "DESIGN.md §5 C01"),
 "C02": ("decision-table extraction by abstract interpretation of the iterator loops (T1, X1)", lvl("the complete decision table of Iterator.ReadOne and the skip/nil rows of all producer/processor loops, close-on-error and closed-first."), NOTE, "DESIGN.md §5 C02"),
 "C03": ("predicate abstraction: full decision table of CanContinueOnError over all atom assignments, plus wiring rules (N2 F3 F4 F6 F7 F8 N4)", lvl("the full (recorded?, continue?, abort?) table of the error classification for every error kind × option, that every option is consumed, panics are recover-wrapped and marked, the abort hook is wired to a live cancel."), NOTE, "DESIGN.md §5 C03"),
 "C04": ("static blocking-discipline analysis (every channel op has an exit), context provenance, close/upstream-close typestate (B1 B2 P1b P2 P3 T1)", lvl("no goroutine can block on a channel without a ctx/default exit, background work derives from the iterator's context, every pipe is closed, upstream is closed, Close is once-guarded."), NOTE, "DESIGN.md §5 C04"),
 "C05": (T_LOCK + "; single-critical-section rule; coupled-update and sibling-agreement rules (L1 L2 L4 D3b X2 X6 D5)", lvl("every access under q.mu, one critical section per operation, link/tracker coupling, tracker implementations agree."), NOTE, "DESIGN.md §5 C05"),
 "C06": (T_LOCK + "; link-balance and role rules (L1-L4 D3 D3b D7 X2 X6)", lvl("every access under dq.mtx, iterator closures only through WithLock, balanced link stores with tracker updates after the closed test, force push evicts from the opposite end only when full."), NOTE, "DESIGN.md §5 C06"),
 "C07": (T_COND + " (W1 W2 W2b W3 W4 W6 W7) on top of the lock-set engine", lvl("a lost wake-up is the absence of a notification on some path: wait loops, closed/ctx re-checks, watchers, notify-after-write with Broadcast, notifications under the lock, no unconditional park."), NOTE, "DESIGN.md §5 C07"),
 "C08": ("who-may-write and loop-shape rules over the broker (K1 K2), goroutine accounting (G1), blocking discipline (B1)", lvl("single writer of the subscriber set, a worker never overlaps two messages and forwards the received value, parallel sends are awaited, sends can give up."), NOTE, "DESIGN.md §5 C08"),
 "C09": ("blocking-discipline + lock-held-across-wait analysis, goroutine accounting, condvar protocol on the distributor (B1 B2 G1 K3 W*)", lvl("every broker channel op can exit on its context, Wait holds no mutex Stop needs, goroutines are counted and awaited, the Deque distributor cannot park on a non-empty buffer."), NOTE, "DESIGN.md §5 C09"),
 "C10": ("event linearisation (statements + LIFO defers) and typestate/order rules over Service.Start (S1 S2 S4-S9 G1)", lvl("single-shot start inside sync.Once, phase order in the three goroutines, recover on every callback's stack, flag monotonicity and publication, exactly one nil from Start."), NOTE, "DESIGN.md §5 C10"),
 "C11": ("goroutine accounting on CFG paths + error-discipline (unused result) rules for package srv (G1 O1 O2 O3 B2)", lvl("every started service/job is counted and awaited, no error of Start/Wait/Run/ParallelForEach is dropped, Cleanup continues on error and panic, the orchestrator drains before waiting."), NOTE, "DESIGN.md §5 C11"),
 "C12": (T_LOCK + " for erc.Collector; sibling agreement of the flattening switches (L1 L3d X3 X4 F3)", lvl("the collector's stack is only touched under its mutex and does not escape, nil is never stored, one unwind preference, every ParsePanic branch is marked."), NOTE, "DESIGN.md §5 C12"),
 "C13": (T_LOCK + " (L1 L2 L3 L3d L3b L5 U3)", lvl("lock discipline of every guarded field of the listed types on every path, lock-required helpers only reached under the lock, closures/method values only through WithLock, no guarded map ranged from another goroutine, write-once publication."), NOTE, "DESIGN.md §5 C13"),
 "C14": (T_LOCK + " + " + T_COND + " for fun.WaitGroup; dominance check V1; G2", lvl("counter/cond under mu, broadcast on reaching zero under the waiter's own wake condition, cancel watcher under the lock, check-before-mutate, Launch accounts before start."), NOTE, "DESIGN.md §5 C14"),
 "C15": ("no-effect (discarded combinator) analysis, once/hook-order rules by event linearisation, lock-set of the limit/ttl closures (N1 U2 U3 U6 U7 L1)", lvl("no wrapper is discarded, once-wrappers run only inside sync.Once.Do, hooks run in the documented order, waiters complete after the background execution, exclusion wrappers call under their mutex."), NOTE, "DESIGN.md §5 C15"),
 "C16": ("node-copy (copylocks-style) rule, ownership typestate, link-balance rule, no-op store rule (D1 D2 D2b D3 N3)", lvl("nodes/headers are never copied, only detached elements are attached, forward/backward links change in pairs with the length, no relink is a no-op."), NOTE, "DESIGN.md §5 C16"),
 "C17": ("node-copy and ownership typestate rules on the sort paths (D1 D2 D3)", lvl("only the clause 'the list remains fully usable after sorting': the sorted elements are moved back rather than the header copied, re-insertion goes through the guarded primitives."), NOTE, "DESIGN.md §5 C17"),
 "C18": ("coupled-update rule for index/order list + " + T_LOCK + " with per-variable lock identity (D6 L1 L2 L3d L3b N1 D1)", lvl("index and order list change together, both sets' state only under their own mutex, iterators only through WithLock and never ranging the map from another goroutine."), NOTE, "DESIGN.md §5 C18"),
 "C19": ("coupled-write and writer/reader field-agreement rules (H1 H4)", lvl("only: every writer of counts maintains totalCount, Export/Import agree on every Snapshot field. The numeric core of the property is not claimed."), NOTE, "DESIGN.md §5 C19"),
 "C20": (T_LOCK + " on the iterator closures, single critical section, nil discipline of tail links, " + T_COND, lvl("iterator closures inspect links and closed only under the lock, decide and park in one critical section, never follow a nil tail link, and are woken by add/close/cancel."), NOTE, "DESIGN.md §5 C20"),
}

# additions of the third session (rules that came out of the seeded campaign, DESIGN.md §2/§10)
ADD = {
 "C01": ("; cancel discipline, distinct outputs, worker-count clamp (P4 P5 V2 P6), hand-off primitives never report a non-event as success (X5b X1b), and the classification table (E8)", "Also: no worker cancels the group's context on a non-error path, Split's outputs are distinct iterators, validation leaves at least one worker."),
 "C02": ("; per-element freshness of JSON decode targets (R1); pure-drain rule on the consumer chain of every pipe (T3); X5b X1b T1c", "Also: JSON decoding yields a fresh value per element; the consumer side of every pipe is a pure drain."),
 "C03": ("; who-may-use rule for the group's ErrorHandler (F9)", "Also: the group's error handler is invoked only by the classification."),
 "C04": ("; condition-variable protocol of fun.WaitGroup incl. check-under-lock (W1-W8, L4); classification row 'context error stops the worker' (E8)", "Also: the WaitGroup.Wait that gates every pipe's close cannot miss the last Done; a context error always stops a worker."),
 "C05": ("; closed-only-when-empty, ok-flag discipline, check-under-lock (W9 D9v W8); tail/link maintenance and popFront precondition (D10 D11 D5p)", "Also: a consumer-side wait reports closed only when there is nothing to take; an internal (value, ok) result is never used with ok dropped."),
 "C06": ("; W9 D9v; constant-capacity tracker rule (X7); end roles of the Front/Back methods (X10)", "Also: closed only when empty, ok-flag discipline, a fixed Capacity is served by a tracker whose bound never changes."),
 "C07": ("; W8 check-before-park under the lock on all paths", ""),
 "C08": ("; who-may-receive rule (K4), channel roles and lossless send shape (K6 K7), ok-flag discipline (D9v), G1 through local closures", "Also: the broker never receives from a subscriber's channel; the distributor's receive side never yields a value whose ok flag was dropped."),
 "C09": ("; guarded-shutdown rule for the event loop (K5)", "Also: the event loop closes the broker only on ErrQueueClosed/io.EOF."),
 "C10": ("; deferred-phase rule S2b; W8 for Service.Wait's wait group", "Also: every phase after Run is a deferred action (the panic path equals the normal path)."),
 "C11": ("; must-await rule for services started under Run's own context (O4); resolved-callee form of O2 with the job-error clause", "Also: a Run that starts member services awaits them before returning, registering their Wait on every path; a cleanup job's error goes to the service's own collector."),
 "C12": ("; node-store and coupled-update rules for ers.Stack (D1s D3s); agreement with the errors package protocol (X9)", "Also: a Stack head changes only through the push primitive."),
 "C13": ("; shared-local rule for goroutine-captured variables (L6)", "Also: locals shared between goroutines are of concurrency-safe types."),
 "C14": ("; W8 check-before-park under the lock; V3 constant deltas of Done/Inc", "Also: the counter is read under the lock before the first park."),
 "C16": ("; must-dataflow for sentinel-free value reads (Q1), who-may-write/return rules for values, ok flags and the root (Q3 Q4 D9), element-identity rules for the sorts (Q6 Q7), end roles and Stack.Pop coupling (X10 D3k)", "Also: no traversal reads the sentinel's value, the root is never handed out, values are written only by the node's own methods, sorting re-links the same elements."),
 "C17": ("; must-dataflow Q1, affine cursor abstraction of IsSorted (Q2), stable-sort shape (Q6), element identity (Q7), heap who-may-insert (Q5)", "Now also: IsSorted compares exactly the adjacent pairs in the right orientation and never the sentinel; SortQuick's order and stability come from one sort.SliceStable with less = lt(e[i], e[j]); sorts re-link the same elements; every heap insertion goes through Push."),
 "C18": ("; must-pass-through rule for Set.Sort* (D6c), size-first Equal, insert-once / un-index rules (D6d D6e), element identity of the list sorts (Q7 Q3)", "Also: sorting a set makes it ordered on every path; the list sorts keep the elements the index points at."),
 "C19": ("; widen-after-shift rule (H5), no-alias rule for Export (H6), same-delta and field-coverage rules (H1b H2)", "Also: bucket arithmetic is shifted at 64 bits; Export copies the counts."),
}

ADD2 = {
 "C01": "; reentrancy of StartGroup operations (R3), split outputs (P7), loop-variable capture (R2)",
 "C02": "; R2 loop-variable capture, U9 stage machine of Producer.Join",
 "C03": "; P7",
 "C05": "; tracker bound/order/floor rules (X2c X2d X2e), dependent option defaults (N5)",
 "C06": "; X2c X2d X2e",
 "C08": "; K2 guard form, G1 through methods",
 "C09": "; X2c-e, D7, X10, and the fun.WaitGroup protocol (W1-W8)",
 "C10": "; X4/X4b for the collector of the service",
 "C11": "; fun.WaitGroup protocol and Queue wait rules (W1-W9)",
 "C12": "; X4b only-nil-dropped, X11 no composed ers.Error, X12 no-alias unwinding",
 "C13": "; L6c sent closures, L7 adt.Once fields, L4p panic-safe unlock",
 "C14": "; L4p",
 "C15": "; L7/U2b (adt.Once), U9 (Join), fun.WaitGroup protocol for the StartGroup waiter",
 "C16": "; Q8 members are born members, Q9 EOF after advance, Q6b",
 "C17": "; Q6b must-pass-through of the stable sort",
 "C18": "; Q9, R1",
 "C19": "; H7 Merge replay",
 "C20": "; W9b closed-last in the iterator loop, L5 write-once element.list",
}

NA_REASON = {}
DEFAULT_NA = "static rules for this property are not built yet in this round (see DESIGN.md §5 for the planned structural clauses); no other technique is substituted"

checks = []
for pid in ids:
    if pid not in CLAIMED:
        continue
    tech, text, note, ref = CLAIMED[pid]
    if pid in ADD2:
        tech += ADD2[pid]
    if pid in ADD:
        tech += ADD[pid][0]
        if ADD[pid][1]:
            text += " " + ADD[pid][1]
    checks.append({
        "property_id": pid,
        "quick_cmd": f"./run.sh {pid} quick",
        "thorough_cmd": f"./run.sh {pid} thorough",
        "evidence_file": f"/verif/evidence/{pid}.json",
        "replay_cmd_template": "cat {path}",
        "engine": "funcheck",
        "level_claimed": {"category": "other", "text": text, "design_ref": ref},
        "level_note": note,
        "technique": tech,
    })
na = [{"property_id": pid, "reason": NA_REASON.get(pid, DEFAULT_NA)} for pid in ids if pid not in CLAIMED]
manifest = {
    "version": 1,
    "setup_cmd": "./setup.sh",
    "hooks": {
        "guard": "verif",
        "enable": "none needed: the checks are static and read /repo's sources as they are; no instrumentation is compiled in",
        "baseline_off_cmd": "cd /repo && go test -vet=off -count=1 -timeout 25m ./...",
        "source_commits": [],
        "add_only": True,
    },
    "engines": [{
        "name": "funcheck",
        "path": "/verif/checker",
        "serves_properties": [c["property_id"] for c in checks],
        "kind_free_text": "repository-specific static analyser: go/packages + go/types + go/cfg dataflow (lock sets, condition-variable protocol, typestate/ordering, escape of guarded references, predicate abstraction of classification functions, sibling agreement); no code of the repository is executed",
    }],
    "checks": checks,
    "not_applicable": na,
    "notes": "Family: static analysis only. Every check loads /repo's current sources on each run and reports a named construct. Known genuine defects that cannot be repaired without editing pinned tests are in /verif/known-findings.txt. 59 independently written breaking changes are archived under /verif/seeded with what catches them (DESIGN.md §10); the thorough tier replays them in memory on every run. No property is listed as not applicable: each is claimed at level 'other' for named structural clauses only, and the clauses out of static reach are listed in the evidence (coverage.not_decided) and in DESIGN.md §5/§6.",
}
json.dump(manifest, open(os.path.join(HERE, 'MANIFEST.json'), 'w'), indent=1)
print("claimed", len(checks), "not applicable", len(na))
