#!/bin/bash
# validate MANIFEST.json and every evidence file against the schemas
python3-vt - <<'PY'
import json, glob, jsonschema, sys
ok = True
try:
    jsonschema.validate(json.load(open('/verif/MANIFEST.json')), json.load(open('/root/.vp/MANIFEST.schema.json')))
    print('MANIFEST valid')
except Exception as e:
    ok = False; print('MANIFEST INVALID', e)
es = json.load(open('/root/.vp/EVIDENCE.schema.json'))
for f in sorted(glob.glob('/verif/evidence/C*.json')):
    try:
        jsonschema.validate(json.load(open(f)), es)
    except Exception as e:
        ok = False; print('EVIDENCE INVALID', f, str(e)[:300])
print('evidence files checked', len(glob.glob('/verif/evidence/C*.json')))
sys.exit(0 if ok else 1)
PY
