#!/usr/bin/env python3
"""split a unified diff into hunks; `hunks.py list f.patch` or `hunks.py pick f.patch 3,7,9 > out.patch`"""
import sys,re
def parse(path):
    files=[];cur=None
    for line in open(path):
        if line.startswith('diff --git'):
            cur={'head':[line],'hunks':[]};files.append(cur)
        elif line.startswith('@@'):
            cur['hunks'].append([line])
        elif cur['hunks']:
            cur['hunks'][-1].append(line)
        else:
            cur['head'].append(line)
    return files
files=parse(sys.argv[2])
if sys.argv[1]=='list':
    n=0
    for f in files:
        for h in f['hunks']:
            n+=1
            adds=[l[1:].strip() for l in h if l.startswith('+')][:2]
            print(n,f['head'][0].split()[-1],h[0].strip()[:60],'|',' / '.join(adds)[:100])
else:
    want=set(int(x) for x in sys.argv[3].split(','))
    n=0
    for f in files:
        sel=[]
        for h in f['hunks']:
            n+=1
            if n in want: sel.append(h)
        if sel:
            sys.stdout.write(''.join(f['head']))
            for h in sel: sys.stdout.write(''.join(h))
