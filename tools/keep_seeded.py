#!/usr/bin/env python3
"""keep_seeded.py <prop> <k> [--race] [--no-baseline]

Confirm an independently written breaking change (/tmp/mut/<prop>/out/m<k>/) in a scratch
worktree of /repo and, if it holds up, archive it under /verif/seeded/<prop>-m<k>/ together with
meta.json (what it breaks, what it needs, what was run, which checks catch it).

Confirmed = (1) the patch applies and the tree builds and vets, (2) the demonstration passes
without the patch and fails with it, (3) the pinned suite still passes with the patch.
Nothing is ever committed to /repo; the checks are run against /repo with the patch applied
and the patch is undone straight afterwards.
"""
import json, os, re, shutil, subprocess, sys, time

ENV = dict(os.environ, GOFLAGS='-mod=mod', GOPROXY='off', GOSUMDB='off', GOTOOLCHAIN='local')
PKGDIR = {'fun': '.', 'pubsub': 'pubsub', 'srv': 'srv', 'dt': 'dt', 'erc': 'erc', 'ers': 'ers', 'adt': 'adt',
          'itertool': 'itertool', 'hdrhist': 'dt/hdrhist', 'ft': 'ft', 'internal': 'internal', 'risky': 'risky', 'cmp': 'dt/cmp'}


def sh(cmd, cwd=None, timeout=1800):
    p = subprocess.run(cmd, shell=True, cwd=cwd, env=ENV, capture_output=True, text=True, timeout=timeout)
    return p.returncode, (p.stdout + p.stderr)


def main():
    prop, k = sys.argv[1], sys.argv[2]
    race = '--race' in sys.argv
    no_base = '--no-baseline' in sys.argv
    src = f"{os.environ.get('MUT_BASE', '/tmp/mut')}/{prop}/out/m{k}"
    patch = f'{src}/patch.diff'
    demos = [f for f in os.listdir(src) if f.endswith('_test.go')]
    assert os.path.exists(patch) and demos, 'patch or demo missing'
    wt = f'/tmp/confirm-{prop}-m{k}'
    sh(f'git -C /repo worktree remove --force {wt}')
    rc, out = sh(f'git -C /repo worktree add -f {wt} HEAD')
    assert rc == 0, out
    meta = {'property': prop, 'mutant': f'm{k}', 'source': 'independent sub-agent given only the property text and a scratch worktree',
            'base_commit': sh('git -C /repo rev-parse --short HEAD')[1].strip(), 'ran': []}
    try:
        # place demos
        placed = []
        for d in demos:
            txt = open(f'{src}/{d}').read()
            m = re.search(r'^package\s+(\w+)', txt, re.M)
            pkg = m.group(1)
            pdir = PKGDIR.get(pkg.replace('_test', ''), None)
            assert pdir is not None, f'unknown package {pkg}'
            shutil.copy(f'{src}/{d}', f'{wt}/{pdir}/{d}')
            placed.append((pdir, d))
            if 'race' in txt.lower() and 'go test -race' in txt.lower():
                race = True
        readme = open(f'{src}/README.md').read() if os.path.exists(f'{src}/README.md') else ''
        if re.search(r'go test[^\n]*-race', readme):
            race = True
        pkgs = sorted(set('./' + p if p != '.' else '.' for p, _ in placed))
        run = '|'.join(sorted(set(re.findall(r'^func (Test\w+)\(', ''.join(open(f'{src}/{d}').read() for d in demos), re.M))))
        demo_cmd = f"go test {'-race ' if race else ''}-count=1 -run '^({run})$' {' '.join(pkgs)}"
        # (2a) without the patch
        rc0, out0 = sh(demo_cmd, wt)
        meta['ran'].append({'cmd': demo_cmd + '   # unmodified', 'exit': rc0, 'tail': out0[-600:]})
        # (1) apply, build, vet
        rc, out = sh(f'git apply {patch}', wt)
        assert rc == 0, 'patch does not apply: ' + out
        rcb, outb = sh('go build ./... && go vet ' + ' '.join(pkgs), wt)
        meta['ran'].append({'cmd': 'go build ./... && go vet <pkgs>   # with the change', 'exit': rcb, 'tail': outb[-400:]})
        # (2b) with the patch (up to 3 tries for schedule-dependent demos)
        fails = 0
        for i in range(3):
            rc1, out1 = sh(demo_cmd, wt)
            if rc1 != 0:
                fails += 1
        meta['ran'].append({'cmd': demo_cmd + '   # with the change, 3 runs', 'failed_runs': fails, 'tail': out1[-900:]})
        # (3) pinned suite with the change (demo files removed first)
        base_ok = None
        if not no_base:
            for pdir, d in placed:
                os.remove(f'{wt}/{pdir}/{d}')
            for attempt in range(3):
                rcs, outs = sh(f'python3 /verif/tools/baseline.py {wt}', wt, timeout=3000)
                line = [l for l in outs.splitlines() if l.startswith('ran ')]
                meta['ran'].append({'cmd': 'python3 tools/baseline.py <worktree>   # pinned suite with the change', 'exit': rcs, 'summary': line[-1] if line else outs[-300:],
                                    'not_passing': [l.strip() for l in outs.splitlines() if 'NOT-PASS' in l][:8]})
                if rcs == 0:
                    base_ok = True
                    break
                base_ok = False
        meta['confirmed'] = {'applies_builds_vets': rcb == 0, 'demo_passes_without': rc0 == 0, 'demo_fails_with': fails, 'pinned_suite_passes_with': base_ok}
    finally:
        sh(f'git -C /repo worktree remove --force {wt}')
        sh('git -C /repo worktree prune')
    ok = meta['confirmed']['applies_builds_vets'] and meta['confirmed']['demo_passes_without'] and meta['confirmed']['demo_fails_with'] >= 1 and (no_base or meta['confirmed']['pinned_suite_passes_with'])
    # which checks catch it (against /repo itself, patch undone afterwards)
    caught = {}
    if sh('git -C /repo status --porcelain')[1].strip():
        print('/repo dirty; not running checks')
    else:
        rc, out = sh(f'git -C /repo apply {patch}')
        try:
            for i in range(1, 21):
                pid = f'C{i:02d}'
                rc, out = sh(f'/verif/bin/funcheck -prop {pid} -repo /repo -verif /tmp/vt-try', '/verif')
                hits = []
                lines = out.splitlines()
                for j, l in enumerate(lines):
                    if l.startswith('VIOLATION') and j + 1 < len(lines):
                        d = lines[j + 1].strip()
                        if any(s in d for s in ('erc.(*Collector).Resolve', 'Swap/copy', 'Item).Remove/next', 'ParsePanic/case:[]error')):
                            continue
                        mm = re.match(r'(violated|undecided) (\S+) at (.+?) \(', d)
                        hits.append(f'{mm.group(2)} at {mm.group(3)}' if mm else d[:120])
                if hits:
                    caught[pid] = hits[:6]
        finally:
            sh('git -C /repo checkout -- . && git -C /repo clean -fdq')
    meta['caught_by'] = caught
    meta['caught_by_own_property_check'] = prop in caught
    if readme:
        meta['needs_to_manifest'] = readme[:1500]
    dst = f'/verif/seeded/{prop}-m{k}'
    if ok:
        os.makedirs(dst, exist_ok=True)
        shutil.copy(patch, f'{dst}/patch.diff')
        for d in demos:
            shutil.copy(f'{src}/{d}', f'{dst}/{d}')
        if readme:
            open(f'{dst}/README.md', 'w').write(readme)
        json.dump(meta, open(f'{dst}/meta.json', 'w'), indent=1)
    print(json.dumps({'kept': ok, 'confirmed': meta['confirmed'], 'caught_by': caught}, indent=1))


if __name__ == '__main__':
    main()
