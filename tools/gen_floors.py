#!/usr/bin/env python3
"""Regenerate checker/floors.json from the instance counts of a run on the reference tree.
usage: gen_floors.py [repo]   (run after confirming the instance lists with `bin/funcheck -dump`)"""
import json, subprocess, sys, os, tempfile, math
repo = sys.argv[1] if len(sys.argv) > 1 else '/repo'
here = os.path.dirname(os.path.dirname(os.path.abspath(__file__)))
open(os.path.join(here, 'checker', 'floors.json'), 'w').write('{}')
subprocess.run(['bash', '-c', 'cd %s/checker && GOFLAGS=-mod=vendor go build -o ../bin/funcheck .' % here], check=True)
out = {}
tmp = tempfile.mkdtemp()
for i in range(1, 21):
    pid = 'C%02d' % i
    subprocess.run([os.path.join(here, 'bin/funcheck'), '-prop', pid, '-repo', repo, '-verif', tmp], capture_output=True)
    ev = json.load(open(os.path.join(tmp, 'evidence', pid + '.json')))
    out[pid] = {}
    for r in ev['coverage']['rules']:
        if r['rule'] == 'FLOOR' or r['instances'] == 0:
            continue
        n = r['instances']
        out[pid][r['rule']] = max(1, math.floor(n * 0.85))
json.dump(out, open(os.path.join(here, 'checker', 'floors.json'), 'w'), indent=1, sort_keys=True)
subprocess.run(['bash', '-c', 'cd %s/checker && GOFLAGS=-mod=vendor go build -o ../bin/funcheck .' % here], check=True)
print('floors written for', len(out), 'properties')
