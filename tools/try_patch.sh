#!/bin/bash
# try_patch.sh <patch.diff> [prop ...]  — apply a change to /repo, run the quick checks, undo the change.
# Prints, per property, the VIOLATION details (or "silent").
set -u
PATCH="$1"; shift
PROPS="${*:-$(seq -f 'C%02g' 1 20)}"
cd /verif
if [ -n "$(git -C /repo status --porcelain)" ]; then echo "/repo is dirty, refusing"; exit 2; fi
git -C /repo apply "$PATCH" || { echo "patch does not apply"; exit 2; }
trap 'git -C /repo checkout -- . ; git -C /repo clean -fdq' EXIT
mkdir -p /tmp/vt-try
for p in $PROPS; do
  out=$(bin/funcheck -prop $p -repo /repo -verif /tmp/vt-try 2>&1 | grep -A1 "^VIOLATION" | grep -v "^VIOLATION" | grep -v "^--" | cut -c1-260)
  if [ -n "$out" ]; then echo "== $p"; echo "$out" | grep -v -F -f <(printf 'erc.(*Collector).Resolve\nSwap/copy\nItem).Remove/next\nParsePanic/case:[]error\n') ; fi
done
echo "(done)"
