#!/usr/bin/env python3
"""Rewrite the table between the SEEDED-TABLE markers of DESIGN.md from seeded/*/meta.json."""
import json, os, re
rows = []
base = '/verif/seeded'
for sid in sorted(os.listdir(base)):
    mp = f'{base}/{sid}/meta.json'
    if not os.path.exists(mp):
        continue
    m = json.load(open(mp))
    what = ''
    readme = f'{base}/{sid}/README.md'
    patch = open(f'{base}/{sid}/patch.diff').read()
    files = sorted(set(re.findall(r'^\+\+\+ b/(\S+)', patch, re.M)))
    own = m.get('caught_by', {}).get(m['property'], [])
    others = sorted(k for k in m.get('caught_by', {}) if k != m['property'])
    rules = sorted(set(h.split(' at ')[0] for h in own if not h.startswith('FLOOR')))
    suite = m.get('confirmed', {}).get('pinned_suite_passes_with')
    rows.append((sid, ', '.join(files), ', '.join(rules) if rules else '—', ', '.join(others) if others else '', {True: 'yes', False: 'NO', None: 'n/r'}[suite]))
out = ['| change | file(s) | reported by the property\'s own check (rule) | also reported under | pinned suite passes with it |', '|---|---|---|---|---|']
for r in rows:
    out.append('| ' + ' | '.join(r) + ' |')
text = open('/verif/DESIGN.md').read()
a, b = '<!-- SEEDED-TABLE-BEGIN -->', '<!-- SEEDED-TABLE-END -->'
if a in text:
    text = text[:text.index(a) + len(a)] + '\n' + '\n'.join(out) + '\n' + text[text.index(b):]
    open('/verif/DESIGN.md', 'w').write(text)
print('\n'.join(out))
