#!/usr/bin/env python3
"""confirm_seeded.py [id ...] [--suite] [--checks]

For every archived change under /verif/seeded (or the ids given):
  --suite   run the pinned test suite on a scratch worktree with the patch applied (up to 3 attempts,
            because a few timing tests are flaky under load) and record the outcome in meta.json;
  --checks  apply the patch to /repo itself, run all twenty quick checks, record which rules report it
            (meta.json: caught_by, caught_by_own_property_check), and undo the patch straight afterwards.
Nothing is ever committed to /repo; the scratch worktree is removed as soon as its run is over.
"""
import json, os, re, subprocess, sys

ENV = dict(os.environ, GOFLAGS='-mod=mod', GOPROXY='off', GOSUMDB='off', GOTOOLCHAIN='local')
KNOWN = ('erc.(*Collector).Resolve', 'Swap/copy', 'Item).Remove/next', 'ParsePanic/case:[]error')


def sh(cmd, cwd=None, timeout=3000):
    p = subprocess.run(cmd, shell=True, cwd=cwd, env=ENV, capture_output=True, text=True, timeout=timeout)
    return p.returncode, p.stdout + p.stderr


def suite(sid, d, meta):
    wt = f'/tmp/confirm-{sid}'
    sh(f'git -C /repo worktree remove --force {wt}')
    rc, out = sh(f'git -C /repo worktree add -f {wt} HEAD')
    assert rc == 0, out
    try:
        rc, out = sh(f'git apply {d}/patch.diff', wt)
        if rc != 0:
            meta.setdefault('confirmed', {})['pinned_suite_passes_with'] = None
            meta['suite_note'] = 'patch no longer applies to HEAD: ' + out[-200:]
            return
        ok, notes = False, []
        for attempt in range(3):
            rcs, outs = sh(f'python3 /verif/tools/baseline.py {wt}', wt)
            line = [l for l in outs.splitlines() if l.startswith('ran ')]
            bad = [l.strip() for l in outs.splitlines() if 'NOT-PASS' in l]
            notes.append({'attempt': attempt + 1, 'summary': line[-1] if line else outs[-200:], 'not_passing': bad[:6]})
            if rcs == 0:
                ok = True
                break
        meta.setdefault('confirmed', {})['pinned_suite_passes_with'] = ok
        meta['suite_runs'] = notes
        meta['suite_base_commit'] = sh('git -C /repo rev-parse --short HEAD')[1].strip()
    finally:
        sh(f'git -C /repo worktree remove --force {wt}')
        sh('git -C /repo worktree prune')


def checks(sid, d, meta):
    if sh('git -C /repo status --porcelain')[1].strip():
        print('/repo dirty; skipping checks')
        return
    rc, out = sh(f'git -C /repo apply {d}/patch.diff')
    if rc != 0:
        meta['checks_note'] = 'patch no longer applies to /repo HEAD'
        return
    caught = {}
    try:
        for i in range(1, 21):
            pid = f'C{i:02d}'
            rc, out = sh(f'/verif/bin/funcheck -prop {pid} -repo /repo -verif /tmp/vt-try', '/verif')
            lines = out.splitlines()
            hits = []
            for j, l in enumerate(lines):
                if l.startswith('VIOLATION') and j + 1 < len(lines):
                    dd = lines[j + 1].strip()
                    if any(s in dd for s in KNOWN):
                        continue
                    mm = re.match(r'(violated|undecided) (\S+) at (.+?) \(', dd)
                    hits.append(f'{mm.group(2)} at {mm.group(3)}' if mm else dd[:120])
            if hits:
                caught[pid] = hits[:6]
    finally:
        sh('git -C /repo checkout -- . && git -C /repo clean -fdq')
    meta['caught_by'] = caught
    meta['caught_by_own_property_check'] = meta['property'] in caught
    meta['checks_at_verif_commit'] = sh('git -C /verif rev-parse --short HEAD')[1].strip()


def main():
    args = [a for a in sys.argv[1:] if not a.startswith('--')]
    ids = args or sorted(os.listdir('/verif/seeded'))
    for sid in ids:
        d = f'/verif/seeded/{sid}'
        mp = f'{d}/meta.json'
        if not os.path.exists(mp):
            continue
        meta = json.load(open(mp))
        if '--suite' in sys.argv:
            suite(sid, d, meta)
        if '--checks' in sys.argv:
            checks(sid, d, meta)
        json.dump(meta, open(mp, 'w'), indent=1)
        print(sid, 'suite=', meta.get('confirmed', {}).get('pinned_suite_passes_with'), 'own=', meta.get('caught_by_own_property_check'), 'by=', ','.join(sorted(meta.get('caught_by', {}))))


if __name__ == '__main__':
    main()
