#!/usr/bin/env python3
"""confirm_seeded.py [id ...] [--suite] [--checks]

For every archived change under /verif/seeded (or the ids given):
  --suite   run the pinned test suite on a scratch worktree with the patch applied (up to 3 attempts,
            because a few timing tests are flaky under load) and record the outcome in meta.json;
  --checks  apply the patch to /repo itself, run all twenty quick checks, record which rules report it
            (meta.json: caught_by, caught_by_own_property_check), and undo the patch straight afterwards.
Nothing is ever committed to /repo; the scratch worktree is removed as soon as its run is over.
"""
import json, os, re, subprocess, sys

ENV = dict(os.environ, GOFLAGS='-mod=mod', GOPROXY='off', GOSUMDB='off', GOTOOLCHAIN='local')
KNOWN = ('erc.(*Collector).Resolve', 'Swap/copy', 'Item).Remove/next', 'ParsePanic/case:[]error')


def sh(cmd, cwd=None, timeout=3000):
    p = subprocess.run(cmd, shell=True, cwd=cwd, env=ENV, capture_output=True, text=True, timeout=timeout)
    return p.returncode, p.stdout + p.stderr


def run_suite(wt, only=None):
    """Run the pinned suite (or only the given {pkg: [top-level tests]}) in wt; return the stable tests that did not pass."""
    base = json.load(open('/root/.vp/BASELINE.json'))
    stable = set(base['stable_pass'])
    res = {}
    if only is None:
        cmds = [['go', 'test', '-json', '-vet=off', '-count=1', '-timeout', '25m', './...']]
    else:
        cmds = [['go', 'test', '-json', '-vet=off', '-count=1', '-timeout', '25m', '-run', '^(' + '|'.join(sorted(ts)) + ')$', pkg] for pkg, ts in only.items()]
    for cmd in cmds:
        p = subprocess.run(cmd, cwd=wt, env=ENV, capture_output=True, text=True)
        for line in p.stdout.splitlines():
            try:
                ev = json.loads(line)
            except Exception:
                continue
            if ev.get('Action') in ('pass', 'fail', 'skip') and ev.get('Test'):
                res[ev['Package'] + '::' + ev['Test']] = ev['Action']
    if only is None:
        return sorted(t for t in stable if res.get(t) != 'pass'), len(res)
    wanted = [t for t in stable if any(t.startswith(pkg + '::' + top) for pkg, ts in only.items() for top in ts)]
    return sorted(t for t in wanted if res.get(t) != 'pass'), len(res)


def suite(sid, d, meta):
    wt = f'/tmp/confirm-{sid}'
    sh(f'git -C /repo worktree remove --force {wt}')
    rc, out = sh(f'git -C /repo worktree add -f {wt} HEAD')
    assert rc == 0, out
    try:
        rc, out = sh(f'git apply {d}/patch.diff', wt)
        if rc != 0:
            meta.setdefault('confirmed', {})['pinned_suite_passes_with'] = None
            meta['suite_note'] = 'patch no longer applies to HEAD: ' + out[-200:]
            return
        bad, n = run_suite(wt)
        notes = [{'run': 'full suite', 'tests': n, 'stable_not_passing': bad[:10]}]
        # timing-sensitive tests fail under load: re-run exactly the failing ones on their own
        for attempt in range(3):
            if not bad:
                break
            only = {}
            for t in bad:
                pkg, name = t.split('::', 1)
                only.setdefault(pkg, set()).add(name.split('/')[0])
            bad, n2 = run_suite(wt, only)
            notes.append({'run': 'isolated re-run of the tests that did not pass', 'attempt': attempt + 1, 'tests': n2, 'stable_not_passing': bad[:10]})
        meta.setdefault('confirmed', {})['pinned_suite_passes_with'] = not bad
        meta['suite_runs'] = notes
        meta['suite_base_commit'] = sh('git -C /repo rev-parse --short HEAD')[1].strip()
    finally:
        sh(f'git -C /repo worktree remove --force {wt}')
        sh('git -C /repo worktree prune')


def checks(sid, d, meta):
    if sh('git -C /repo status --porcelain')[1].strip():
        print('/repo dirty; skipping checks')
        return
    rc, out = sh(f'git -C /repo apply {d}/patch.diff')
    if rc != 0:
        meta['checks_note'] = 'patch no longer applies to /repo HEAD'
        return
    caught = {}
    try:
        from concurrent.futures import ThreadPoolExecutor
        pids = [f'C{i:02d}' for i in range(1, 21)]
        with ThreadPoolExecutor(max_workers=10) as ex:
            outs = list(ex.map(lambda pid: sh(f'/verif/bin/funcheck -prop {pid} -repo /repo -verif /tmp/vt-try-{pid}', '/verif')[1], pids))
        for pid, out in zip(pids, outs):
            lines = out.splitlines()
            hits = []
            for j, l in enumerate(lines):
                if l.startswith('VIOLATION') and j + 1 < len(lines):
                    dd = lines[j + 1].strip()
                    if any(s in dd for s in KNOWN):
                        continue
                    mm = re.match(r'(violated|undecided) (\S+) at (.+?) \(', dd)
                    hits.append(f'{mm.group(2)} at {mm.group(3)}' if mm else dd[:120])
            if hits:
                caught[pid] = hits[:6]
    finally:
        sh('git -C /repo checkout -- . && git -C /repo clean -fdq')
    meta['caught_by'] = caught
    meta['caught_by_own_property_check'] = meta['property'] in caught
    meta['checks_at_verif_commit'] = sh('git -C /verif rev-parse --short HEAD')[1].strip()


def one_suite(sid):
    d = f'/verif/seeded/{sid}'
    meta = json.load(open(f'{d}/meta.json'))
    suite(sid, d, meta)
    # merge only the suite fields (another phase may have rewritten the file meanwhile)
    cur = json.load(open(f'{d}/meta.json'))
    cur.setdefault('confirmed', {})['pinned_suite_passes_with'] = meta.get('confirmed', {}).get('pinned_suite_passes_with')
    for k in ('suite_runs', 'suite_base_commit', 'suite_note'):
        if k in meta:
            cur[k] = meta[k]
    json.dump(cur, open(f'{d}/meta.json', 'w'), indent=1)
    print(sid, 'suite=', cur['confirmed']['pinned_suite_passes_with'], flush=True)


def main():
    args = [a for a in sys.argv[1:] if not a.startswith('--')]
    ids = args or sorted(x for x in os.listdir('/verif/seeded') if os.path.exists(f'/verif/seeded/{x}/meta.json'))
    if '--suite' in sys.argv:
        from concurrent.futures import ThreadPoolExecutor
        todo = [i for i in ids if '--redo' in sys.argv or json.load(open(f'/verif/seeded/{i}/meta.json')).get('confirmed', {}).get('pinned_suite_passes_with') is not True]
        with ThreadPoolExecutor(max_workers=4) as ex:
            list(ex.map(one_suite, todo))
    if '--checks' in sys.argv:
        for sid in ids:
            d = f'/verif/seeded/{sid}'
            meta = json.load(open(f'{d}/meta.json'))
            checks(sid, d, meta)
            json.dump(meta, open(f'{d}/meta.json', 'w'), indent=1)
            print(sid, 'own=', meta.get('caught_by_own_property_check'), 'by=', ','.join(sorted(meta.get('caught_by', {}))), flush=True)


if __name__ == '__main__':
    main()
