#!/usr/bin/env python3
"""Run the pinned test suite in a checkout of tychoish/fun (default /repo) and
report every stable-pass test of /root/.vp/BASELINE.json that does not pass.
usage: baseline.py [dir]   (exit 0 = all stable tests pass)"""
import json, os, subprocess, sys
d = sys.argv[1] if len(sys.argv) > 1 else '/repo'
base = json.load(open('/root/.vp/BASELINE.json'))
stable = set(base['stable_pass'])
env = dict(os.environ, GOFLAGS='-mod=mod', GOPROXY='off', GOSUMDB='off', GOTOOLCHAIN='local')
p = subprocess.run(['go', 'test', '-json', '-vet=off', '-count=1', '-timeout', '25m', './...'],
                   cwd=d, env=env, capture_output=True, text=True)
res = {}
for line in p.stdout.splitlines():
    try:
        ev = json.loads(line)
    except Exception:
        continue
    if ev.get('Action') in ('pass', 'fail', 'skip') and ev.get('Test'):
        res[ev['Package'] + '::' + ev['Test']] = ev['Action']
bad = sorted(t for t in stable if res.get(t) != 'pass')
print('ran', len(res), 'tests;', 'stable', len(stable), '; stable-not-passing', len(bad))
for t in bad[:40]:
    print('  NOT-PASS', t, res.get(t))
extra_fail = sorted(t for t, a in res.items() if a == 'fail' and t not in stable)
for t in extra_fail[:20]:
    print('  (non-stable fail)', t)
if p.returncode != 0 and not res:
    print(p.stdout[-3000:], p.stderr[-3000:])
sys.exit(1 if bad else 0)
