#!/bin/bash
# ./run.sh <Cxx> <quick|thorough>  — static check of one property against /repo's current tree.
# Builds the checker from /verif/checker (vendored x/tools, offline) when the binary is missing or stale.
set -u
cd "$(dirname "$0")"
export GOFLAGS=-mod=vendor GOPROXY=off GOSUMDB=off GOTOOLCHAIN=local GOWORK=off
unset GOWORK_FILE 2>/dev/null || true
BIN=bin/funcheck
build() {
  mkdir -p bin
  (cd checker && go build -o ../bin/funcheck .) || { echo "ERROR building checker"; exit 2; }
}
if [ ! -x "$BIN" ] || [ -n "$(find checker -name '*.go' -not -path 'checker/vendor/*' -newer "$BIN" 2>/dev/null | head -1)" ]; then
  build
fi
PROP="${1:?property id}"
TIER="${2:-${VERIF_TIER:-quick}}"
REPO="${VERIF_REPO:-/repo}"
mkdir -p evidence
exec "$BIN" -prop "$PROP" -tier "$TIER" -repo "$REPO" -verif "$(pwd)"
