package main

// E5 — goroutines: accounting (G1, G2), once-guarded lazy start (P1), the
// pipe-close protocol (P2) and upstream close (P3).

import (
	"fmt"
	"go/ast"
	"go/types"
	"strings"
)

func isWGMethod(name, m string) bool {
	return name == "fun.(*WaitGroup)."+m || name == "sync.(*WaitGroup)."+m
}

// isWaitCall: wg.Wait(...) or wg.Operation().Wait()/Block()/Run(ctx).
func isWaitCall(info *types.Info, call *ast.CallExpr) (ast.Expr, bool) {
	name := callName(info, call)
	if isWGMethod(name, "Wait") {
		return recvExpr(call), true
	}
	if name == "fun.Operation.Wait" || name == "fun.Operation.Block" || name == "fun.Operation.Run" {
		if inner, ok := ast.Unparen(recvExpr(call)).(*ast.CallExpr); ok && isWGMethod(callName(info, inner), "Operation") {
			return recvExpr(inner), true
		}
	}
	return nil, false
}

// ruleG1: counted goroutines.
func ruleG1(c *Ctx, pkgs map[string]bool, floor int) {
	R := c.R
	p := c.P
	R.Rule("G1", "every goroutine that defers X.Done() is preceded, in its launcher and before the go statement, by X.Add(1) on the same group (and an Add(1) is followed by a goroutine that defers Done); a function that owns the group waits on it on every path from a launch to its exit", floor)
	for _, f := range p.Funcs {
		if !pkgs[shortPkg(f.Pkg.PkgPath)] {
			continue
		}
		if f.Root().Name == "srv.(*Service).Start" {
			continue // checked with its own phases in C10
		}
		info := f.Info()
		n := 0
		walkNoLit(f.Body, func(x ast.Node) bool {
			gs, ok := x.(*ast.GoStmt)
			if !ok {
				return true
			}
			lit, ok := ast.Unparen(gs.Call.Fun).(*ast.FuncLit)
			if !ok {
				// go f(…) where f is a local bound once to a function literal
				if id, isId := ast.Unparen(gs.Call.Fun).(*ast.Ident); isId {
					if v, isVar := info.Uses[id].(*types.Var); isVar {
						if rhs := singleDef(f, v); rhs != nil {
							lit, ok = ast.Unparen(rhs).(*ast.FuncLit)
						}
					}
				}
			}
			if !ok {
				// go x.method(…) / go f(…) with a function of the module: its body is the goroutine
				if g := p.FuncOf(calleeFunc(info, gs.Call)); g != nil && g.Decl != nil {
					calleeGroup, adds := "", false
					for _, st := range g.Body.List {
						if ds, isDefer := st.(*ast.DeferStmt); isDefer && isWGMethod(callName(g.Info(), ds.Call), "Done") {
							calleeGroup = exprStr(recvExpr(ds.Call))
						}
						if es, isExpr := st.(*ast.ExprStmt); isExpr {
							if call, isCall := es.X.(*ast.CallExpr); isCall && (isWGMethod(callName(g.Info(), call), "Add") || isWGMethod(callName(g.Info(), call), "Inc")) {
								adds = true
							}
						}
					}
					if calleeGroup != "" {
						n++
						at := fmt.Sprintf("%s/go#%d", f.Name, n)
						if adds {
							R.Fail("G1", at, p.Position(gs.Pos()), fmt.Sprintf("the goroutine body %s counts itself (%s.Add inside the goroutine, deferred Done): the launcher's Wait can see a zero counter before the goroutine has run its Add and return while sends are still pending", g.Name, calleeGroup))
						} else {
							// the launcher must Add before the go statement
							added := false
							if blk, isBlk := p.Parent(gs).(*ast.BlockStmt); isBlk {
								for _, st := range blk.List {
									if st.Pos() >= gs.Pos() {
										break
									}
									if es, isExpr := st.(*ast.ExprStmt); isExpr {
										if call, isCall := es.X.(*ast.CallExpr); isCall && (isWGMethod(callName(info, call), "Add") || isWGMethod(callName(info, call), "Inc")) {
											added = true
										}
									}
								}
							}
							R.Check(added, "G1", at, p.Position(gs.Pos()), "Add precedes go "+g.Name, fmt.Sprintf("go %s defers Done on %s but no Add precedes the go statement", g.Name, calleeGroup))
						}
					}
				}
				return true
			}
			// deferred Done at the top of the goroutine
			var group string
			for _, st := range lit.Body.List {
				if ds, ok := st.(*ast.DeferStmt); ok && isWGMethod(callName(info, ds.Call), "Done") {
					group = exprStr(recvExpr(ds.Call))
				}
			}
			// preceding Add in the same block
			addGroup := ""
			if blk, ok := p.Parent(gs).(*ast.BlockStmt); ok {
				for _, st := range blk.List {
					if st.Pos() >= gs.Pos() {
						break
					}
					if es, ok := st.(*ast.ExprStmt); ok {
						if call, ok := es.X.(*ast.CallExpr); ok && (isWGMethod(callName(info, call), "Add") || isWGMethod(callName(info, call), "Inc")) {
							addGroup = exprStr(recvExpr(call))
							continue
						}
					}
					if _, isGo := st.(*ast.GoStmt); isGo {
						addGroup = ""
					}
				}
			}
			if group == "" && addGroup == "" {
				return true // not a counted goroutine (context watcher etc.)
			}
			n++
			at := fmt.Sprintf("%s/go#%d", f.Name, n)
			pos := p.Position(gs.Pos())
			switch {
			case group == "":
				R.Fail("G1", at, pos, fmt.Sprintf("%s.Add(1) precedes this go statement but the goroutine does not `defer %s.Done()`: the group never drains and Wait blocks for ever", addGroup, addGroup))
			case addGroup == "":
				R.Fail("G1", at, pos, fmt.Sprintf("the goroutine defers %s.Done() but no %s.Add(1) precedes the go statement in the launcher: Wait can return (or the counter go negative) while the goroutine is still running", group, group))
			case addGroup != group:
				R.Fail("G1", at, pos, fmt.Sprintf("the launcher adds to %s but the goroutine is done on %s", addGroup, group))
			default:
				// owner waits: when the group is a local of this function chain, every path from the launch to the exit passes a wait
				ownerOK, why := ownerWaits(c, f, gs, group)
				R.Check(ownerOK, "G1", at, pos, "counted in "+group+why, fmt.Sprintf("the goroutine is counted in %s, which this function owns, but a path from the launch to the function's exit does not wait on it: the function returns while its goroutines are still running", group))
			}
			return true
		})
	}
	// Broker.Wait waits on the broker's group
	if pkgs["pubsub"] {
		if f := p.FuncNamed("pubsub.(*Broker).Wait"); f != nil {
			ok := false
			walkNoLit(f.Body, func(x ast.Node) bool {
				if call, isCall := x.(*ast.CallExpr); isCall {
					if r, isWait := isWaitCall(f.Info(), call); isWait && strings.HasSuffix(exprStr(r), ".wg") {
						ok = true
					}
				}
				return true
			})
			R.Check(ok, "G1", "pubsub.(*Broker).Wait/waits", p.Position(f.Pos()), "waits on b.wg", "Broker.Wait does not wait on the group that counts the event loop and the dispatch workers")
		}
	}
}

// ownerWaits: if group is a local variable (declared in f or an enclosing
// function of the same declaration), every path from gs to f's exit must wait.
func ownerWaits(c *Ctx, f *Func, gs *ast.GoStmt, group string) (bool, string) {
	info := f.Info()
	id, ok := func() (*ast.Ident, bool) {
		var found *ast.Ident
		ast.Inspect(gs, func(x ast.Node) bool {
			if i, ok := x.(*ast.Ident); ok && i.Name == group && found == nil {
				found = i
			}
			return true
		})
		return found, found != nil
	}()
	if !ok {
		return true, " (group is a field; its owner's Wait is checked separately)"
	}
	v, isVar := info.Uses[id].(*types.Var)
	if !isVar || v.IsField() {
		return true, ""
	}
	// is it declared inside f itself?
	declaredHere := false
	walkNoLit(f.Body, func(x ast.Node) bool {
		if d, ok := x.(*ast.Ident); ok && info.Defs[d] == v {
			declaredHere = true
		}
		return true
	})
	fl := newFlow(f)
	from, ok2 := fl.At(gs)
	if !ok2 {
		return true, ""
	}
	_, escapes := fl.pathToExitAvoiding(from, func(n ast.Node) bool {
		hit := false
		walkNoLit(n, func(y ast.Node) bool {
			if call, ok := y.(*ast.CallExpr); ok {
				if r, isWait := isWaitCall(info, call); isWait && exprStr(r) == group {
					hit = true
				}
			}
			return true
		})
		return hit
	})
	if !escapes {
		return true, "; waited on before the function returns"
	}
	if !declaredHere {
		// captured group shared with sibling closures (srv.Group): the function that declared it owns it
		return true, " (group captured from the enclosing constructor)"
	}
	return false, ""
}

// ruleG2: the combinators account before they start.
func ruleG2(c *Ctx) {
	R := c.R
	p := c.P
	R.Rule("G2", "WaitGroup.Launch increments before it starts the goroutine and attaches Done as the PostHook of the launched operation; DoTimes, Operation.Add/StartGroup reach a goroutine start only through Launch", 4)
	if f := p.FuncNamed("fun.(*WaitGroup).Launch"); f != nil {
		evs := linearise(f, nil)
		ok, why := checkOrder(evs, "call:fun.(*WaitGroup).Inc", "call:fun.Operation.Background")
		if !ok {
			ok, why = checkOrder(evs, "call:fun.(*WaitGroup).Add", "call:fun.Operation.Background")
		}
		hook := false
		walkNoLit(f.Body, func(x ast.Node) bool {
			if call, isCall := x.(*ast.CallExpr); isCall && callName(f.Info(), call) == "fun.Operation.PostHook" && len(call.Args) == 1 && strings.HasSuffix(exprStr(call.Args[0]), ".Done") {
				// the hooked operation is the one that is started
				if par, isSel := p.Parent(call).(*ast.SelectorExpr); isSel && par.Sel.Name == "Background" {
					hook = true
				}
			}
			return true
		})
		switch {
		case !ok:
			R.Fail("G2", "fun.(*WaitGroup).Launch", p.Position(f.Pos()), "Launch does not increment the counter before starting the goroutine ("+why+"): Wait can observe zero while work is being started")
		case !hook:
			R.Fail("G2", "fun.(*WaitGroup).Launch", p.Position(f.Pos()), "the launched operation does not carry wg.Done as its PostHook: the counter never comes back down (or comes down before the operation ran)")
		default:
			R.OK("G2", "fun.(*WaitGroup).Launch", p.Position(f.Pos()), "Inc < Background; Done is the PostHook of the started operation")
		}
	} else {
		R.Fail("G2", "fun.(*WaitGroup).Launch", "-", "not found")
	}
	via := map[string]string{
		"fun.(*WaitGroup).DoTimes":  "fun.(*WaitGroup).Launch",
		"fun.Operation.Add":         "fun.(*WaitGroup).Launch",
		"fun.Operation.StartGroup":  "fun.(*WaitGroup).DoTimes",
		"fun.Processor.Add":         "fun.Operation.Add",
	}
	for name, want := range via {
		f := p.FuncNamed(name)
		if f == nil {
			R.Fail("G2", name, "-", "not found")
			continue
		}
		calls, other := false, ""
		ast.Inspect(f.Body, func(x ast.Node) bool {
			switch t := x.(type) {
			case *ast.GoStmt:
				other = "a bare go statement"
			case *ast.CallExpr:
				n := callName(f.Info(), t)
				if n == want {
					calls = true
				}
				if n == "fun.Operation.Background" || n == "fun.Operation.Go" {
					other = n
				}
			}
			return true
		})
		R.Check(calls && other == "", "G2", name, p.Position(f.Pos()), "starts work only through "+want, name+" starts work through "+other+" instead of "+want+": the goroutine is not counted in the group")
	}
	// PostHook runs the hook after the operation, also on panic (defer)
	if f := p.FuncNamed("fun.Operation.PostHook"); f != nil && len(f.Lits) > 0 {
		evs := linearise(f.Lits[0], nil)
		robj := recvObject(f)
		hookIdx, opIdx := -1, -1
		for i, e := range evs {
			if call, ok := e.Node.(*ast.CallExpr); ok {
				if id, ok := ast.Unparen(call.Fun).(*ast.Ident); ok {
					if f.Info().Uses[id] == robj {
						opIdx = i
					} else if _, isParam := paramIndex(f, f.Info().Uses[id]); isParam {
						hookIdx = i
						if !e.Defer {
							hookIdx = -2
						}
					}
				}
			}
		}
		R.Check(opIdx >= 0 && hookIdx > opIdx, "G2", "fun.Operation.PostHook", p.Position(f.Pos()), "hook deferred, runs after the operation", "Operation.PostHook does not run its hook after the operation on every exit (it must be deferred): WaitGroup.Done / pipe.Close would run early or be skipped on panic")
	}
}

// chainMethods lists the method names of a fluent chain, innermost first, and
// returns the base expression.
func chainMethods(e ast.Expr) (base ast.Expr, methods []string, calls []*ast.CallExpr) {
	for {
		e = ast.Unparen(e)
		call, ok := e.(*ast.CallExpr)
		if !ok {
			return e, methods, calls
		}
		se, ok := ast.Unparen(call.Fun).(*ast.SelectorExpr)
		if !ok {
			return e, methods, calls
		}
		methods = append([]string{se.Sel.Name}, methods...)
		calls = append([]*ast.CallExpr{call}, calls...)
		e = se.X
	}
}

var launcherMethods = map[string]bool{"Go": true, "Background": true, "Launch": true, "StartGroup": true, "Add": true, "Signal": true}

// containsLauncher: the expression (a chain, possibly over a literal) starts a
// goroutine when run.
func containsLauncher(f *Func, e ast.Expr) (bool, string) {
	info := f.Info()
	found, what := false, ""
	ast.Inspect(e, func(x ast.Node) bool {
		switch t := x.(type) {
		case *ast.GoStmt:
			found, what = true, "go statement"
		case *ast.CallExpr:
			if se, ok := ast.Unparen(t.Fun).(*ast.SelectorExpr); ok && launcherMethods[se.Sel.Name] {
				if fn := calleeFunc(info, t); fn != nil && fn.Pkg() != nil && fn.Pkg().Path() == modulePath {
					found, what = true, "."+se.Sel.Name+"()"
				}
			}
		}
		return !found
	})
	return found, what
}

// ruleP1: lazily started background work is once-guarded and uses the hook's
// context.
func ruleP1(c *Ctx, pkgs map[string]bool, floor int) {
	R := c.R
	p := c.P
	R.Rule("P1", "an operation installed with PreHook that starts background work (Go/Background/Launch/Add/StartGroup/go) is wrapped in Once(): however many times (and from however many split outputs) the iterator is advanced, the reader/worker set is started exactly once", floor)
	R.Rule("P1c", "a PreHook operation that fills the pipe its own Producer reads does so in background work: run inline it would block the only consumer on a full (or unbuffered) pipe", 0)
	R.Rule("P1b", "the background work started by such a hook runs under the context handed to the hook (the iterator's cancellable context), never context.Background()/TODO()", floor)
	for _, f := range p.Funcs {
		if !pkgs[shortPkg(f.Pkg.PkgPath)] {
			continue
		}
		info := f.Info()
		n, nc := 0, 0
		walkNoLit(f.Body, func(x ast.Node) bool {
			call, ok := x.(*ast.CallExpr)
			if !ok || selName(call) != "PreHook" || len(call.Args) != 1 {
				return true
			}
			fn := calleeFunc(info, call)
			if fn == nil || fn.Pkg() == nil || fn.Pkg().Path() != modulePath {
				return true
			}
			hook := call.Args[0]
			if id, ok := ast.Unparen(hook).(*ast.Ident); ok {
				if v, ok := info.Uses[id].(*types.Var); ok {
					if rhs := singleDef(f, v); rhs != nil {
						hook = rhs
					}
				}
			}
			launches, what := containsLauncher(f, hook)
			// P1c: a hook that feeds the very pipe whose Producer it is hooked to must do so from another goroutine
			if rv := chainRootVar(info, call.Fun); rv != nil {
				feeds := false
				var scan func(e ast.Node, depth int)
				scan = func(e ast.Node, depth int) {
					ast.Inspect(e, func(y ast.Node) bool {
						id, ok := y.(*ast.Ident)
						if !ok {
							return true
						}
						if info.Uses[id] == types.Object(rv) {
							if sel, ok := p.Parent(id).(*ast.SelectorExpr); !ok || sel.Sel.Name != "Close" {
								feeds = true
							}
						} else if v, isVar := info.Uses[id].(*types.Var); isVar && !v.IsField() && depth < 3 {
							// a local bound once outside the hook (send := pipe.Send())
							if rhs := singleDef(f, v); rhs != nil && (rhs.Pos() < hook.Pos() || rhs.End() > hook.End()) {
								scan(rhs, depth+1)
							}
						}
						return true
					})
				}
				scan(hook, 0)
				if feeds {
					nc++
					R.Check(launches, "P1c", fmt.Sprintf("%s/prehook-feeds-%s#%d", f.Name, rv.Name(), nc), p.Position(call.Pos()), "the hook that fills "+rv.Name()+" does so in background work ("+what+")",
						"the PreHook operation fills "+rv.Name()+", the pipe this Producer reads, in the consumer's own goroutine (no Go/Background/Launch/go): once the pipe's buffer is full, or for an unbuffered pipe at the first item, the send blocks with nobody left to receive")
				}
			}
			if !launches {
				return true
			}
			n++
			at := fmt.Sprintf("%s/prehook#%d", f.Name, n)
			pos := p.Position(call.Pos())
			_, methods, _ := chainMethods(hook)
			hasOnce := false
			for _, m := range methods {
				if m == "Once" {
					hasOnce = true
				}
			}
			R.Check(hasOnce, "P1", at, pos, "hook starts background work ("+what+") and is Once-wrapped", fmt.Sprintf("the PreHook operation starts background work (%s) but is not wrapped in Once(): every advance of the iterator (and every split output) starts another reader/worker set, which steals items from, or closes the pipe under, the first one", what))
			// P1b: no context.Background()/TODO() inside the hook
			badCtx := ""
			ast.Inspect(hook, func(y ast.Node) bool {
				if cc, ok := y.(*ast.CallExpr); ok {
					switch callName(info, cc) {
					case "context.Background", "context.TODO":
						badCtx = exprStr(cc)
					}
				}
				return true
			})
			R.Check(badCtx == "", "P1b", at, pos, "no detached context inside the hook", "the hook uses "+badCtx+": the background work is not cancelled when the iterator is closed or its context ends, so its goroutines leak")
			return true
		})
	}
}

// ------------------------------------------------------------------- P2

type closeUse struct {
	Node ast.Node
	Ctx  string // A, A', A'', B, X, alias, bad
	Why  string
	WG   string
}

func ruleP2(c *Ctx, pkgs map[string]bool, floor int) {
	R := c.R
	p := c.P
	R.Rule("P2", "close-after-senders: a local pipe (ChanOp) that has a sending chain is closed only (A) by the PostHook of its single sender's own chain, (A') by `defer Close` in the sender goroutine, (A'') from an error filter/handler of the sender chain, (B) by the PostHook of wg.Operation() where every sending chain is started with Add/StartGroup on that same wg, or (X) under the option-error guard before anything starts; and it has at least one of A/A'/A''/B (otherwise the consumer never sees io.EOF)", floor)
	for _, f := range p.Funcs {
		if f.Parent != nil || !pkgs[shortPkg(f.Pkg.PkgPath)] {
			continue
		}
		info := f.Info()
		// local ChanOp variables
		pipes := map[types.Object]string{}
		ast.Inspect(f.Body, func(x ast.Node) bool {
			if id, ok := x.(*ast.Ident); ok {
				if v, ok := info.Defs[id].(*types.Var); ok && typeIs(v.Type(), "fun", "ChanOp") {
					if _, isParam := paramIndex(f, v); !isParam {
						pipes[v] = id.Name
					}
				}
			}
			return true
		})
		for v, name := range pipes {
			checkPipe(c, f, v, name)
		}
	}
}

func checkPipe(c *Ctx, f *Func, v types.Object, name string) {
	R := c.R
	p := c.P
	info := f.Info()
	mentions := func(n ast.Node, obj types.Object) bool { return usesObj(info, n, obj) }
	// aliases: send := v.Send() / v.Processor(); closepipe := ft.Once(v.Close)
	sendAlias := map[types.Object]bool{}
	closeAlias := map[types.Object]bool{}
	ast.Inspect(f.Body, func(x ast.Node) bool {
		as, ok := x.(*ast.AssignStmt)
		if !ok || len(as.Lhs) != 1 || len(as.Rhs) != 1 {
			return true
		}
		lid, ok := as.Lhs[0].(*ast.Ident)
		if !ok || !mentions(as.Rhs[0], v) {
			return true
		}
		obj := info.Defs[lid]
		if obj == nil {
			return true
		}
		s := exprStr(as.Rhs[0])
		switch {
		case s == name+".Close" || s == "ft.Once("+name+".Close)":
			closeAlias[obj] = true
		case strings.HasSuffix(s, name+".Send()") || strings.HasSuffix(s, name+".Processor()"):
			sendAlias[obj] = true
		}
		return true
	})
	isSendUse := func(id *ast.Ident) bool {
		obj := info.Uses[id]
		if sendAlias[obj] {
			return true
		}
		if obj != v {
			return false
		}
		if se, ok := p.Parent(id).(*ast.SelectorExpr); ok && se.X == ast.Expr(id) {
			switch se.Sel.Name {
			case "Send", "Processor", "Pipe":
				return true
			}
		}
		return false
	}
	isCloseUse := func(id *ast.Ident) bool {
		obj := info.Uses[id]
		if closeAlias[obj] {
			return true
		}
		if obj != v {
			return false
		}
		if se, ok := p.Parent(id).(*ast.SelectorExpr); ok && se.X == ast.Expr(id) && se.Sel.Name == "Close" {
			return true
		}
		return false
	}
	// outermost expression containing a use
	outermost := func(n ast.Node) (ast.Expr, ast.Node) {
		var expr ast.Expr
		cur := n
		for {
			par := p.Parent(cur)
			switch t := par.(type) {
			case ast.Expr:
				if _, isLit := t.(*ast.FuncLit); isLit {
					return expr, par
				}
				expr = t
				cur = par
				continue
			}
			if e, ok := cur.(ast.Expr); ok && expr == nil {
				expr = e
			}
			return expr, par
		}
	}
	type senderChain struct {
		expr ast.Expr
		last string
		wg   string
		ctx  string
	}
	var senders []senderChain
	seenExpr := map[ast.Expr]bool{}
	var closes []closeUse
	ast.Inspect(f.Body, func(x ast.Node) bool {
		id, ok := x.(*ast.Ident)
		if !ok {
			return true
		}
		if isSendUse(id) {
			expr, stmt := outermost(id)
			if as, isAs := stmt.(*ast.AssignStmt); isAs && len(as.Lhs) == 1 {
				if lid, isId := as.Lhs[0].(*ast.Ident); isId && sendAlias[info.Defs[lid]] {
					return true // alias definition
				}
			}
			if expr != nil && !seenExpr[expr] {
				seenExpr[expr] = true
				sc := senderChain{expr: expr}
				if call, isCall := ast.Unparen(expr).(*ast.CallExpr); isCall {
					sc.last = selName(call)
					if sc.last == "Add" && len(call.Args) == 2 {
						sc.wg, sc.ctx = exprStr(call.Args[1]), exprStr(call.Args[0])
					}
					if sc.last == "StartGroup" && len(call.Args) == 3 {
						sc.wg, sc.ctx = exprStr(call.Args[1]), exprStr(call.Args[0])
					}
				}
				senders = append(senders, sc)
			}
		}
		if isCloseUse(id) {
			closes = append(closes, classifyClose(c, f, v, name, id, sendAlias))
		}
		return true
	})
	if len(senders) == 0 {
		return // not a pipe this function feeds
	}
	at := fmt.Sprintf("%s/pipe:%s", f.Name, name)
	pos := p.Position(v.Pos())
	good := 0
	var kinds []string
	for _, cu := range closes {
		kinds = append(kinds, cu.Ctx)
		switch cu.Ctx {
		case "bad":
			R.Fail("P2", at, p.Position(cu.Node.Pos()), fmt.Sprintf("%s is closed %s: the close can run while a sender is still sending (items are lost, or a send panics on the closed channel and is turned into io.EOF)", name, cu.Why))
			return
		case "A":
			good++
			// exactly one sending chain may exist, the one that carries the hook
			if len(senders) > 1 {
				R.Fail("P2", at, p.Position(cu.Node.Pos()), fmt.Sprintf("%s is closed by the PostHook of one sender chain but %d chains send on it: the others can still be sending when it is closed", name, len(senders)))
				return
			}
		case "B":
			good++
			// P2c: the waiter-then-closer must run under the hook's own context, not
			// under the workers' cancellable one (WaitGroup.Wait returns as soon as its
			// context ends, so the pipe would be closed with workers still in flight)
			if cctx, ok := closerContext(c, f, cu.Node); ok {
				for _, s := range senders {
					if s.ctx != "" && s.ctx == cctx {
						R.Fail("P2", at, p.Position(cu.Node.Pos()), fmt.Sprintf("the operation that waits for %s and then closes %s is started with %s, the same cancellable context the workers run under: when the group is aborted (that context is cancelled) WaitGroup.Wait returns at once and the pipe is closed — and exhaustion reported, errors resolved — while workers are still processing their in-flight items", cu.WG, name, cctx))
						return
					}
				}
			}
			for _, s := range senders {
				if (s.last != "Add" && s.last != "StartGroup") || s.wg != cu.WG {
					R.Fail("P2", at, p.Position(s.expr.Pos()), fmt.Sprintf("%s is closed when wait group %s drains, but the sending chain `%s` is not started with Add/StartGroup on %s (it ends in .%s on %q): the channel can be closed while that sender is still running, or never", name, cu.WG, trunc(exprStr(s.expr), 80), cu.WG, s.last, s.wg))
					return
				}
			}
		case "A'", "A''":
			good++
		}
	}
	if good == 0 {
		if why, ok := p2NoClose[f.Name]; ok {
			R.Exception("P2", f.Name+": "+why)
			R.OK("P2", at, pos, "tabled: "+why)
			return
		}
		R.Fail("P2", at, pos, fmt.Sprintf("%s has %d sending chain(s) but no close after the senders finish (close contexts found: %v): the consumer never observes io.EOF and blocks for ever on a finite input", name, len(senders), kinds))
		return
	}
	R.OK("P2", at, pos, fmt.Sprintf("%d sending chain(s); close contexts %v", len(senders), kinds))
}

func trunc(s string, n int) string {
	if len(s) > n {
		return s[:n] + "…"
	}
	return s
}

func classifyClose(c *Ctx, f *Func, v types.Object, name string, id *ast.Ident, sendAlias map[types.Object]bool) closeUse {
	p := c.P
	info := f.Info()
	// the reference expression: v.Close or the alias identifier
	var ref ast.Node = id
	if se, ok := p.Parent(id).(*ast.SelectorExpr); ok && se.X == ast.Expr(id) {
		ref = se
	}
	par := p.Parent(ref)
	mentionsSender := func(n ast.Node) bool {
		found := false
		ast.Inspect(n, func(x ast.Node) bool {
			if i, ok := x.(*ast.Ident); ok {
				obj := info.Uses[i]
				if sendAlias[obj] {
					found = true
				}
				if obj == v {
					if se, ok := p.Parent(i).(*ast.SelectorExpr); ok && se.X == ast.Expr(i) && (se.Sel.Name == "Send" || se.Sel.Name == "Processor" || se.Sel.Name == "Pipe") {
						found = true
					}
				}
			}
			return !found
		})
		return found
	}
	wgOfChain := func(e ast.Expr) string {
		wg := ""
		ast.Inspect(e, func(x ast.Node) bool {
			if call, ok := x.(*ast.CallExpr); ok && isWGMethod(callName(info, call), "Operation") {
				wg = exprStr(recvExpr(call))
			}
			return true
		})
		return wg
	}
	// direct call v.Close()
	if call, ok := par.(*ast.CallExpr); ok && ast.Unparen(call.Fun) == ref {
		switch gp := p.Parent(call).(type) {
		case *ast.DeferStmt:
			// defer v.Close() inside the sender goroutine literal
			if lf := p.EnclosingFunc(gp); lf != nil && lf.Lit != nil && mentionsSender(lf.Lit.Body) {
				return closeUse{Node: ref, Ctx: "A'", Why: "deferred in the sender goroutine"}
			}
			return closeUse{Node: ref, Ctx: "bad", Why: "by a defer in a function that is not its sender"}
		case *ast.ExprStmt:
			// statement inside a literal handed to PostHook on wg.Operation(): func(){ cancel(); pipe.Close() }
			if lf := p.EnclosingFunc(gp); lf != nil && lf.Lit != nil {
				if hc, ok := p.Parent(lf.Lit).(*ast.CallExpr); ok && selName(hc) == "PostHook" {
					if wg := wgOfChain(recvExpr(hc)); wg != "" {
						return closeUse{Node: ref, Ctx: "B", WG: wg}
					}
					if mentionsSender(recvExpr(hc)) {
						return closeUse{Node: ref, Ctx: "A"}
					}
				}
			}
			return closeUse{Node: ref, Ctx: "bad", Why: "by a direct call"}
		}
		return closeUse{Node: ref, Ctx: "bad", Why: "by a direct call"}
	}
	// method value handed to something
	if call, ok := par.(*ast.CallExpr); ok {
		switch {
		case selName(call) == "PostHook":
			chain := recvExpr(call)
			if wg := wgOfChain(chain); wg != "" {
				return closeUse{Node: ref, Ctx: "B", WG: wg}
			}
			if mentionsSender(chain) {
				return closeUse{Node: ref, Ctx: "A"}
			}
			return closeUse{Node: ref, Ctx: "bad", Why: "as the PostHook of `" + trunc(exprStr(chain), 60) + "`, which is neither its sender nor the senders' wait group"}
		case callName(info, call) == "ft.Once":
			return closeUse{Node: ref, Ctx: "alias"}
		case callName(info, call) == "ft.WhenCall" && len(call.Args) == 2:
			cond := normGuard(exprStr(call.Args[0]))
			// inside an error filter / handler literal of the sender chain
			if lf := p.EnclosingFunc(call); lf != nil && lf.Lit != nil {
				if hc, ok := p.Parent(lf.Lit).(*ast.CallExpr); ok && (selName(hc) == "WithErrorFilter" || selName(hc) == "PreHook") {
					return closeUse{Node: ref, Ctx: "A''", Why: "from the sender chain's error filter/handler"}
				}
			}
			if strings.HasSuffix(cond, "!=nil") {
				return closeUse{Node: ref, Ctx: "X", Why: "under the option-error guard"}
			}
		}
	}
	return closeUse{Node: ref, Ctx: "bad", Why: fmt.Sprintf("in an unrecognised context (%T)", par)}
}

// ruleP3: derived iterators close their upstream.
func ruleP3(c *Ctx) {
	R := c.R
	p := c.P
	R.Rule("P3", "an iterator built over another iterator closes the upstream when it is closed: its IteratorWithHook hook calls <upstream>.Close(); the hook installed by IteratorWithHook runs the hook and then the original cancel", 6)
	for _, name := range []string{"fun.(*Iterator).Buffer", "fun.(*Iterator).ParallelBuffer", "fun.Transform.ProcessParallel", "itertool.Uniq", "itertool.DropZeroValues"} {
		f := p.FuncNamed(name)
		if f == nil {
			R.Fail("P3", name, "-", "not found")
			continue
		}
		ok := false
		ast.Inspect(f.Body, func(x ast.Node) bool {
			call, isCall := x.(*ast.CallExpr)
			if !isCall || selName(call) != "IteratorWithHook" || len(call.Args) != 1 {
				return true
			}
			lit, isLit := ast.Unparen(call.Args[0]).(*ast.FuncLit)
			if !isLit {
				return true
			}
			ast.Inspect(lit.Body, func(y ast.Node) bool {
				if cc, isCall := y.(*ast.CallExpr); isCall && callName(f.Info(), cc) == "fun.(*Iterator).Close" {
					// the receiver is the upstream (a parameter/receiver of f), not the hook's own argument
					if rid, isId := ast.Unparen(recvExpr(cc)).(*ast.Ident); isId {
						if _, isParam := paramIndex(f, f.Info().Uses[rid]); isParam {
							ok = true
						}
					}
				}
				return true
			})
			return true
		})
		R.Check(ok, "P3", name, p.Position(f.Pos()), "the close hook closes the upstream iterator", name+" does not close its upstream iterator when the derived iterator is closed: the upstream's goroutines and resources leak")
	}
	if f := p.FuncNamed("fun.Producer.IteratorWithHook"); f != nil {
		ok := false
		ast.Inspect(f.Body, func(x ast.Node) bool {
			lit, isLit := x.(*ast.FuncLit)
			if !isLit {
				return true
			}
			evs := linearise(p.byLit[lit], nil)
			hi, ci := -1, -1
			for i, e := range evs {
				if call, isCall := e.Node.(*ast.CallExpr); isCall {
					if id, isId := ast.Unparen(call.Fun).(*ast.Ident); isId {
						if _, isParam := paramIndex(f, f.Info().Uses[id]); isParam {
							hi = i
						} else if id.Name == "closer" {
							ci = i
						}
					}
				}
			}
			if hi >= 0 && ci > hi {
				ok = true
			}
			return true
		})
		R.Check(ok, "P3", "fun.Producer.IteratorWithHook", p.Position(f.Pos()), "hook, then the original cancel", "IteratorWithHook's close function must run the hook and then the iterator's own cancel function")
	}
}

// closerContext finds the context argument with which the chain that carries
// the close (…PostHook(pipe.Close).Background(X)) is started.
func closerContext(c *Ctx, f *Func, ref ast.Node) (string, bool) {
	p := c.P
	// climb to the outermost call of the chain
	var outer *ast.CallExpr
	for x := p.Parent(ref); x != nil; x = p.Parent(x) {
		switch t := x.(type) {
		case *ast.CallExpr:
			outer = t
			continue
		case *ast.SelectorExpr, *ast.ParenExpr, *ast.FuncLit, *ast.BlockStmt, *ast.ExprStmt:
			if _, isStmt := t.(*ast.ExprStmt); isStmt {
				goto done
			}
			if _, isBlk := t.(*ast.BlockStmt); isBlk {
				// the close sits inside a literal handed to PostHook: keep climbing from the literal
				continue
			}
			continue
		}
		break
	}
done:
	if outer == nil || len(outer.Args) == 0 {
		return "", false
	}
	switch selName(outer) {
	case "Background", "Run", "Launch", "Signal", "Add":
		return exprStr(outer.Args[0]), true
	}
	return "", false
}

// chainRootVar returns the local variable at the root of a method chain
// `v.A().B().C` (nil when the root is not a plain local).
func chainRootVar(info *types.Info, e ast.Expr) *types.Var {
	for {
		switch x := ast.Unparen(e).(type) {
		case *ast.SelectorExpr:
			e = x.X
		case *ast.CallExpr:
			e = x.Fun
		case *ast.Ident:
			v, _ := info.Uses[x].(*types.Var)
			if v == nil || v.IsField() {
				return nil
			}
			return v
		default:
			return nil
		}
	}
}
