package main

// E3 — constructs that do nothing although their author believed they did.

import (
	"fmt"
	"go/ast"
	"go/token"
	"go/types"
	"strings"
)

// launching computes the module functions that (transitively) start a
// goroutine or perform another effect worth calling for: discarding their
// result is legitimate.
func launchingFuncs(p *Prog) map[*Func]bool {
	out := map[*Func]bool{}
	for changed := true; changed; {
		changed = false
		for _, f := range p.Funcs {
			if f.Decl == nil || out[f] {
				continue
			}
			info := f.Info()
			hit := false
			var scan func(body ast.Node)
			scan = func(body ast.Node) {
				ast.Inspect(body, func(x ast.Node) bool {
					if hit {
						return false
					}
					switch t := x.(type) {
					case *ast.FuncLit:
						// only literals invoked on the spot run as part of f
						if call, ok := p.Parent(t).(*ast.CallExpr); ok && ast.Unparen(call.Fun) == ast.Expr(t) {
							return true
						}
						if _, ok := p.Parent(t).(*ast.GoStmt); ok {
							return true
						}
						return false
					case *ast.GoStmt:
						hit = true
					case *ast.SendStmt:
						hit = true
					case *ast.CallExpr:
						if g := p.FuncOf(calleeFunc(info, t)); g != nil && out[g] {
							hit = true
						}
						// method values of launching functions handed on (wf.Go() returns wf.Background)
					}
					return true
				})
			}
			scan(f.Body)
			if hit {
				out[f] = true
				changed = true
			}
		}
	}
	return out
}

func isFunFuncType(t types.Type) bool {
	n := namedOf(t)
	if n == nil || n.Obj().Pkg() == nil || n.Obj().Pkg().Path() != modulePath {
		return false
	}
	_, ok := n.Underlying().(*types.Signature)
	return ok
}

// ruleN1: a call whose result is one of the fun function types (Operation,
// Worker, Producer, Processor, Handler, Future, Transform, ...) is used as a
// statement although the callee only *builds* the function: the wrapper,
// waiter or combinator is silently dropped.
func ruleN1(c *Ctx, pkgs map[string]bool, floor int) {
	p := c.P
	R := c.R
	R.Rule("N1", "the result of a pure combinator (a call returning one of the fun function types whose callee starts nothing) is never discarded: the wrapper it built would not exist", floor)
	launching := launchingFuncs(p)
	n := 0
	for _, f := range p.Funcs {
		if pkgs != nil && !pkgs[shortPkg(f.Pkg.PkgPath)] {
			continue
		}
		info := f.Info()
		walkNoLit(f.Body, func(x ast.Node) bool {
			es, ok := x.(*ast.ExprStmt)
			if !ok {
				return true
			}
			call, ok := es.X.(*ast.CallExpr)
			if !ok {
				return true
			}
			tv := info.Types[call]
			if tv.Type == nil || !isFunFuncType(tv.Type) {
				return true
			}
			n++
			fn := calleeFunc(info, call)
			at := fmt.Sprintf("%s/discard:%s", f.Name, exprStr(call.Fun))
			pos := p.Position(call.Pos())
			g := p.FuncOf(fn)
			switch {
			case g != nil && launching[g]:
				R.OK("N1", at, pos, "discarded, but "+g.Name+" starts the work itself (goroutine/send); the returned waiter is optional")
			default:
				R.Fail("N1", at, pos, fmt.Sprintf("the %s returned by %s is discarded and the callee has no effect of its own: the wrapper/waiter never takes effect", typeName(tv.Type), exprStr(call.Fun)))
			}
			return true
		})
	}
	if n == 0 {
		R.OK("N1", "none", "-", "no statement discards a function-typed result in the selected packages")
	}
}

// ruleN2: every field of the option structs is read by the code the options
// configure (not only by its own setter / Validate).
func ruleN2(c *Ctx, structs []FieldID, floor int) {
	p := c.P
	R := c.R
	R.Rule("N2", "every field of the configuration structs is read outside its own option-setter and Validate: an option that is only ever written configures nothing", floor)
	want := map[FieldID]bool{}
	for fv, id := range p.fields {
		_ = fv
		for _, s := range structs {
			if id.Pkg == s.Pkg && id.Type == s.Type && !strings.Contains(id.Name, ".") {
				want[id] = true
			}
		}
	}
	reads := map[FieldID][]string{}
	for _, f := range p.Funcs {
		root := f.Root()
		if root.Decl != nil && root.Decl.Name.Name == "Validate" {
			continue
		}
		// option setters: functions returning an OptionProvider
		if root.Decl != nil && root.Decl.Type.Results != nil && len(root.Decl.Type.Results.List) == 1 {
			if tv, ok := root.Info().Types[root.Decl.Type.Results.List[0].Type]; ok && typeIs(tv.Type, "fun", "OptionProvider") {
				continue
			}
		}
		info := f.Info()
		la := &LockAnalysis{p: p}
		walkNoLit(f.Body, func(x ast.Node) bool {
			se, ok := x.(*ast.SelectorExpr)
			if !ok {
				return true
			}
			s := info.Selections[se]
			if s == nil || s.Kind() != types.FieldVal {
				return true
			}
			id, ok := p.Field(s.Obj().(*types.Var))
			if !ok || !want[id] || la.isWrite(se) {
				return true
			}
			reads[id] = append(reads[id], f.Name)
			return true
		})
	}
	for id := range want {
		at := id.String()
		if len(reads[id]) > 0 {
			R.OK("N2", at, "-", fmt.Sprintf("read in %d place(s), e.g. %s", len(reads[id]), reads[id][0]))
		} else {
			R.Fail("N2", at, "-", fmt.Sprintf("option field %s is never read outside its setter/Validate: setting it has no effect", id))
		}
	}
}

// ruleN3: an assignment a.f = b.f executed under the condition a == b cannot
// change anything: the intended relink/update does not happen.
func ruleN3(c *Ctx, pkgs map[string]bool) {
	p := c.P
	R := c.R
	R.Rule("N3", "no store a.f = b.f is executed where a == b is known (same variable, or under `if a == b`): such a store is a no-op in place of the intended update", 0)
	n := 0
	for _, f := range p.Funcs {
		if !pkgs[shortPkg(f.Pkg.PkgPath)] {
			continue
		}
		info := f.Info()
		walkNoLit(f.Body, func(x ast.Node) bool {
			as, ok := x.(*ast.AssignStmt)
			if !ok || as.Tok != token.ASSIGN || len(as.Lhs) != 1 || len(as.Rhs) != 1 {
				return true
			}
			l, ok1 := ast.Unparen(as.Lhs[0]).(*ast.SelectorExpr)
			r, ok2 := ast.Unparen(as.Rhs[0]).(*ast.SelectorExpr)
			if !ok1 || !ok2 {
				return true
			}
			ls, rs := info.Selections[l], info.Selections[r]
			if ls == nil || rs == nil || ls.Obj() != rs.Obj() || ls.Kind() != types.FieldVal {
				return true
			}
			lid, ok1 := ast.Unparen(l.X).(*ast.Ident)
			rid, ok2 := ast.Unparen(r.X).(*ast.Ident)
			if !ok1 || !ok2 {
				return true
			}
			lo, ro := info.Uses[lid], info.Uses[rid]
			same := lo == ro
			if !same {
				// under `if a == b`
				var child ast.Node = as
				for par := p.Parent(as); par != nil; child, par = par, p.Parent(par) {
					if ifs, ok := par.(*ast.IfStmt); ok && ifs.Body == child {
						if be, ok := ast.Unparen(ifs.Cond).(*ast.BinaryExpr); ok && be.Op == token.EQL {
							a, okA := ast.Unparen(be.X).(*ast.Ident)
							b, okB := ast.Unparen(be.Y).(*ast.Ident)
							if okA && okB {
								ao, bo := info.Uses[a], info.Uses[b]
								if (ao == lo && bo == ro) || (ao == ro && bo == lo) {
									same = true
								}
							}
						}
					}
					if _, ok := par.(*ast.FuncLit); ok {
						break
					}
				}
			}
			if same {
				n++
				R.Fail("N3", fmt.Sprintf("%s/%s=%s", f.Name, exprStr(l), exprStr(r)), p.Position(as.Pos()),
					fmt.Sprintf("`%s = %s` runs where %s == %s: the store changes nothing, so the element that was meant to be unlinked/updated stays as it was", exprStr(l), exprStr(r), lid.Name, rid.Name))
			}
			return true
		})
	}
	if n == 0 {
		R.OK("N3", "none", "-", "no self-store under a known equality")
	}
}
