package main

// E9 — sibling and table agreement, and classification tables of the
// iterator loops (built on the abstract interpreter of classify.go).

import (
	"fmt"
	"go/ast"
	"go/token"
	"go/types"
	"sort"
	"strings"
)

// errSwitch is a tagless switch inside a loop that classifies an error.
type errSwitch struct {
	F      *Func
	Switch *ast.SwitchStmt
	Loop   ast.Stmt
	ErrObj types.Object
}

// errSwitches finds the classification switches of loops in the given packages.
func errSwitches(p *Prog, pkgs ...string) []errSwitch {
	var out []errSwitch
	for _, f := range p.FuncsIn(pkgs...) {
		info := f.Info()
		walkNoLit(f.Body, func(x ast.Node) bool {
			sw, ok := x.(*ast.SwitchStmt)
			if !ok || sw.Tag != nil || sw.Init != nil {
				return true
			}
			loop := f.enclosingLoop(sw)
			if loop == nil {
				return true
			}
			// the error variable: first ident of type error used in a case expression
			var errObj types.Object
			for _, cl := range sw.Body.List {
				for _, e := range cl.(*ast.CaseClause).List {
					ast.Inspect(e, func(y ast.Node) bool {
						if id, ok := y.(*ast.Ident); ok && errObj == nil {
							if v, ok := info.Uses[id].(*types.Var); ok && types.Identical(v.Type(), types.Universe.Lookup("error").Type()) {
								errObj = v
							}
						}
						return true
					})
				}
			}
			if errObj != nil {
				out = append(out, errSwitch{F: f, Switch: sw, Loop: loop, ErrObj: errObj})
			}
			return true
		})
	}
	return out
}

// errSources: the calls whose result is assigned to the error variable inside
// the loop.
func (es errSwitch) errSources() []string {
	info := es.F.Info()
	var out []string
	walkNoLit(es.Loop, func(x ast.Node) bool {
		as, ok := x.(*ast.AssignStmt)
		if !ok {
			return true
		}
		for i, l := range as.Lhs {
			id, ok := l.(*ast.Ident)
			if !ok {
				continue
			}
			obj := info.Defs[id]
			if obj == nil {
				obj = info.Uses[id]
			}
			if obj != es.ErrObj {
				continue
			}
			var rhs ast.Expr
			if len(as.Rhs) == len(as.Lhs) {
				rhs = as.Rhs[i]
			} else if len(as.Rhs) == 1 {
				rhs = as.Rhs[0]
			}
			if call, ok := ast.Unparen(rhs).(*ast.CallExpr); ok {
				if n := callName(info, call); n != "" {
					out = append(out, n)
				} else {
					out = append(out, "value:"+exprStr(call.Fun))
				}
			}
		}
		return true
	})
	sort.Strings(out)
	return out
}

var skipAtoms = []string{"nil", "panic", "skip", "eof", "abort", "ctx"}

func skipConsistent(a map[string]bool) bool {
	return !(a["nil"] && (a["panic"] || a["skip"] || a["eof"] || a["abort"] || a["ctx"]))
}

// anyEffect accepts every call as an opaque effect named after its callee.
func anyEffect(it *interp, call *ast.CallExpr) (string, bool) {
	if n := callName(it.f.Info(), call); n != "" {
		return "call:" + n, true
	}
	return "call:" + exprStr(call.Fun), true
}

// ruleX1: every loop that classifies the error of a user-supplied function
// continues on ErrIteratorSkip.
func ruleX1(c *Ctx, floor int) {
	R := c.R
	p := c.P
	R.Rule("X1", "in every loop of fun/itertool that classifies the error of a user-supplied function (producer, processor, transform, reducer), the row 'errors.Is(err, ErrIteratorSkip) and nothing else' of the loop's decision table is `continue`: a skipped element is dropped and iteration goes on; a nil error never ends the loop with an error", floor)
	for _, es := range errSwitches(p, "fun", "itertool") {
		src := es.errSources()
		at := es.F.Name + "/classify"
		pos := p.Position(es.Switch.Pos())
		onlyReadOne := len(src) > 0
		for _, s := range src {
			if s != "fun.(*Iterator).ReadOne" {
				onlyReadOne = false
			}
		}
		if onlyReadOne {
			R.Exception("X1", es.F.Name+": the classified error only comes from Iterator.ReadOne, which absorbs skips itself (T1)")
			continue
		}
		rows, unknown, _ := enumerate(es.F, []ast.Stmt{es.Switch}, map[types.Object]bool{es.ErrObj: true}, skipAtoms, skipConsistent, anyEffect)
		if len(unknown) > 0 {
			R.Undecided("X1", at, pos, "classification code not understood: "+unknown[0])
			continue
		}
		bad := ""
		for _, r := range rows {
			a := r.Atoms
			if a["skip"] && !a["panic"] && !a["eof"] && !a["abort"] && !a["ctx"] {
				if r.Outcome.Kind != oContinue {
					bad = fmt.Sprintf("on ErrIteratorSkip the loop does %s instead of continuing", outcomeStr(es.F, es.ErrObj, r))
				}
			}
			if a["nil"] && r.Outcome.Kind == oReturn {
				for _, res := range r.Outcome.Results {
					if k := resultKind(es.F, map[types.Object]bool{es.ErrObj: true}, res, a, nil); k == "eof" || k == "skip" {
						bad = "a nil error ends the loop with " + k
					}
				}
			}
		}
		R.Check(bad == "", "X1", at, pos, fmt.Sprintf("skip → continue (error from %s)", strings.Join(src, ",")), es.F.Name+": "+bad+": an element whose function returned ErrIteratorSkip terminates or corrupts the iteration instead of just being dropped")
	}
}

func outcomeStr(f *Func, errObj types.Object, r row) string {
	switch r.Outcome.Kind {
	case oContinue:
		return "continue"
	case oBreak:
		return "break"
	case oFall:
		return "fall through"
	case oReturn:
		var s []string
		for _, e := range r.Outcome.Results {
			s = append(s, resultKind(f, map[types.Object]bool{errObj: true}, e, r.Atoms, nil))
		}
		return "return " + strings.Join(s, ",")
	}
	return "?"
}

// ruleT1: Iterator.ReadOne's decision table and its terminal-state handling.
func ruleT1(c *Ctx) {
	R := c.R
	p := c.P
	R.Rule("T1", "Iterator.ReadOne: nil → the value; skip → retry; terminating errors (io.EOF, abort, context) → returned as they are; any other error → recorded through AddError and io.EOF returned; every error return closes the iterator (deferred doClose under err != nil) and a closed iterator returns io.EOF before touching its producer; Next tests the closed flag too", 6)
	f := p.FuncNamed("fun.(*Iterator).ReadOne")
	if f == nil {
		R.Fail("T1", "anchor", "-", "fun.(*Iterator).ReadOne not found")
		return
	}
	info := f.Info()
	pos := p.Position(f.Pos())
	var sw *ast.SwitchStmt
	var errObj types.Object
	for _, es := range errSwitches(p, "fun") {
		if es.F == f {
			sw, errObj = es.Switch, es.ErrObj
		}
	}
	if sw == nil {
		R.Undecided("T1", "fun.(*Iterator).ReadOne/table", pos, "no classification switch found in ReadOne")
		return
	}
	effect := func(it *interp, call *ast.CallExpr) (string, bool) {
		if callName(it.f.Info(), call) == "fun.(*Iterator).AddError" {
			return "record", true
		}
		return anyEffect(it, call)
	}
	rows, unknown, _ := enumerate(f, []ast.Stmt{sw}, map[types.Object]bool{errObj: true}, skipAtoms, skipConsistent, effect)
	if len(unknown) > 0 {
		R.Undecided("T1", "fun.(*Iterator).ReadOne/table", pos, unknown[0])
		return
	}
	classes := map[string]string{}
	for _, r := range rows {
		a := r.Atoms
		var cls, want string
		got := outcomeStr(f, errObj, r)
		rec := false
		for _, e := range r.Effects {
			if e == "record" {
				rec = true
			}
		}
		if rec {
			got += "+record"
		}
		switch {
		case a["nil"]:
			cls, want = "nil", "return expr:out,nil"
		case a["skip"] && !a["panic"]:
			cls, want = "skip", "continue"
		case a["eof"] || a["abort"] || a["ctx"]:
			if a["skip"] {
				continue
			}
			cls, want = "terminating", "return expr:out,err"
		default:
			if a["skip"] {
				continue
			}
			cls, want = "other", "return expr:out,eof+record"
		}
		if got != want {
			classes[cls] = fmt.Sprintf("row %s: got `%s`, want `%s`", r.String(), got, want)
		} else if _, bad := classes[cls]; !bad {
			classes[cls] = ""
		}
	}
	for _, cls := range []string{"nil", "skip", "terminating", "other"} {
		msg, seen := classes[cls]
		R.Check(seen && msg == "", "T1", "fun.(*Iterator).ReadOne/row:"+cls, p.Position(sw.Pos()), "as specified", "ReadOne classification for "+cls+" errors: "+msg)
	}
	// deferred close on error
	closes := false
	walkNoLit(f.Body, func(x ast.Node) bool {
		ds, ok := x.(*ast.DeferStmt)
		if !ok {
			return true
		}
		ast.Inspect(ds, func(y ast.Node) bool {
			if call, ok := y.(*ast.CallExpr); ok && callName(info, call) == "ft.WhenCall" && len(call.Args) == 2 {
				if errNilCmp(info, call.Args[0], token.NEQ) && strings.HasSuffix(exprStr(call.Args[1]), "doClose") {
					closes = true
				}
			}
			if ifs, ok := y.(*ast.IfStmt); ok && errNilCmp(info, ifs.Cond, token.NEQ) && strings.Contains(exprStr0(ifs.Body), "doClose") {
				closes = true
			}
			return true
		})
		return true
	})
	R.Check(closes, "T1", "fun.(*Iterator).ReadOne/close-on-error", pos, "deferred doClose under err != nil", "ReadOne does not close the iterator when it returns an error: after an error the iterator can yield further elements")
	// entry test of the closed flag dominates the first producer call
	fl := newFlow(f)
	var first ast.Node
	walkNoLit(f.Body, func(x ast.Node) bool {
		if call, ok := x.(*ast.CallExpr); ok && first == nil {
			if se, ok := ast.Unparen(call.Fun).(*ast.SelectorExpr); ok && se.Sel.Name == "operation" {
				first = call
			}
		}
		return true
	})
	entry := false
	walkNoLit(f.Body, func(x ast.Node) bool {
		if ifs, ok := x.(*ast.IfStmt); ok && strings.Contains(exprStr(ifs.Cond), "closer.state.Load()") && containsReturn(ifs.Body) && first != nil && fl.Dominates(ifs.Cond, first) {
			entry = true
		}
		return true
	})
	R.Check(entry, "T1", "fun.(*Iterator).ReadOne/closed-first", pos, "the closed flag is tested (→ io.EOF) before the producer is called", "ReadOne no longer returns io.EOF for a closed iterator before calling the producer: a terminated iterator yields again")
	if nx := p.FuncNamed("fun.(*Iterator).Next"); nx != nil {
		ok := false
		walkNoLit(nx.Body, func(x ast.Node) bool {
			if ifs, isIf := x.(*ast.IfStmt); isIf && strings.Contains(exprStr(ifs.Cond), "closer.state.Load()") && containsReturn(ifs.Body) {
				ok = true
			}
			return true
		})
		R.Check(ok, "T1", "fun.(*Iterator).Next/closed-first", p.Position(nx.Pos()), "Next returns false for a closed iterator", "Next does not test the closed flag")
	}
	// doClose: once-guarded, sets the state, calls the closer
	if dc := p.FuncNamed("fun.(*Iterator).doClose"); dc != nil {
		okOnce, okState, okCancel := false, false, false
		dinfo := dc.Info()
		walkNoLit(dc.Body, func(x ast.Node) bool {
			call, isCall := x.(*ast.CallExpr)
			if !isCall || callName(dinfo, call) != "sync.(*Once).Do" || len(call.Args) != 1 {
				return true
			}
			lit, isLit := ast.Unparen(call.Args[0]).(*ast.FuncLit)
			if !isLit {
				return true
			}
			okOnce = true
			for _, e := range linearise(p.byLit[lit], nil) {
				if e.Key == "store:closer.state=true" || e.Key == "store:state=true" {
					okState = true
				}
				if ce, isCall := e.Node.(*ast.CallExpr); isCall && strings.Contains(exprStr(ce), "closer.op") {
					okCancel = true
				}
			}
			return true
		})
		R.Check(okOnce && okState && okCancel, "T1", "fun.(*Iterator).doClose", p.Position(dc.Pos()),
			"once.Do{ state=true; cancel }", fmt.Sprintf("doClose must set the closed flag and invoke the cancel function inside one sync.Once body (once=%v flag=%v cancel=%v): Close stops being idempotent / stops cancelling the background work", okOnce, okState, okCancel))
	}
}

func exprStr0(n ast.Node) string {
	var b strings.Builder
	ast.Inspect(n, func(x ast.Node) bool {
		switch t := x.(type) {
		case *ast.Ident:
			b.WriteString(t.Name + " ")
		case *ast.BasicLit:
			b.WriteString(t.Value + " ")
		case *ast.SelectorExpr:
			b.WriteString(exprStr(t) + " ")
			return false
		case *ast.CallExpr:
			b.WriteString(exprStr(t.Fun) + "( ")
			for _, a := range t.Args {
				b.WriteString(exprStr0(a))
			}
			b.WriteString(") ")
			return false
		}
		return true
	})
	return b.String()
}

// ruleX2: the three queueLimitTracker implementations agree on accounting.
func ruleX2(c *Ctx) {
	R := c.R
	p := c.P
	R.Rule("X2", "every implementation of queueLimitTracker accounts alike: add increments length exactly once on every nil return and never on an error return; remove decrements it at most once and never below the guard; len returns length", 9)
	impls := map[string]map[string]*Func{}
	for _, f := range p.FuncsIn("pubsub") {
		if f.Decl == nil || f.Decl.Recv == nil {
			continue
		}
		tn := recvTypeName(f.Decl.Recv.List[0].Type)
		if !strings.HasPrefix(tn, "queue") || !strings.Contains(tn, "Tracker") {
			continue
		}
		if impls[tn] == nil {
			impls[tn] = map[string]*Func{}
		}
		impls[tn][f.Decl.Name.Name] = f
	}
	if len(impls) < 3 {
		R.Fail("X2", "anchors", "-", fmt.Sprintf("expected three tracker implementations, found %d", len(impls)))
	}
	for tn, ms := range impls {
		for _, m := range []string{"add", "remove", "len", "cap"} {
			if ms[m] == nil {
				R.Fail("X2", "pubsub."+tn+"/"+m, "-", "method missing")
			}
		}
		if f := ms["add"]; f != nil {
			bad := ""
			paths := 0
			forEachPath(f, func(path []ast.Node, ret *ast.ReturnStmt) {
				paths++
				inc := 0
				for _, n := range path {
					inc += lengthDelta(n)
				}
				isNil := ret != nil && len(ret.Results) == 1 && isNilIdent(f.Info(), ret.Results[0])
				if isNil && inc != 1 {
					bad = fmt.Sprintf("a path returning nil changes length by %+d", inc)
				}
				if !isNil && inc != 0 {
					bad = fmt.Sprintf("a path returning an error changes length by %+d", inc)
				}
			})
			R.Check(bad == "" && paths > 0, "X2", "pubsub."+tn+"/add", p.Position(f.Pos()), fmt.Sprintf("%d paths: +1 exactly on nil", paths), tn+".add: "+bad+": Len() drifts from the number of linked items")
		}
		if f := ms["remove"]; f != nil {
			bad := ""
			paths, decs := 0, 0
			forEachPath(f, func(path []ast.Node, ret *ast.ReturnStmt) {
				paths++
				d := 0
				for _, n := range path {
					d += lengthDelta(n)
				}
				if d < -1 || d > 0 {
					bad = fmt.Sprintf("a path changes length by %+d", d)
				}
				if d == -1 {
					decs++
				}
			})
			if decs == 0 {
				bad = "no path decrements length"
			}
			R.Check(bad == "", "X2", "pubsub."+tn+"/remove", p.Position(f.Pos()), fmt.Sprintf("%d paths: -1 at most once", paths), tn+".remove: "+bad)
		}
		if f := ms["len"]; f != nil {
			ok := false
			walkNoLit(f.Body, func(x ast.Node) bool {
				if rs, isRet := x.(*ast.ReturnStmt); isRet && len(rs.Results) == 1 {
					if se, isSel := rs.Results[0].(*ast.SelectorExpr); isSel && se.Sel.Name == "length" {
						ok = true
					}
				}
				return true
			})
			R.Check(ok, "X2", "pubsub."+tn+"/len", p.Position(f.Pos()), "returns length", tn+".len does not return the length field")
		}
	}
}

func lengthDelta(n ast.Node) int {
	d := 0
	walkNoLit(n, func(x ast.Node) bool {
		switch t := x.(type) {
		case *ast.IncDecStmt:
			if se, ok := t.X.(*ast.SelectorExpr); ok && se.Sel.Name == "length" {
				if t.Tok == token.INC {
					d++
				} else {
					d--
				}
			}
		case *ast.AssignStmt:
			if len(t.Lhs) == 1 {
				if se, ok := t.Lhs[0].(*ast.SelectorExpr); ok && se.Sel.Name == "length" {
					switch t.Tok {
					case token.ADD_ASSIGN:
						d += 1
					case token.SUB_ASSIGN:
						d -= 1
					default:
						d += 100 // direct assignment: not understood
					}
				}
			}
		}
		return true
	})
	return d
}

// forEachPath enumerates the acyclic entry→exit paths of a small function.
func forEachPath(f *Func, visit func(path []ast.Node, ret *ast.ReturnStmt)) {
	g := f.CFG()
	var path []ast.Node
	onPath := map[int32]bool{}
	var dfs func(bi int32)
	count := 0
	dfs = func(bi int32) {
		if count > 4096 {
			return
		}
		b := g.Blocks[bi]
		mark := len(path)
		path = append(path, b.Nodes...)
		if len(b.Succs) == 0 {
			count++
			var ret *ast.ReturnStmt
			if len(b.Nodes) > 0 {
				ret, _ = b.Nodes[len(b.Nodes)-1].(*ast.ReturnStmt)
			}
			if !isPanicExit(f.Info(), b) {
				visit(path, ret)
			}
		}
		onPath[bi] = true
		for _, s := range b.Succs {
			if !onPath[s.Index] {
				dfs(s.Index)
			}
		}
		onPath[bi] = false
		path = path[:mark]
	}
	dfs(0)
}

// ruleX3: one unwind preference in all three switch sites.
func ruleX3(c *Ctx) {
	R := c.R
	p := c.P
	R.Rule("X3", "wherever an error is flattened by a type switch (Stack.Push, AsStack, internal.Unwind) the case for `Unwind() []error` precedes the case for `Unwrap() []error`, so a value implementing both is taken apart the same way everywhere", 3)
	for _, name := range []string{"ers.(*Stack).Push", "ers.AsStack", "internal.Unwind"} {
		f := p.FuncNamed(name)
		if f == nil {
			R.Fail("X3", name, "-", "function not found")
			continue
		}
		unwindAt, unwrapAt := -1, -1
		walkNoLit(f.Body, func(x ast.Node) bool {
			ts, ok := x.(*ast.TypeSwitchStmt)
			if !ok {
				return true
			}
			for i, cl := range ts.Body.List {
				for _, e := range cl.(*ast.CaseClause).List {
					s := normGuard(exprStr(e))
					if strings.Contains(s, "Unwind()[]") {
						unwindAt = i
					}
					if strings.Contains(s, "Unwrap()[]") {
						unwrapAt = i
					}
				}
			}
			return true
		})
		pos := p.Position(f.Pos())
		switch {
		case unwindAt < 0 || unwrapAt < 0:
			R.Fail("X3", name, pos, "the type switch no longer handles both Unwind() []error and Unwrap() []error: constituents of such errors are lost or kept opaque")
		case unwindAt > unwrapAt:
			R.Fail("X3", name, pos, "Unwrap() []error is matched before Unwind() []error here, unlike the sibling sites")
		default:
			R.OK("X3", name, pos, "Unwind before Unwrap")
		}
	}
}

// ruleX4: nil errors are never stored.
func ruleX4(c *Ctx) {
	R := c.R
	p := c.P
	R.Rule("X4", "nil is ignored: Stack.Push returns on a nil argument before storing, Collector.Add returns before locking/pushing", 2)
	if f := p.FuncNamed("ers.(*Stack).Push"); f != nil {
		ok := false
		walkNoLit(f.Body, func(x ast.Node) bool {
			if cc, isCC := x.(*ast.CaseClause); isCC && len(cc.List) == 1 && isNilIdent(f.Info(), cc.List[0]) {
				if len(cc.Body) == 1 {
					if _, isRet := cc.Body[0].(*ast.ReturnStmt); isRet {
						ok = true
					}
				}
			}
			return true
		})
		// the storing arm is the default arm only
		R.Check(ok, "X4", "ers.(*Stack).Push/nil", p.Position(f.Pos()), "case nil: return", "Stack.Push no longer ignores a nil error: nil constituents are stored and counted (Resolve is non-nil although no error was supplied)")
	} else {
		R.Fail("X4", "ers.(*Stack).Push/nil", "-", "not found")
	}
	if f := p.FuncNamed("erc.(*Collector).Add"); f != nil {
		fl := newFlow(f)
		var push ast.Node
		walkNoLit(f.Body, func(x ast.Node) bool {
			if call, isCall := x.(*ast.CallExpr); isCall && (selName(call) == "Push" || selName(call) == "Add") {
				push = call
			}
			return true
		})
		ok := false
		walkNoLit(f.Body, func(x ast.Node) bool {
			if ifs, isIf := x.(*ast.IfStmt); isIf && errNilCmp(f.Info(), ifs.Cond, token.EQL) && containsReturn(ifs.Body) && push != nil && fl.Dominates(ifs.Cond, push) {
				ok = true
			}
			return true
		})
		R.Check(ok, "X4", "erc.(*Collector).Add/nil", p.Position(f.Pos()), "if err == nil { return } dominates the push", "Collector.Add pushes without the nil test")
	}
}

// ruleH: hdrhist structural clauses.
func ruleH(c *Ctx) {
	R := c.R
	p := c.P
	R.Rule("H1", "every function of hdrhist that stores into counts also maintains totalCount in the same function", 3)
	R.Rule("H4", "every field of Snapshot is written by Export and read by Import", 4)
	for _, f := range p.FuncsIn("dt/hdrhist") {
		if f.Parent != nil {
			continue
		}
		wc, wt := false, false
		walkNoLit(f.Body, func(x ast.Node) bool {
			var lhs []ast.Expr
			switch t := x.(type) {
			case *ast.AssignStmt:
				lhs = t.Lhs
			case *ast.IncDecStmt:
				lhs = []ast.Expr{t.X}
			}
			for _, l := range lhs {
				s := exprStr(l)
				if strings.HasSuffix(s, ".counts") || strings.Contains(s, ".counts[") {
					wc = true
				}
				if strings.HasSuffix(s, ".totalCount") {
					wt = true
				}
			}
			return true
		})
		if f.Decl != nil && f.Decl.Name.Name == "New" {
			continue
		}
		if wc {
			R.Check(wt, "H1", f.Name, p.Position(f.Pos()), "writes counts and totalCount", f.Name+" writes counts but not totalCount: TotalCount() no longer equals the number of recorded occurrences")
		}
	}
	exp, imp := p.FuncNamed("dt/hdrhist.(*Histogram).Export"), p.FuncNamed("dt/hdrhist.Import")
	var fields []string
	for _, id := range p.fields {
		if id.Pkg == "dt/hdrhist" && id.Type == "Snapshot" {
			fields = append(fields, id.Name)
		}
	}
	sort.Strings(fields)
	if exp == nil || imp == nil {
		R.Fail("H4", "anchors", "-", "Export/Import not found")
		return
	}
	es, is := exprStr0(exp.Body), exprStr0(imp.Body)
	for _, fld := range fields {
		w := false
		ast.Inspect(exp.Body, func(x ast.Node) bool {
			if kv, ok := x.(*ast.KeyValueExpr); ok && exprStr(kv.Key) == fld {
				w = true
			}
			if as, ok := x.(*ast.AssignStmt); ok {
				for _, l := range as.Lhs {
					if strings.HasSuffix(exprStr(l), "."+fld) {
						w = true
					}
				}
			}
			return true
		})
		r := strings.Contains(is, "."+fld+" ")
		R.Check(w && r, "H4", "Snapshot."+fld, p.Position(exp.Pos()), "written by Export, read by Import",
			fmt.Sprintf("Snapshot.%s: written by Export=%v, read by Import=%v: the round trip drops that part of the histogram", fld, w, r))
	}
	_ = es
}

// ruleX5: channel modes.
func ruleX5(c *Ctx) {
	R := c.R
	p := c.P
	R.Rule("X5", "ChanSend.Write / ChanReceive.Read: the blocking arm is a select with a ctx.Done() arm and NO default (a default would silently drop items); the non-blocking arm has both", 4)
	for _, name := range []string{"fun.ChanSend.Write", "fun.ChanReceive.Read"} {
		f := p.FuncNamed(name)
		if f == nil {
			R.Fail("X5", name, "-", "not found")
			continue
		}
		info := f.Info()
		found := 0
		walkNoLit(f.Body, func(x ast.Node) bool {
			cc, ok := x.(*ast.CaseClause)
			if !ok || len(cc.List) != 1 {
				return true
			}
			mode := exprStr(cc.List[0])
			if mode != "modeBlocking" && mode != "modeNonBlocking" {
				return true
			}
			var sel *ast.SelectStmt
			for _, st := range cc.Body {
				if s, ok := st.(*ast.SelectStmt); ok {
					sel = s
				}
			}
			at := name + "/" + mode
			pos := p.Position(cc.Pos())
			if sel == nil {
				R.Fail("X5", at, pos, "the arm has no select")
				return true
			}
			found++
			d, cx := selectHasExit(info, sel)
			// the channel operation itself must be an arm
			chanArm := false
			for _, cl := range sel.Body.List {
				comm := cl.(*ast.CommClause).Comm
				if comm == nil {
					continue
				}
				if _, isSend := comm.(*ast.SendStmt); isSend {
					chanArm = true
				}
				if as, isAs := comm.(*ast.AssignStmt); isAs && len(as.Rhs) == 1 {
					if u, isU := as.Rhs[0].(*ast.UnaryExpr); isU && u.Op == token.ARROW && !isCtxDoneRecvExpr(info, u) {
						chanArm = true
					}
				}
			}
			switch {
			case !chanArm:
				R.Fail("X5", at, pos, "the select has no arm for the channel operation")
			case mode == "modeBlocking" && d:
				R.Fail("X5", at, pos, "the blocking arm has a default: when the peer is not ready the item is dropped (lost) instead of waiting")
			case !cx:
				R.Fail("X5", at, pos, "no ctx.Done() arm: the operation cannot be cancelled")
			case mode == "modeNonBlocking" && !d:
				R.Fail("X5", at, pos, "the non-blocking arm has no default: it blocks")
			default:
				R.OK("X5", at, pos, "select arms as required")
			}
			return true
		})
		if found < 2 {
			R.Fail("X5", name+"/arms", p.Position(f.Pos()), "blocking and non-blocking arms not both found")
		}
	}
}

// ruleX6: Len is the tracker's length, under the lock.
func ruleX6(c *Ctx, types_ ...string) {
	R := c.R
	p := c.P
	R.Rule("X6", "the public Len of Queue/Deque returns tracker.len()", len(types_))
	for _, tn := range types_ {
		f := p.FuncNamed("pubsub.(*" + tn + ").Len")
		if f == nil {
			R.Fail("X6", "pubsub."+tn+".Len", "-", "not found")
			continue
		}
		ok := false
		walkNoLit(f.Body, func(x ast.Node) bool {
			if rs, isRet := x.(*ast.ReturnStmt); isRet && len(rs.Results) == 1 && strings.HasSuffix(exprStr(resolveLocal(f, rs.Results[0])), ".tracker.len()") {
				ok = true
			}
			return true
		})
		R.Check(ok, "X6", "pubsub."+tn+".Len", p.Position(f.Pos()), "returns tracker.len()", tn+".Len does not return the tracker's length")
	}
}
