package main

// Rules added after the independent seeded-change campaign (DESIGN §10), package dt:
//
//	D9  a list's root sentinel is never handed out as a value
//	Q3  an element's value is written only by the element's own methods
//	Q4  the ok flag of an existing node is set only behind the sentinel-excluding guard
//	Q5  the heap's list is touched only by the heap's own Push/Pop/Len/Iterator/lazySetup
//	Q6  SortQuick reorders the popped elements only through sort.SliceStable with lt(e[i], e[j])
//	Q7  the sorting functions re-link the existing elements and never create new ones
//	D6c Set.SortQuick/SortMerge reach the list sort on every path, after making the set ordered

import (
	"fmt"
	"go/ast"
	"go/token"
	"go/types"
	"strings"
)

func recvNamed(f *Func) string {
	r := f.Root()
	if r.Decl == nil || r.Decl.Recv == nil || len(r.Decl.Recv.List) == 0 {
		return ""
	}
	return recvTypeName(r.Decl.Recv.List[0].Type)
}

// ---------------------------------------------------------------- D9

func ruleD9(c *Ctx, floor int) {
	R := c.R
	p := c.P
	R.Rule("D9", "the root sentinel of a List (the expression X.root) is compared, dereferenced or used to seed a local cursor, but never returned, passed as an argument or stored in a composite value: a client must not get a handle that reports In(list) and accepts Append", floor)
	for _, f := range p.FuncsIn("dt") {
		info := f.Info()
		n := 0
		walkNoLit(f.Body, func(x ast.Node) bool {
			se, ok := x.(*ast.SelectorExpr)
			if !ok || se.Sel.Name != "root" {
				return true
			}
			s := info.Selections[se]
			if s == nil || s.Kind() != types.FieldVal {
				return true
			}
			if tv, ok := info.Types[se.X]; !ok || !typeIs(tv.Type, "dt", "List") {
				return true
			}
			n++
			at := fmt.Sprintf("%s/root#%d", f.Name, n)
			pos := p.Position(se.Pos())
			par := p.Parent(se)
			for {
				if pe, ok := par.(*ast.ParenExpr); ok {
					par = p.Parent(pe)
					continue
				}
				break
			}
			bad := ""
			switch t := par.(type) {
			case *ast.ReturnStmt:
				bad = "returned"
			case *ast.CallExpr:
				for _, a := range t.Args {
					if ast.Unparen(a) == ast.Expr(se) {
						bad = "passed as an argument to " + exprStr(t.Fun)
					}
				}
			case *ast.KeyValueExpr, *ast.CompositeLit:
				bad = "stored in a composite literal"
			case *ast.AssignStmt:
				// l.root = …  (lazySetup) and  cursor := l.root  are fine; storing it into a field or slot is not
				for i, r := range t.Rhs {
					if ast.Unparen(r) == ast.Expr(se) && i < len(t.Lhs) {
						if _, isId := ast.Unparen(t.Lhs[i]).(*ast.Ident); !isId {
							// closing the ring (x.next = l.root / x.prev = l.root) is the structure's own business
							if ls, isSel := ast.Unparen(t.Lhs[i]).(*ast.SelectorExpr); isSel && (ls.Sel.Name == "next" || ls.Sel.Name == "prev") {
								continue
							}
							bad = "stored into " + exprStr(t.Lhs[i])
						}
					}
				}
			}
			R.Check(bad == "", "D9", at, pos, "used in place ("+fmt.Sprintf("%T", par)+")",
				fmt.Sprintf("%s: the root sentinel %s is %s — the caller receives the list's own sentinel, which reports In(list) and turns Append on it into a push, where the contract is a detached element that does nothing", f.Name, exprStr(se), bad))
			return true
		})
	}
}

// ---------------------------------------------------------------- Q3 / Q4

func ruleQ34(c *Ctx, floor int) {
	R := c.R
	p := c.P
	R.Rule("Q3", "the value of a list element / stack item (item, value) is written only by a method of that very node (Set, Drop, UnmarshalJSON through Set) or in the literal that creates it: values move with their nodes, a retained handle keeps its value across sorts", floor)
	R.Rule("Q4", "the ok flag of an existing node is set to true only behind the guard that excludes the container's sentinel (Element: e.list.root == e; Item: it.next == nil with a stack): a sentinel that becomes ok is counted by every traversal but not by Len", 2)
	for _, f := range p.FuncsIn("dt") {
		info := f.Info()
		recv := recvObject(f.Root())
		n := 0
		walkNoLit(f.Body, func(x ast.Node) bool {
			as, ok := x.(*ast.AssignStmt)
			if !ok {
				return true
			}
			for i, l := range as.Lhs {
				se, ok := ast.Unparen(l).(*ast.SelectorExpr)
				if !ok {
					continue
				}
				s := info.Selections[se]
				if s == nil || s.Kind() != types.FieldVal {
					continue
				}
				tv, ok := info.Types[se.X]
				if !ok || !isDtNode(tv.Type) {
					continue
				}
				switch se.Sel.Name {
				case "item", "value":
					n++
					at := fmt.Sprintf("%s/store(%s)#%d", f.Name, exprStr(l), n)
					id, isId := ast.Unparen(se.X).(*ast.Ident)
					own := isId && recv != nil && info.Uses[id] == recv && f.Parent == nil && isDtNode(recv.Type())
					R.Check(own, "Q3", at, p.Position(as.Pos()), "written by the node's own method",
						fmt.Sprintf("%s writes %s from outside the node's own methods: the value is moved between existing nodes, so a handle a client kept now denotes a different value (Remove/Append/Set through it act on the wrong position) and an index keyed by value points at the wrong element", f.Name, exprStr(l)))
				case "ok":
					if i >= len(as.Rhs) {
						continue
					}
					if tvr, ok := info.Types[as.Rhs[i]]; !ok || tvr.Value == nil || tvr.Value.String() != "true" {
						continue
					}
					at := fmt.Sprintf("%s/store(%s=true)", f.Name, exprStr(l))
					guard := sentinelGuardDominates(p, f, se.X, as)
					R.Check(guard != "", "Q4", at, p.Position(as.Pos()), "behind "+guard,
						fmt.Sprintf("%s sets %s = true without a dominating guard that excludes the sentinel: the bottom/root sentinel of a non-empty container can be made a value-carrying member that Len does not count", f.Name, exprStr(l)))
				}
			}
			return true
		})
	}
}

// sentinelGuardDominates: an `if … { return … }` that dominates `at` and whose
// condition contains the sentinel test for node expression x.
func sentinelGuardDominates(p *Prog, f *Func, x ast.Expr, at ast.Node) string {
	info := f.Info()
	tv, ok := info.Types[x]
	if !ok {
		return ""
	}
	isItem := typeIs(tv.Type, "dt", "Item")
	name := exprStr(x)
	fl := newFlow(f)
	found := ""
	walkNoLit(f.Body, func(y ast.Node) bool {
		ifs, ok := y.(*ast.IfStmt)
		if !ok || !containsReturn(ifs.Body) || p.inside(at, ifs.Body) || !fl.Dominates(ifs.Cond, at) {
			return true
		}
		// top-level disjuncts of the condition; each disjunct a conjunction
		var disj func(e ast.Expr) []ast.Expr
		disj = func(e ast.Expr) []ast.Expr {
			e = ast.Unparen(e)
			if be, ok := e.(*ast.BinaryExpr); ok && be.Op == token.LOR {
				return append(disj(be.X), disj(be.Y)...)
			}
			return []ast.Expr{e}
		}
		var conj func(e ast.Expr) []ast.Expr
		conj = func(e ast.Expr) []ast.Expr {
			e = ast.Unparen(e)
			if be, ok := e.(*ast.BinaryExpr); ok && be.Op == token.LAND {
				return append(conj(be.X), conj(be.Y)...)
			}
			return []ast.Expr{e}
		}
		for _, d := range disj(ifs.Cond) {
			cs := conj(d)
			hasSentinel, onlyAllowed := false, true
			for _, cj := range cs {
				be, ok := cj.(*ast.BinaryExpr)
				if !ok || (be.Op != token.EQL && be.Op != token.NEQ) {
					onlyAllowed = false
					continue
				}
				l, r := exprStr(be.X), exprStr(be.Y)
				switch {
				case isItem && be.Op == token.EQL && ((l == name+".next" && r == "nil") || (r == name+".next" && l == "nil")):
					hasSentinel = true
				case !isItem && be.Op == token.EQL && ((l == name+".list.root" && r == name) || (r == name+".list.root" && l == name)):
					hasSentinel = true
				case be.Op == token.NEQ && (strings.HasSuffix(l, ".stack") || strings.HasSuffix(l, ".list")) && r == "nil":
					// membership conjunct: the sentinel always belongs to its container
				default:
					onlyAllowed = false
				}
			}
			if hasSentinel && onlyAllowed {
				found = "`if " + exprStr(ifs.Cond) + " { return }`"
			}
		}
		return true
	})
	return found
}

// ---------------------------------------------------------------- Q5

func ruleQ5(c *Ctx, floor int) {
	R := c.R
	p := c.P
	R.Rule("Q5", "the list behind a Heap is reached only from the heap's own lazySetup / Push / Pop / Len / Iterator: every insertion goes through Push's ordered scan (a bulk PushBack followed by a sort that an error path can skip leaves the heap unordered)", floor)
	allowed := map[string]bool{"lazySetup": true, "Push": true, "Pop": true, "Len": true, "Iterator": true}
	for _, f := range p.FuncsIn("dt") {
		info := f.Info()
		n := 0
		walkNoLit(f.Body, func(x ast.Node) bool {
			se, ok := x.(*ast.SelectorExpr)
			if !ok || se.Sel.Name != "list" {
				return true
			}
			s := info.Selections[se]
			if s == nil || s.Kind() != types.FieldVal {
				return true
			}
			if tv, ok := info.Types[se.X]; !ok || !typeIs(tv.Type, "dt", "Heap") {
				return true
			}
			n++
			root := f.Root()
			okUse := recvNamed(f) == "Heap" && root.Decl != nil && allowed[root.Decl.Name.Name]
			R.Check(okUse, "Q5", fmt.Sprintf("%s/heap.list#%d", f.Name, n), p.Position(se.Pos()), "inside the heap's own method",
				fmt.Sprintf("%s reaches into the heap's list (%s) outside Push/Pop/Len/Iterator/lazySetup: items inserted this way bypass the ordered scan, so Pop no longer yields values in non-decreasing order", f.Name, exprStr(se)))
			return true
		})
	}
}

// ---------------------------------------------------------------- Q6 / Q7

var sortFuncs = []string{"dt.(*List).SortQuick", "dt.(*List).SortMerge", "dt.mergeSort", "dt.split", "dt.merge"}

func ruleQ67(c *Ctx) {
	R := c.R
	p := c.P
	R.Rule("Q6", "List.SortQuick orders the popped elements with exactly one sort.SliceStable call whose less function is lt(elems[i].item, elems[j].item) for its (i, j) parameters, and nothing else stores into or reorders that slice (stability and order come from SliceStable alone)", 1)
	R.Rule("Q7", "the sorting functions (SortQuick, SortMerge, mergeSort, split, merge) re-link the elements they removed and never create elements or write values: handles and indexes that refer to elements stay valid across a sort", 5)
	// Q7
	creators := map[string]bool{"dt.NewElement": true, "dt.makeElem": true, "dt.(*List).PushBack": true, "dt.(*List).PushFront": true, "dt.(*List).Append": true, "dt.(*List).Populate": true, "dt.(*List).Copy": true, "dt.(*List).Slice": true}
	for _, name := range sortFuncs {
		f := p.FuncNamed(name)
		at := name + "/no-new-elements"
		if f == nil {
			R.Fail("Q7", at, "-", name+" not found")
			continue
		}
		info := f.Info()
		bad := ""
		ast.Inspect(f.Body, func(x ast.Node) bool {
			switch t := x.(type) {
			case *ast.CallExpr:
				if cn := callName(info, t); creators[cn] {
					bad = fmt.Sprintf("calls %s at %s", cn, p.Position(t.Pos()))
				}
			case *ast.SelectorExpr:
				// method value of a creator
				if s := info.Selections[t]; s != nil && s.Kind() == types.MethodVal {
					if fn, ok := s.Obj().(*types.Func); ok && creators[fname(fn.Origin())] {
						if call, isCall := p.Parent(t).(*ast.CallExpr); !isCall || call.Fun != ast.Expr(t) {
							bad = fmt.Sprintf("takes %s as a value at %s", fname(fn.Origin()), p.Position(t.Pos()))
						}
					}
				}
			case *ast.CompositeLit:
				if tv, ok := info.Types[t]; ok && typeIs(tv.Type, "dt", "Element") {
					bad = "builds an Element literal at " + p.Position(t.Pos())
				}
			}
			return true
		})
		R.Check(bad == "", "Q7", at, p.Position(f.Pos()), "only re-links existing elements", name+" "+bad+": the sorted list is made of new elements (or of copied values), so element handles taken before the sort — and dt.Set's value→element index — no longer refer to members of the list")
	}
	// Q6
	f := p.FuncNamed("dt.(*List).SortQuick")
	at := "dt.(*List).SortQuick/stable-sort"
	if f == nil {
		R.Fail("Q6", at, "-", "not found")
		return
	}
	info := f.Info()
	pos := p.Position(f.Pos())
	ltObj := paramObj(f, 0)
	var slice types.Object
	var stable []*ast.CallExpr
	other := ""
	ast.Inspect(f.Body, func(x ast.Node) bool {
		call, ok := x.(*ast.CallExpr)
		if !ok {
			return true
		}
		switch cn := callName(info, call); {
		case cn == "sort.SliceStable":
			stable = append(stable, call)
			if id, ok := ast.Unparen(call.Args[0]).(*ast.Ident); ok {
				slice = info.Uses[id]
			}
		case strings.HasPrefix(cn, "sort.") || strings.HasPrefix(cn, "slices."):
			switch cn {
			case "sort.SliceIsSorted", "sort.IsSorted", "slices.IsSorted", "slices.IsSortedFunc":
				// read-only
			default:
				other = cn + " at " + p.Position(call.Pos())
			}
		}
		return true
	})
	if len(stable) != 1 || slice == nil {
		R.Fail("Q6", at, pos, fmt.Sprintf("SortQuick has %d sort.SliceStable calls on a local slice (want exactly 1): equal elements are not guaranteed to keep their relative order", len(stable)))
		return
	}
	if other != "" {
		R.Fail("Q6", at, pos, "SortQuick also reorders through "+other+", which is not stable")
		return
	}
	// no store into the slice's elements
	storePos := ""
	ast.Inspect(f.Body, func(x ast.Node) bool {
		as, ok := x.(*ast.AssignStmt)
		if !ok {
			return true
		}
		for _, l := range as.Lhs {
			if ix, ok := ast.Unparen(l).(*ast.IndexExpr); ok {
				if id, ok := ast.Unparen(ix.X).(*ast.Ident); ok && info.Uses[id] == slice {
					storePos = p.Position(as.Pos())
				}
			}
		}
		return true
	})
	if storePos != "" {
		R.Fail("Q6", at, pos, "SortQuick stores into the slice of popped elements at "+storePos+" (a hand-written reordering next to SliceStable): elements that compare equal can change their relative order")
		return
	}
	// less orientation
	less, _ := ast.Unparen(stable[0].Args[1]).(*ast.FuncLit)
	if less == nil {
		if id, ok := ast.Unparen(stable[0].Args[1]).(*ast.Ident); ok {
			if v, ok := info.Uses[id].(*types.Var); ok {
				if rhs := singleDef(f, v); rhs != nil {
					less, _ = ast.Unparen(rhs).(*ast.FuncLit)
				}
			}
		}
	}
	if less == nil || len(less.Body.List) != 1 {
		R.Undecided("Q6", at, pos, "the less function of SliceStable is not a one-statement literal")
		return
	}
	var params []types.Object
	for _, fld := range less.Type.Params.List {
		for _, nm := range fld.Names {
			params = append(params, info.Defs[nm])
		}
	}
	rs, ok := less.Body.List[0].(*ast.ReturnStmt)
	if !ok || len(rs.Results) != 1 || len(params) != 2 {
		R.Undecided("Q6", at, pos, "the less function is not `return lt(…)`")
		return
	}
	call, ok := ast.Unparen(rs.Results[0]).(*ast.CallExpr)
	if !ok || len(call.Args) != 2 {
		R.Fail("Q6", at, pos, "the less function does not return a call of lt")
		return
	}
	if id, ok := ast.Unparen(call.Fun).(*ast.Ident); !ok || info.Uses[id] != ltObj {
		R.Fail("Q6", at, pos, "the less function does not call the lt parameter")
		return
	}
	idxOf := func(e ast.Expr) types.Object {
		// elems[i].item | elems[i].Value()
		e = ast.Unparen(e)
		var base ast.Expr
		if se, ok := e.(*ast.SelectorExpr); ok && se.Sel.Name == "item" {
			base = se.X
		} else if c2, ok := e.(*ast.CallExpr); ok && selName(c2) == "Value" {
			base = recvExpr(c2)
		}
		ix, ok := ast.Unparen(base).(*ast.IndexExpr)
		if !ok {
			return nil
		}
		if id, ok := ast.Unparen(ix.X).(*ast.Ident); !ok || info.Uses[id] != slice {
			return nil
		}
		if id, ok := ast.Unparen(ix.Index).(*ast.Ident); ok {
			return info.Uses[id]
		}
		return nil
	}
	a, b := idxOf(call.Args[0]), idxOf(call.Args[1])
	R.Check(a != nil && b != nil && a == params[0] && b == params[1], "Q6", at, pos, "one sort.SliceStable with less(i, j) = lt(elems[i].item, elems[j].item); no other reordering",
		"the less function is not lt(elems[i].item, elems[j].item) for its (i, j) parameters: the order (or its direction) is not the one lt defines")
}

// ---------------------------------------------------------------- D6c

func ruleD6c(c *Ctx) {
	R := c.R
	p := c.P
	R.Rule("D6c", "Set.SortQuick / Set.SortMerge reach the list's sort on every path, after ensuring the set is ordered (forceSetupOrdered when there is no list yet): a sorted set is an ordered set whatever its size", 2)
	for _, name := range []string{"dt.(*Set).SortQuick", "dt.(*Set).SortMerge"} {
		f := p.FuncNamed(name)
		at := name + "/ordered-on-every-path"
		if f == nil {
			R.Fail("D6c", at, "-", "not found")
			continue
		}
		info := f.Info()
		pos := p.Position(f.Pos())
		var sortCall, ensure ast.Node
		walkNoLit(f.Body, func(x ast.Node) bool {
			switch t := x.(type) {
			case *ast.CallExpr:
				switch callName(info, t) {
				case "dt.(*List).SortQuick", "dt.(*List).SortMerge":
					sortCall = t
				case "dt.(*Set).forceSetupOrdered":
					ensure = t
				}
			case *ast.SelectorExpr:
				if s := info.Selections[t]; s != nil && s.Kind() == types.MethodVal && fname(s.Obj().(*types.Func).Origin()) == "dt.(*Set).forceSetupOrdered" {
					if ensure == nil {
						ensure = t
					}
				}
			}
			return true
		})
		if sortCall == nil || ensure == nil {
			R.Fail("D6c", at, pos, "the method does not both make the set ordered (forceSetupOrdered) and sort its list")
			continue
		}
		fl := newFlow(f)
		entry := blockNode{fl.G.Blocks[0], -1}
		contains := func(target ast.Node) func(ast.Node) bool {
			return func(n ast.Node) bool {
				hit := false
				ast.Inspect(n, func(y ast.Node) bool {
					if y == target {
						hit = true
					}
					return !hit
				})
				return hit
			}
		}
		_, skipSort := fl.pathToExitAvoiding(entry, contains(sortCall))
		_, skipEnsure := fl.pathToExitAvoiding(entry, contains(ensure))
		R.Check(!skipSort && !skipEnsure && fl.Dominates(ensure, sortCall), "D6c", at, pos, "ensure-ordered, then sort, on every path",
			name+" has a path that returns without "+map[bool]string{true: "making the set ordered", false: "sorting the list"}[skipEnsure]+": sorting a set with fewer than two members leaves it unordered, so later additions iterate in map order and Equal against the corresponding ordered set is false")
	}
}

// ---------------------------------------------------------------- H5 / H6  (hdrhist)

func ruleH56(c *Ctx) {
	R := c.R
	p := c.P
	R.Rule("H5", "in hdrhist a left shift whose result is widened to 64 bits is performed on a 64-bit operand (int64(x) << s, never int64(x << s)): bucket values reach 2^62, a 32-bit shift wraps", 2)
	R.Rule("H6", "Histogram.Export hands out a copy of the counts: the slice stored in Snapshot.Counts is built on a fresh backing array (append onto nil / make), never on h.counts itself", 1)
	shifts := 0
	for _, f := range p.FuncsIn("dt/hdrhist") {
		info := f.Info()
		walkNoLit(f.Body, func(x ast.Node) bool {
			be, ok := x.(*ast.BinaryExpr)
			if !ok || be.Op != token.SHL {
				return true
			}
			tv, ok := info.Types[be]
			if !ok {
				return true
			}
			b, ok := tv.Type.Underlying().(*types.Basic)
			if !ok {
				return true
			}
			shifts++
			at := fmt.Sprintf("%s/shl(%s)", f.Name, exprStr(be))
			pos := p.Position(be.Pos())
			narrow := b.Kind() == types.Int32 || b.Kind() == types.Uint32 || b.Kind() == types.Int16 || b.Kind() == types.Uint16 || b.Kind() == types.Int8 || b.Kind() == types.Uint8
			// is the shift the operand of a widening conversion?
			widened := false
			par := p.Parent(be)
			for {
				if pe, ok := par.(*ast.ParenExpr); ok {
					par = p.Parent(pe)
					continue
				}
				break
			}
			if call, ok := par.(*ast.CallExpr); ok && len(call.Args) == 1 {
				if ctv, ok := info.Types[call.Fun]; ok && ctv.IsType() {
					if cb, ok := ctv.Type.Underlying().(*types.Basic); ok && (cb.Kind() == types.Int64 || cb.Kind() == types.Uint64 || cb.Kind() == types.Int || cb.Kind() == types.Uint) {
						widened = true
					}
				}
			}
			R.Check(!(narrow && widened), "H5", at, pos, "shift at "+b.Name(),
				fmt.Sprintf("%s shifts at %s and widens the result afterwards (%s): for recorded values of 2^31 and above the shift wraps, so quantiles, Min/Max and Merge see garbage", f.Name, b.Name(), nodeStr(par)))
			return true
		})
	}
	if shifts == 0 {
		R.Fail("H5", "hdrhist/shifts", "-", "no shift expression found in hdrhist: the bucket arithmetic moved")
	}
	// H6
	f := p.FuncNamed("dt/hdrhist.(*Histogram).Export")
	at := "hdrhist.(*Histogram).Export/counts-copied"
	if f == nil {
		R.Fail("H6", at, "-", "Export not found")
		return
	}
	info := f.Info()
	var val ast.Expr
	ast.Inspect(f.Body, func(x ast.Node) bool {
		switch t := x.(type) {
		case *ast.KeyValueExpr:
			if k, ok := t.Key.(*ast.Ident); ok && k.Name == "Counts" {
				val = t.Value
			}
		case *ast.AssignStmt:
			for i, l := range t.Lhs {
				if se, ok := ast.Unparen(l).(*ast.SelectorExpr); ok && se.Sel.Name == "Counts" && i < len(t.Rhs) {
					val = t.Rhs[i]
				}
			}
		}
		return true
	})
	if val == nil {
		R.Undecided("H6", at, p.Position(f.Pos()), "Export does not set Snapshot.Counts in a recognisable way")
		return
	}
	var root func(e ast.Expr, depth int) ast.Expr
	root = func(e ast.Expr, depth int) ast.Expr {
		e = ast.Unparen(e)
		switch t := e.(type) {
		case *ast.SliceExpr:
			return root(t.X, depth)
		case *ast.CallExpr:
			if isBuiltinCall(info, t, "append") && len(t.Args) > 0 {
				return root(t.Args[0], depth)
			}
			if isBuiltinCall(info, t, "make") {
				return nil
			}
			if tv, ok := info.Types[t.Fun]; ok && tv.IsType() {
				return root(t.Args[0], depth) // conversion
			}
			if cn := callName(info, t); cn == "slices.Clone" || cn == "bytes.Clone" {
				return nil
			}
			return e
		case *ast.Ident:
			if isNilIdent(info, t) {
				return nil
			}
			if v, ok := info.Uses[t].(*types.Var); ok && depth < 3 {
				if rhs := singleDef(f, v); rhs != nil {
					return root(rhs, depth+1)
				}
			}
			return e
		case *ast.CompositeLit:
			return nil
		}
		return e
	}
	r := root(val, 0)
	alias := false
	if r != nil {
		if se, ok := ast.Unparen(r).(*ast.SelectorExpr); ok && se.Sel.Name == "counts" {
			alias = true
		} else {
			alias = true // anything we cannot show to be fresh
		}
	}
	R.Check(!alias, "H6", at, p.Position(val.Pos()), "Counts is built on a fresh backing array: "+exprStr(val),
		fmt.Sprintf("Export stores %s in Snapshot.Counts, whose backing array is %s: the snapshot (and a histogram imported from it) shares the counts of the live histogram while keeping its own total — further records or a Reset of the original desynchronise them and trip the iteration invariant", exprStr(val), func() string {
			if r == nil {
				return "fresh"
			}
			return exprStr(r)
		}()))
}

// ---------------------------------------------------------------- H2 / D6d

// ruleH2: Histogram.Equals looks at every field of the histogram on both sides.
func ruleH2(c *Ctx) {
	R := c.R
	p := c.P
	R.Rule("H2", "Histogram.Equals compares every field of Histogram (geometry, totalCount and the counts) between the receiver and the argument", 1)
	f := p.FuncNamed("dt/hdrhist.(*Histogram).Equals")
	at := "hdrhist.(*Histogram).Equals/all-fields"
	if f == nil {
		R.Fail("H2", at, "-", "Equals not found")
		return
	}
	info := f.Info()
	recv := recvObject(f)
	other := paramObj(f, 0)
	seen := map[string]map[types.Object]bool{}
	walkNoLit(f.Body, func(x ast.Node) bool {
		se, ok := x.(*ast.SelectorExpr)
		if !ok {
			return true
		}
		if s := info.Selections[se]; s == nil || s.Kind() != types.FieldVal {
			return true
		}
		if id, ok := ast.Unparen(se.X).(*ast.Ident); ok {
			o := info.Uses[id]
			if o == recv || o == other {
				if seen[se.Sel.Name] == nil {
					seen[se.Sel.Name] = map[types.Object]bool{}
				}
				seen[se.Sel.Name][o] = true
			}
		}
		return true
	})
	var missing []string
	if recv != nil {
		if st, ok := namedOf(recv.Type()).Underlying().(*types.Struct); ok {
			for i := 0; i < st.NumFields(); i++ {
				fn := st.Field(i).Name()
				if !(seen[fn][recv] && seen[fn][other]) {
					missing = append(missing, fn)
				}
			}
		}
	}
	R.Check(recv != nil && other != nil && len(missing) == 0, "H2", at, p.Position(f.Pos()), "every field is compared on both sides",
		"Equals does not compare "+strings.Join(missing, ", ")+": two histograms that differ there (e.g. an Import/Merge that dropped counts) are reported equal")
}

// ruleD6d: Set.Equal compares the sizes before its one-directional membership walk.
func ruleD6d(c *Ctx) {
	R := c.R
	p := c.P
	R.Rule("D6d", "Set.Equal rejects sets of different size before it walks the receiver's members (the walk only checks receiver ⊆ other)", 1)
	f := p.FuncNamed("dt.(*Set).Equal")
	at := "dt.(*Set).Equal/size-first"
	if f == nil {
		R.Fail("D6d", at, "-", "Equal not found")
		return
	}
	info := f.Info()
	other := paramObj(f, 0)
	fl := newFlow(f)
	var guard ast.Node
	walkNoLit(f.Body, func(x ast.Node) bool {
		ifs, ok := x.(*ast.IfStmt)
		if !ok || !containsReturn(ifs.Body) || guard != nil {
			return true
		}
		// a != comparison one of whose sides is other.Len() / len(other.hash)
		walkNoLit(ifs.Cond, func(y ast.Node) bool {
			be, ok := y.(*ast.BinaryExpr)
			if !ok || be.Op != token.NEQ {
				return true
			}
			for _, side := range []ast.Expr{be.X, be.Y} {
				if call, ok := ast.Unparen(side).(*ast.CallExpr); ok {
					if callName(info, call) == "dt.(*Set).Len" {
						if id, ok := ast.Unparen(recvExpr(call)).(*ast.Ident); ok && info.Uses[id] == other {
							guard = ifs.Cond
						}
					}
					if isBuiltinCall(info, call, "len") && usesObj(info, call, other) {
						guard = ifs.Cond
					}
				}
			}
			return true
		})
		return true
	})
	okAll := guard != nil
	if okAll {
		walkNoLit(f.Body, func(x ast.Node) bool {
			switch t := x.(type) {
			case *ast.ForStmt:
				// the statement itself is not a CFG node: use its condition / first body statement
				var probe ast.Node = t.Cond
				if probe == nil && len(t.Body.List) > 0 {
					probe = t.Body.List[0]
				}
				if probe != nil && !fl.Dominates(guard, probe) {
					okAll = false
				}
			case *ast.RangeStmt:
				if !fl.Dominates(guard, t.X) {
					okAll = false
				}
			}
			return true
		})
	}
	R.Check(okAll, "D6d", at, p.Position(f.Pos()), "size comparison dominates the membership walks", "Set.Equal walks the receiver's members without first rejecting a different size: a proper subset compares equal to its superset")
}

// ---------------------------------------------------------------- Q8

// ruleQ8: what is linked into a list or stack was born a member (ok = true,
// from NewElement / makeElem / NewItem / makeItem); a bare literal is a
// placeholder or sentinel and is never handed to Append.
func ruleQ8(c *Ctx) {
	R := c.R
	p := c.P
	R.Rule("Q8", "the argument of Element.Append / Item.Append / uncheckedAppend is never a node built in place by a composite literal without ok: true (such a node is a placeholder: appendable() rejects it unless something sets ok later, which a JSON null does not)", 3)
	n := 0
	for _, f := range p.FuncsIn("dt") {
		info := f.Info()
		walkNoLit(f.Body, func(x ast.Node) bool {
			call, ok := x.(*ast.CallExpr)
			if !ok || len(call.Args) != 1 {
				return true
			}
			switch callName(info, call) {
			case "dt.(*Element).Append", "dt.(*Item).Append", "dt.(*Element).uncheckedAppend":
			default:
				return true
			}
			n++
			arg := ast.Unparen(resolveLocal(f, call.Args[0]))
			bad := false
			if ue, ok := arg.(*ast.UnaryExpr); ok && ue.Op == token.AND {
				if cl, ok := ast.Unparen(ue.X).(*ast.CompositeLit); ok {
					okTrue := false
					for _, el := range cl.Elts {
						if kv, ok := el.(*ast.KeyValueExpr); ok && exprStr(kv.Key) == "ok" && exprStr(kv.Value) == "true" {
							okTrue = true
						}
					}
					bad = !okTrue
				}
			}
			R.Check(!bad, "Q8", fmt.Sprintf("%s/append(%s)#%d", f.Name, exprStr(call.Args[0]), n), p.Position(call.Pos()), "argument is not a bare placeholder literal",
				fmt.Sprintf("%s appends %s, which it built as a bare literal (ok = false): unless a later step happens to set ok the append is silently refused — a JSON null entry disappears from the decoded list/stack", f.Name, exprStr(call.Args[0])))
			return true
		})
	}
}

// ---------------------------------------------------------------- Q6b / Q9

// ruleQ6b: in SortQuick no path re-links the popped elements without having
// gone through the stable sort.
func ruleQ6b(c *Ctx) {
	R := c.R
	p := c.P
	R.Rule("Q6b", "in List.SortQuick every path from the entry to a re-linking Append passes the sort.SliceStable call (an `already sorted` early return is fine; a path that re-links in some other order — e.g. a reversed descending run — is not stable)", 1)
	f := p.FuncNamed("dt.(*List).SortQuick")
	at := "dt.(*List).SortQuick/relink-after-stable-sort"
	if f == nil {
		R.Fail("Q6b", at, "-", "not found")
		return
	}
	info := f.Info()
	fl := newFlow(f)
	var appendCalls []ast.Node
	walkNoLit(f.Body, func(x ast.Node) bool {
		if call, ok := x.(*ast.CallExpr); ok && callName(info, call) == "dt.(*Element).Append" {
			appendCalls = append(appendCalls, call)
		}
		return true
	})
	if len(appendCalls) == 0 {
		R.Undecided("Q6b", at, p.Position(f.Pos()), "SortQuick no longer re-links with Element.Append")
		return
	}
	isStable := func(n ast.Node) bool {
		hit := false
		ast.Inspect(n, func(y ast.Node) bool {
			if call, ok := y.(*ast.CallExpr); ok && callName(info, call) == "sort.SliceStable" {
				hit = true
			}
			return !hit
		})
		return hit
	}
	bad := ""
	for _, ac := range appendCalls {
		target, ok := fl.At(ac)
		if !ok {
			continue
		}
		if path, found := fl.pathToNodeAvoiding(target, isStable); found {
			bad = p.Position(ac.Pos())
			_ = path
		}
	}
	R.Check(bad == "", "Q6b", at, p.Position(f.Pos()), "every re-link is preceded by the stable sort", "SortQuick can reach the re-linking Append at "+bad+" without sort.SliceStable: on that path the order of the elements (and of equal elements among themselves) is whatever the popping produced")
}

// ruleQ9: the list producers decide "end of iteration" on the element they
// advanced to.
func ruleQ9(c *Ctx) {
	R := c.R
	p := c.P
	R.Rule("Q9", "List.Producer / ProducerReverse return io.EOF only after advancing the cursor (the end-of-ring test is made on the element advanced to; a removed element's retained links still lead on, which is what an ordered Set's iterator relies on when the last-produced member is deleted)", 2)
	for _, name := range []string{"dt.(*List).Producer", "dt.(*List).ProducerReverse"} {
		f := p.FuncNamed(name)
		if f == nil || len(f.Lits) == 0 {
			R.Fail("Q9", name, "-", "not found")
			continue
		}
		lit := f.Lits[0]
		info := lit.Info()
		fl := newFlow(lit)
		var advance ast.Node
		walkNoLit(lit.Body, func(x ast.Node) bool {
			if as, ok := x.(*ast.AssignStmt); ok && len(as.Lhs) == 1 && len(as.Rhs) == 1 {
				if call, ok := ast.Unparen(as.Rhs[0]).(*ast.CallExpr); ok {
					switch callName(info, call) {
					case "dt.(*Element).Next", "dt.(*Element).Previous":
						if advance == nil {
							advance = as
						}
					}
				}
			}
			return true
		})
		bad := ""
		walkNoLit(lit.Body, func(x ast.Node) bool {
			rs, ok := x.(*ast.ReturnStmt)
			if !ok || len(rs.Results) != 2 {
				return true
			}
			if exprStr(rs.Results[1]) == "io.EOF" && (advance == nil || !fl.Dominates(advance, rs)) {
				bad = p.Position(rs.Pos())
			}
			return true
		})
		R.Check(advance != nil && bad == "", "Q9", name+"/eof-after-advance", p.Position(f.Pos()), "every io.EOF follows the cursor advance", name+" returns io.EOF at "+bad+" before advancing the cursor: the iteration ends on the state of the element left behind (e.g. because it was removed) while members that were never visited remain")
	}
}

// ruleQ9b: the accessors the producers advance with hand out the raw link.
func ruleQ9b(c *Ctx) {
	R := c.R
	p := c.P
	R.Rule("Q9b", "Element.Next / Previous (and Item.Next) return the receiver's link field on every path that has a receiver; they do not consult membership (a removed element keeps its links precisely so that an iterator standing on it can walk on)", 2)
	for _, pr := range [][2]string{{"dt.(*Element).Next", "next"}, {"dt.(*Element).Previous", "prev"}} {
		f := p.FuncNamed(pr[0])
		at := pr[0] + "/raw-link"
		if f == nil {
			R.Fail("Q9b", at, "-", "not found")
			continue
		}
		info := f.Info()
		recv := paramObj2(f, -1)
		bad := ""
		n := 0
		walkNoLit(f.Body, func(x ast.Node) bool {
			rs, ok := x.(*ast.ReturnStmt)
			if !ok || len(rs.Results) != 1 {
				return true
			}
			n++
			r := ast.Unparen(resolveLocal(f, rs.Results[0]))
			if se, ok := r.(*ast.SelectorExpr); ok && se.Sel.Name == pr[1] {
				if id, ok := ast.Unparen(se.X).(*ast.Ident); ok && info.Uses[id] == recv {
					return true
				}
			}
			// a return for the nil receiver
			for y := p.Parent(rs); y != nil && y != ast.Node(f.Body); y = p.Parent(y) {
				if ifs, isIf := y.(*ast.IfStmt); isIf && p.inside(rs, ifs.Body) {
					if be, isBin := ast.Unparen(ifs.Cond).(*ast.BinaryExpr); isBin && be.Op == token.EQL && errNilCmpAny(info, be, recv) {
						return true
					}
				}
			}
			bad = exprStr(rs.Results[0]) + " at " + p.Position(rs.Pos())
			return true
		})
		R.Check(n > 0 && bad == "", "Q9b", at, p.Position(f.Pos()), "returns e."+pr[1], pr[0]+" returns "+bad+" instead of the receiver's "+pr[1]+" link: a producer standing on a removed element reads a nil (or other) link, reports io.EOF and the members behind it are never visited")
	}
}

// errNilCmpAny: be compares obj with nil.
func errNilCmpAny(info *types.Info, be *ast.BinaryExpr, obj types.Object) bool {
	isNil := func(e ast.Expr) bool {
		id, ok := ast.Unparen(e).(*ast.Ident)
		if !ok {
			return false
		}
		_, n := info.Uses[id].(*types.Nil)
		return n
	}
	isObj := func(e ast.Expr) bool {
		id, ok := ast.Unparen(e).(*ast.Ident)
		return ok && info.Uses[id] == obj
	}
	return (isObj(be.X) && isNil(be.Y)) || (isObj(be.Y) && isNil(be.X))
}

// ---------------------------------------------------------------- H7

// ruleH7: Merge replays every source bucket at the bucket's own representative
// value (valueFromIdx), which countsIndexFor maps back to the same bucket and
// which is never above the trackable range; any derived value (the highest
// equivalent value, a midpoint) can leave the range for the top bucket and is
// then dropped.
func ruleH7(c *Ctx) {
	R := c.R
	p := c.P
	R.Rule("H7", "Histogram.Merge records each source bucket at the iterator's valueFromIdx with the iterator's countAtIdx, and counts what RecordValues refuses as dropped", 1)
	f := p.FuncNamed("dt/hdrhist.(*Histogram).Merge")
	at := "hdrhist.(*Histogram).Merge/replay"
	if f == nil {
		R.Fail("H7", at, "-", "Merge not found")
		return
	}
	info := f.Info()
	var rec *ast.CallExpr
	walkNoLit(f.Body, func(x ast.Node) bool {
		if call, ok := x.(*ast.CallExpr); ok && callName(info, call) == "dt/hdrhist.(*Histogram).RecordValues" {
			rec = call
		}
		return true
	})
	if rec == nil || len(rec.Args) != 2 {
		R.Fail("H7", at, p.Position(f.Pos()), "Merge does not replay the source through RecordValues")
		return
	}
	field := func(e ast.Expr) string {
		if se, ok := ast.Unparen(resolveLocal(f, e)).(*ast.SelectorExpr); ok {
			return se.Sel.Name
		}
		return exprStr(e)
	}
	v, n := field(rec.Args[0]), field(rec.Args[1])
	R.Check(v == "valueFromIdx" && n == "countAtIdx", "H7", at, p.Position(rec.Pos()), "RecordValues(valueFromIdx, countAtIdx)",
		fmt.Sprintf("Merge replays a bucket as RecordValues(%s, %s): a value other than the bucket's own representative can fall outside the trackable range (or into a neighbouring bucket), so merging into an empty histogram of the same shape drops or moves counts", v, n))
}

// ---------------------------------------------------------------- Q10

// ruleQ10: a destructive producer hands out what it removed. In a producer
// literal of package dt that pops an element (PopFront/PopBack/Pop), every
// return reached after the pop either returns something read from the popped
// element, or sits in a branch whose condition tests the popped element (the
// "nothing was there" exit).
func ruleQ10(c *Ctx, floor int) {
	R := c.R
	p := c.P
	R.Rule("Q10", "a destructive producer never drops what it removed: after the pop, every return either yields a value read from the popped element or is in the branch that found the pop empty (a cancellation or error test placed after the pop loses the element)", floor)
	pops := map[string]bool{"dt.(*List).PopFront": true, "dt.(*List).PopBack": true, "dt.(*Stack).Pop": true}
	for _, f := range p.FuncsIn("dt") {
		if f.Lit == nil {
			continue
		}
		info := f.Info()
		res := f.Lit.Type.Results
		if res == nil || res.NumFields() != 2 {
			continue
		}
		var pop *ast.CallExpr
		var v types.Object
		walkNoLit(f.Body, func(x ast.Node) bool {
			as, ok := x.(*ast.AssignStmt)
			if !ok || len(as.Lhs) != 1 || len(as.Rhs) != 1 {
				return true
			}
			call, ok := ast.Unparen(as.Rhs[0]).(*ast.CallExpr)
			if !ok || !pops[callName(info, call)] {
				return true
			}
			if id, ok := as.Lhs[0].(*ast.Ident); ok && pop == nil {
				pop = call
				v = info.Uses[id]
				if v == nil {
					v = info.Defs[id]
				}
			}
			return true
		})
		if pop == nil || v == nil {
			continue
		}
		mentions := func(n ast.Node) bool {
			hit := false
			ast.Inspect(n, func(y ast.Node) bool {
				if id, ok := y.(*ast.Ident); ok && info.Uses[id] == v {
					hit = true
				}
				return !hit
			})
			return hit
		}
		fl := newFlow(f)
		from, ok := fl.At(pop)
		at := f.Name + "/after-pop"
		pos := p.Position(pop.Pos())
		if !ok {
			R.Fail("Q10", at, pos, "the pop is not a node of the control-flow graph")
			continue
		}
		bad := ""
		for _, n := range fl.reachableFrom(from) {
			rs, isRet := n.(*ast.ReturnStmt)
			if !isRet || bad != "" {
				continue
			}
			if len(rs.Results) >= 1 && mentions(rs.Results[0]) {
				continue
			}
			inEmptyBranch := false
			for y := p.Parent(rs); y != nil && y != ast.Node(f.Lit); y = p.Parent(y) {
				if ifs, isIf := y.(*ast.IfStmt); isIf && p.inside(rs, ifs.Body) && mentions(ifs.Cond) {
					inEmptyBranch = true
				}
			}
			if !inEmptyBranch {
				bad = p.Position(rs.Pos())
			}
		}
		R.Check(bad == "", "Q10", at, pos, "every return after "+exprStr(pop)+" yields the popped element or is the empty exit", fmt.Sprintf("%s: the return at %s comes after %s but neither yields the popped element nor is the empty-container exit: the element has left the container and nobody receives it", f.Name, bad, exprStr(pop)))
	}
}
