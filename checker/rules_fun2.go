package main

// Rules added after the independent seeded-change campaign (DESIGN §10), package fun:
//
//	P4  the cancel function of a worker group is never called from inside a worker
//	P5  Split hands out distinct iterators
//	V2  Validate clamps NumWorkers to at least one
//	R1  a JSON decode target is fresh per decoded element
//	F9  the worker group's error handler is reached only through the classification

import (
	"os"
	"path/filepath"
	"strconv"
	"strings"
	"fmt"
	"go/ast"
	"go/constant"
	"go/token"
	"go/types"
)

// ---------------------------------------------------------------- P4

// ruleP4: in a construct that creates a cancellable worker context and a wait
// group for its workers, the cancel function is used only (a) as the abort hook
// of the configuration, (b) after the join (a hook on wg.Operation(), or a defer
// of the construct itself, which blocks until the join), (c) under a test of the
// option error before anything started. A call from inside a worker cancels the
// siblings while they may be handing an item over: ChanSend.Write's ctx.Done()
// arm then drops that item.
func ruleP4(c *Ctx, pkgs map[string]bool, floor int) {
	R := c.R
	p := c.P
	R.Rule("P4", "the CancelFunc of a worker group's context is used only as the configuration's abort hook, in hooks that run after the group's join (wg.Operation().PostHook…, defer in the blocking construct), or under the option-error test; it is never called from a worker on a non-error path (a sibling mid hand-off would drop its item)", floor)
	for _, f := range p.Funcs {
		if f.Parent != nil && f.Decl == nil {
			// constructs live in literals too (the PreHook init of Map / GenerateParallel): handle every Func
		}
		if !pkgs[shortPkg(f.Pkg.PkgPath)] {
			continue
		}
		info := f.Info()
		// ctx, cancel := context.WithCancel(…) directly in this body
		var cancels []*types.Var
		walkNoLit(f.Body, func(x ast.Node) bool {
			as, ok := x.(*ast.AssignStmt)
			if !ok || len(as.Lhs) != 2 || len(as.Rhs) != 1 {
				return true
			}
			call, ok := ast.Unparen(as.Rhs[0]).(*ast.CallExpr)
			if !ok || callName(info, call) != "context.WithCancel" {
				return true
			}
			if id, ok := as.Lhs[1].(*ast.Ident); ok {
				if v, ok := info.Defs[id].(*types.Var); ok {
					cancels = append(cancels, v)
				} else if v, ok := info.Uses[id].(*types.Var); ok {
					cancels = append(cancels, v)
				}
			}
			return true
		})
		if len(cancels) == 0 {
			continue
		}
		// a worker group: the same body (incl. literals) hands work to a WaitGroup
		hasGroup := false
		ast.Inspect(f.Body, func(x ast.Node) bool {
			if call, ok := x.(*ast.CallExpr); ok {
				switch callName(info, call) {
				case "fun.Operation.Add", "fun.Operation.StartGroup", "fun.Worker.StartGroup", "fun.(*WaitGroup).Launch", "fun.(*WaitGroup).DoTimes":
					hasGroup = true
				}
			}
			return true
		})
		if !hasGroup {
			continue
		}
		for _, cv := range cancels {
			n := 0
			ast.Inspect(f.Body, func(x ast.Node) bool {
				id, ok := x.(*ast.Ident)
				if !ok || info.Uses[id] != cv {
					return true
				}
				n++
				at := fmt.Sprintf("%s/%s#%d", f.Name, cv.Name(), n)
				pos := p.Position(id.Pos())
				why, ok := cancelUseAccepted(p, f, info, id)
				R.Check(ok, "P4", at, pos, why, fmt.Sprintf("%s uses the group's cancel function %s: %s", f.Name, cv.Name(), why))
				return true
			})
		}
	}
}

func cancelUseAccepted(p *Prog, f *Func, info *types.Info, id *ast.Ident) (string, bool) {
	par := p.Parent(id)
	// opts.abort = cancel
	if as, ok := par.(*ast.AssignStmt); ok {
		for i, r := range as.Rhs {
			if r == ast.Expr(id) && i < len(as.Lhs) {
				if se, ok := ast.Unparen(as.Lhs[i]).(*ast.SelectorExpr); ok && se.Sel.Name == "abort" {
					return "stored as the configuration's abort hook", true
				}
			}
		}
	}
	// is the use inside a function literal nested in the construct (i.e. code that runs as a worker or a hook)?
	nested := false
	for x := p.Parent(id); x != nil && x != ast.Node(f.Body); x = p.Parent(x) {
		if _, ok := x.(*ast.FuncLit); ok {
			nested = true
		}
	}
	// walk outwards
	inLit := false
	var child ast.Node = id
	for x := par; x != nil; child, x = x, p.Parent(x) {
		switch t := x.(type) {
		case *ast.DeferStmt:
			if !nested {
				// defer cancel() in the construct itself
				if f.Body != nil && p.inside(t, f.Body) {
					return "deferred by the construct, which returns only after the join", true
				}
			}
		case *ast.CallExpr:
			name := callName(info, t)
			isArg := false
			for _, a := range t.Args {
				if a == child {
					isArg = true
				}
			}
			if isArg {
				switch name {
				case "fun.Operation.PostHook":
					if chainStartsAtGroupWait(info, recvExpr(t)) {
						return "hook on wg.Operation(): runs after every worker returned", true
					}
					return "passed to PostHook of an operation that is not the group's join", false
				case "ft.WhenCall":
					if len(t.Args) == 2 && errNilCmp(info, t.Args[0], token.NEQ) && !nested {
						return "called only when the options are invalid (before anything started)", true
					}
				case "fun.HF.ErrorHandlerWithAbort", "fun.Handlers.ErrorHandlerWithAbort":
					return "wrapped as an abort handler (fires on a recorded error only)", true
				}
			}
		case *ast.FuncLit:
			inLit = true
			// a literal that is itself the PostHook of the join
			if call, ok := p.Parent(t).(*ast.CallExpr); ok && callName(info, call) == "fun.Operation.PostHook" && chainStartsAtGroupWait(info, recvExpr(call)) {
				return "inside the hook on wg.Operation(): runs after every worker returned", true
			}
		case *ast.IfStmt:
			if child == ast.Node(t.Body) && errNilCmp(info, t.Cond, token.NEQ) && !nested {
				return "called only under err != nil in the construct", true
			}
		}
		if x == ast.Node(f.Body) {
			break
		}
	}
	if inLit {
		return "called from inside a function literal that runs as (part of) a worker: the worker cancels the shared context while its siblings may still be handing items over, and those items are dropped", false
	}
	return "called directly in the construct before the join", false
}

// chainStartsAtGroupWait: e is wg.Operation() possibly followed by further PostHook calls.
func chainStartsAtGroupWait(info *types.Info, e ast.Expr) bool {
	for {
		call, ok := ast.Unparen(e).(*ast.CallExpr)
		if !ok {
			return false
		}
		switch callName(info, call) {
		case "fun.(*WaitGroup).Operation":
			return true
		case "fun.Operation.PostHook", "fun.Operation.PreHook":
			e = recvExpr(call)
		default:
			return false
		}
	}
}

// ---------------------------------------------------------------- P5

func ruleP5(c *Ctx) {
	R := c.R
	p := c.P
	R.Rule("P5", "Iterator.Split hands out distinct iterators: the value stored in each output slot is constructed inside the loop (an Iterator carries per-consumer state — the value read by Next/Value — so one shared object loses and duplicates items between consumers)", 1)
	f := p.FuncNamed("fun.(*Iterator).Split")
	at := "fun.(*Iterator).Split/outputs"
	if f == nil {
		R.Fail("P5", at, "-", "fun.(*Iterator).Split not found")
		return
	}
	info := f.Info()
	n, bad := 0, ""
	walkNoLit(f.Body, func(x ast.Node) bool {
		as, ok := x.(*ast.AssignStmt)
		if !ok || len(as.Lhs) != 1 || len(as.Rhs) != 1 {
			return true
		}
		ix, ok := ast.Unparen(as.Lhs[0]).(*ast.IndexExpr)
		if !ok {
			return true
		}
		tv, ok := info.Types[as.Lhs[0]]
		if !ok || !typeIs(tv.Type, "fun", "Iterator") {
			return true
		}
		_ = ix
		n++
		loop := f.enclosingLoop(as)
		rhs := resolveLocal(f, as.Rhs[0])
		call, isCall := ast.Unparen(rhs).(*ast.CallExpr)
		if isCall && loop != nil && !p.inside(call, loop) {
			isCall = false // bound outside the loop: one object for every slot
		}
		switch {
		case loop == nil:
			bad = "an output slot is filled outside a loop"
		case !isCall:
			bad = fmt.Sprintf("the slot receives %s, which is not constructed in the loop: every output is the same iterator object", exprStr(as.Rhs[0]))
		default:
			switch callName(info, call) {
			case "fun.Producer.Iterator", "fun.Producer.IteratorWithHook", "fun.Generator", "fun.MakeProducer":
			default:
				bad = fmt.Sprintf("the slot receives the result of %s, not a newly built iterator", callName(info, call))
			}
		}
		return true
	})
	switch {
	case n == 0:
		R.Undecided("P5", at, p.Position(f.Pos()), "no store into a slice of iterators found in Split")
	case bad != "":
		R.Fail("P5", at, p.Position(f.Pos()), bad)
	default:
		R.OK("P5", at, p.Position(f.Pos()), "each slot gets pipe.Producer()….Iterator() built in the loop")
	}
}

// ---------------------------------------------------------------- V2

func ruleV2(c *Ctx) {
	R := c.R
	p := c.P
	R.Rule("V2", "WorkerGroupConf.Validate leaves NumWorkers >= 1 for every input (max(1, n) or an `if n < 1` clamp): with zero or negative workers Split returns nil, no worker starts and the whole input is silently dropped", 1)
	f := p.FuncNamed("fun.(*WorkerGroupConf).Validate")
	at := "fun.(*WorkerGroupConf).Validate/NumWorkers"
	if f == nil {
		R.Fail("V2", at, "-", "Validate not found")
		return
	}
	info := f.Info()
	isNW := func(e ast.Expr) bool {
		se, ok := ast.Unparen(e).(*ast.SelectorExpr)
		return ok && se.Sel.Name == "NumWorkers"
	}
	constVal := func(e ast.Expr) (int64, bool) {
		tv, ok := info.Types[e]
		if !ok || tv.Value == nil {
			return 0, false
		}
		return constant.Int64Val(constant.ToInt(tv.Value))
	}
	ok := false
	detail := "NumWorkers is not clamped"
	walkNoLit(f.Body, func(x ast.Node) bool {
		switch s := x.(type) {
		case *ast.AssignStmt:
			if len(s.Lhs) == 1 && len(s.Rhs) == 1 && isNW(s.Lhs[0]) {
				if call, isCall := ast.Unparen(s.Rhs[0]).(*ast.CallExpr); isCall && len(call.Args) == 2 {
					name := callName(info, call)
					isMax := name == "intish.Max" || isBuiltinCall(info, call, "max")
					if isMax {
						for i, a := range call.Args {
							if k, isC := constVal(a); isC && k >= 1 && isNW(call.Args[1-i]) {
								ok = true
							}
						}
					}
					if !isMax {
						detail = fmt.Sprintf("NumWorkers is set through %s, which does not bound negative values from below", exprStr(call.Fun))
					}
				}
			}
		case *ast.IfStmt:
			// if o.NumWorkers < 1 { o.NumWorkers = 1 }   (or <= 0)
			if be, isBin := ast.Unparen(s.Cond).(*ast.BinaryExpr); isBin && isNW(be.X) {
				k, isC := constVal(be.Y)
				if isC && ((be.Op == token.LSS && k == 1) || (be.Op == token.LEQ && k == 0)) {
					for _, st := range s.Body.List {
						if as, isAs := st.(*ast.AssignStmt); isAs && len(as.Lhs) == 1 && isNW(as.Lhs[0]) {
							if v, isC := constVal(as.Rhs[0]); isC && v >= 1 {
								ok = true
							}
						}
					}
				}
			}
		}
		return true
	})
	R.Check(ok, "V2", at, p.Position(f.Pos()), "NumWorkers = max(1, NumWorkers)", detail+": a negative worker count survives validation, Split(n<=0) returns nil and the construct processes nothing without reporting an error")
}

// ---------------------------------------------------------------- R1

func ruleR1(c *Ctx, pkgs map[string]bool, floor int) {
	R := c.R
	p := c.P
	R.Rule("R1", "the variable whose address is passed to a JSON decode call that runs once per element (inside a function literal or a loop body) is declared inside that literal / loop body: decoding into a reused value merges the previous element's fields, maps and slices into the next one", floor)
	for _, f := range p.Funcs {
		if !pkgs[shortPkg(f.Pkg.PkgPath)] {
			continue
		}
		info := f.Info()
		n := 0
		walkNoLit(f.Body, func(x ast.Node) bool {
			call, ok := x.(*ast.CallExpr)
			if !ok {
				return true
			}
			argIdx := -1
			switch callName(info, call) {
			case "encoding/json.Unmarshal":
				argIdx = 1
			case "encoding/json.(*Decoder).Decode":
				argIdx = 0
			}
			if argIdx < 0 || argIdx >= len(call.Args) {
				return true
			}
			ue, ok := ast.Unparen(call.Args[argIdx]).(*ast.UnaryExpr)
			if !ok || ue.Op != token.AND {
				return true
			}
			id, ok := ast.Unparen(ue.X).(*ast.Ident)
			if !ok {
				return true
			}
			v, ok := info.Uses[id].(*types.Var)
			if !ok {
				return true
			}
			// innermost repetition scope
			var scope ast.Node
			for y := p.Parent(call); y != nil && scope == nil; y = p.Parent(y) {
				switch t := y.(type) {
				case *ast.ForStmt:
					scope = t.Body
				case *ast.RangeStmt:
					scope = t.Body
				case *ast.FuncLit:
					scope = t
				case *ast.FuncDecl:
					y = nil
				}
				if y == nil {
					break
				}
			}
			if scope == nil {
				return true
			}
			n++
			at := fmt.Sprintf("%s/decode(&%s)#%d", f.Name, v.Name(), n)
			pos := p.Position(call.Pos())
			fresh := v.Pos() >= scope.Pos() && v.Pos() <= scope.End()
			R.Check(fresh, "R1", at, pos, v.Name()+" is declared inside the per-element scope",
				fmt.Sprintf("%s decodes each element into %s, which is declared outside the per-element scope (%s) and therefore reused: json.Unmarshal merges into the existing value, so null or omitted fields keep the previous element's data and maps/slices/pointers are shared between the yielded elements", f.Name, v.Name(), p.Position(v.Pos())))
			return true
		})
	}
}

// ---------------------------------------------------------------- F9

// ruleF9: who may use WorkerGroupConf.ErrorHandler.
func ruleF9(c *Ctx) {
	R := c.R
	p := c.P
	R.Rule("F9", "the worker group's ErrorHandler field is invoked only inside CanContinueOnError (after classification) and otherwise only tested for nil, assigned a default, or — tabled — handed the option-validation error; it is never passed on as a plain handler (errors such as context cancellation, skips or io.EOF would be recorded unclassified)", 4)
	var field *types.Var
	for fv, id := range p.fields {
		if id == (FieldID{"fun", "WorkerGroupConf", "ErrorHandler"}) {
			field = fv
		}
	}
	if field == nil {
		R.Fail("F9", "anchor", "-", "fun.WorkerGroupConf.ErrorHandler not found")
		return
	}
	for _, f := range p.Funcs {
		info := f.Info()
		n := 0
		walkNoLit(f.Body, func(x ast.Node) bool {
			se, ok := x.(*ast.SelectorExpr)
			if !ok {
				return true
			}
			s := info.Selections[se]
			if s == nil || s.Kind() != types.FieldVal || s.Obj().(*types.Var).Origin() != field {
				return true
			}
			n++
			at := fmt.Sprintf("%s/ErrorHandler#%d", f.Name, n)
			pos := p.Position(se.Pos())
			par := p.Parent(se)
			root := f.Root().Name
			if root == "fun.(*WorkerGroupConf).CanContinueOnError" || root == "fun.WorkerGroupConf.CanContinueOnError" {
				R.OK("F9", at, pos, "used by the classification itself")
				return true
			}
			switch t := par.(type) {
			case *ast.AssignStmt:
				for _, l := range t.Lhs {
					if l == ast.Expr(se) {
						R.OK("F9", at, pos, "assigned")
						return true
					}
				}
			case *ast.BinaryExpr:
				if isNilIdent(info, t.X) || isNilIdent(info, t.Y) {
					R.OK("F9", at, pos, "nil test")
					return true
				}
			case *ast.CallExpr:
				if t.Fun == ast.Expr(se) {
					if root == "fun.(*WorkerGroupConf).CanContinueOnError" || root == "fun.WorkerGroupConf.CanContinueOnError" {
						R.OK("F9", at, pos, "invoked by the classification")
						return true
					}
					if why, ok := f9Exceptions[root]; ok {
						R.Exception("F9", root+": "+why)
						R.OK("F9", at, pos, "tabled: "+why)
						return true
					}
					R.Fail("F9", at, pos, fmt.Sprintf("%s invokes the group's ErrorHandler directly, outside CanContinueOnError: the error is recorded without being classified", f.Name))
					return true
				}
			}
			R.Fail("F9", at, pos, fmt.Sprintf("%s passes the group's ErrorHandler on as a value (%T): whatever error reaches it is recorded unclassified — a worker loop's own context.Canceled after an abort or a caller's cancel makes the result non-nil although nothing failed", f.Name, par))
			return true
		})
	}
}

var f9Exceptions = map[string]string{
	"fun.Producer.GenerateParallel": "the option-validation error is reported through the handler before any worker exists",
}

// ---------------------------------------------------------------- D1s / D3s  (ers.Stack)

// ruleStackNode: ers.Stack is a persistent list whose head carries the count.
// Only the head's count is meaningful (nodes behind the head are pushed-down
// copies with count 0), so a node is never stored over a head wholesale, and
// every store to err/next on a head is accompanied by the count update.
func ruleStackNode(c *Ctx) {
	R := c.R
	p := c.P
	R.Rule("D1s", "no whole-node store `*p = …` into an ers.Stack (the count of the head is derived by pushing, never copied from another node: nodes behind a head carry count 0)", 1)
	R.Rule("D3s", "a function that stores err or next of an ers.Stack head also updates its count in the same block", 1)
	stores := 0
	for _, f := range p.FuncsIn("ers", "erc") {
		info := f.Info()
		n := 0
		walkNoLit(f.Body, func(x ast.Node) bool {
			as, ok := x.(*ast.AssignStmt)
			if !ok {
				return true
			}
			for _, l := range as.Lhs {
				if st, ok := ast.Unparen(l).(*ast.StarExpr); ok {
					if tv, ok := info.Types[st.X]; ok && typeIs(tv.Type, "ers", "Stack") {
						n++
						R.Fail("D1s", fmt.Sprintf("%s/store(*%s)#%d", f.Name, exprStr(st.X), n), p.Position(as.Pos()),
							fmt.Sprintf("%s overwrites a Stack node wholesale (%s = %s): the count travels with the copied node — adopting a node from behind another stack's head installs count 0, so Resolve/Len/Join report no error although errors are linked", f.Name, exprStr(l), exprStr(as.Rhs[0])))
					}
				}
				se, ok := ast.Unparen(l).(*ast.SelectorExpr)
				if !ok || (se.Sel.Name != "err" && se.Sel.Name != "next") {
					continue
				}
				tv, ok := info.Types[se.X]
				if !ok || !typeIs(tv.Type, "ers", "Stack") {
					continue
				}
				stores++
				// the enclosing block updates count
				blk, _ := p.Parent(as).(*ast.BlockStmt)
				var list []ast.Stmt
				if blk != nil {
					list = blk.List
				} else if cc, ok := p.Parent(as).(*ast.CaseClause); ok {
					list = cc.Body
				}
				counted := false
				for _, s := range list {
					switch t := s.(type) {
					case *ast.IncDecStmt:
						if cs, ok := ast.Unparen(t.X).(*ast.SelectorExpr); ok && cs.Sel.Name == "count" && exprStr(cs.X) == exprStr(se.X) {
							counted = true
						}
					case *ast.AssignStmt:
						for _, l2 := range t.Lhs {
							if cs, ok := ast.Unparen(l2).(*ast.SelectorExpr); ok && cs.Sel.Name == "count" && exprStr(cs.X) == exprStr(se.X) {
								counted = true
							}
						}
					}
				}
				R.Check(counted, "D3s", fmt.Sprintf("%s/store(%s)", f.Name, exprStr(l)), p.Position(as.Pos()), "count updated in the same block",
					fmt.Sprintf("%s stores %s without updating %s.count in the same block", f.Name, exprStr(l), exprStr(se.X)))
			}
			return true
		})
	}
	if stores == 0 {
		R.Fail("D3s", "ers.(*Stack).Push/stores", "-", "no store to Stack.err/next found: the push primitive was restructured")
	}
	R.OK("D1s", "ers+erc/no-node-store", "-", "no `*stack = …` store in packages ers and erc")
}

// ---------------------------------------------------------------- T3

// ruleT3: the consumer side of a pipe is a pure drain. Everything the
// background reader put into the channel before it failed must still come out,
// in order, before the failure is reported (the order-preserving transports of
// C02: Buffer, Split, Map's output, MergeSlices, Chain …). A combinator on the
// consumer chain that can end, thin or extend the stream on its own breaks that.
var t3Cutting = map[string]string{
	"WithErrorCheck": "reports the reader's error before the buffered elements are drained", "Once": "yields one element only", "If": "may never run", "When": "may skip reads",
	"Limit": "stops after n reads", "TTL": "repeats a cached element", "Retry": "re-reads after an error", "Filter": "drops elements", "WithoutErrors": "hides the end of the stream",
	"WithErrorFilter": "rewrites the terminating error", "Join": "appends another source", "WithCancel": "adds an independent end",
}

var t3Exceptions = map[string]string{
	"fun.Producer.Launch": "documented to surface the background producer's error as soon as it happens; not one of the order-preserving transports",
}

func ruleT3(c *Ctx, pkgs map[string]bool, floor int) {
	R := c.R
	p := c.P
	R.Rule("T3", "the consumer chain built on a pipe's Producer() contains no combinator that can end, thin or extend the stream independently of the channel (WithErrorCheck, Filter, Limit, Once, When, TTL, Retry, Join, …): what the reader sent before failing is delivered, in order, before the failure", floor)
	for _, f := range p.Funcs {
		if !pkgs[shortPkg(f.Pkg.PkgPath)] {
			continue
		}
		info := f.Info()
		n := 0
		walkNoLit(f.Body, func(x ast.Node) bool {
			call, ok := x.(*ast.CallExpr)
			if !ok {
				return true
			}
			// only the outermost call of a chain
			if par, ok := p.Parent(call).(*ast.SelectorExpr); ok && par.X == ast.Expr(call) {
				if _, isCall := p.Parent(par).(*ast.CallExpr); isCall {
					return true
				}
			}
			// walk down the chain
			var methods []string
			e := ast.Expr(call)
			fromPipe := false
			for {
				cc, ok := ast.Unparen(e).(*ast.CallExpr)
				if !ok {
					break
				}
				name := callName(info, cc)
				if name == "fun.ChanOp.Producer" || name == "fun.ChanReceive.Producer" {
					fromPipe = true
					break
				}
				if !strings.HasPrefix(name, "fun.Producer.") {
					if len(methods) > 0 || !strings.HasPrefix(name, "fun.") {
						// some other call at the top (e.g. a constructor taking the chain as argument): not a chain root
					}
					break
				}
				methods = append(methods, strings.TrimPrefix(name, "fun.Producer."))
				e = recvExpr(cc)
			}
			if !fromPipe || len(methods) == 0 {
				return true
			}
			n++
			at := fmt.Sprintf("%s/drain#%d", f.Name, n)
			pos := p.Position(call.Pos())
			if why, ok := t3Exceptions[f.Root().Name]; ok {
				R.Exception("T3", f.Root().Name+": "+why)
				R.OK("T3", at, pos, "tabled: "+why)
				return true
			}
			bad := ""
			for _, m := range methods {
				if why, cut := t3Cutting[m]; cut {
					bad = m + " (" + why + ")"
				}
			}
			R.Check(bad == "", "T3", at, pos, "chain: Producer()."+strings.Join(reverseStr(methods), "."),
				fmt.Sprintf("%s wraps the pipe's consumer side in %s: elements the background reader had already sent are not delivered (or not all, or not only they), so the buffered pipeline yields a different sequence than the unbuffered one", f.Name, bad))
			return true
		})
	}
}

func reverseStr(in []string) []string {
	out := make([]string, len(in))
	for i, s := range in {
		out[len(in)-1-i] = s
	}
	return out
}

// ---------------------------------------------------------------- X9  (ers.Stack and the errors package protocol)

func ruleX9(c *Ctx) {
	R := c.R
	p := c.P
	R.Rule("X9", "ers.Stack speaks the errors package's protocol: Is/As delegate to errors.Is/As with the head's error first and the argument second, Unwrap hands out the next node (nil at the end), and Resolve answers nil for count 0, the single error itself for count 1, the stack otherwise", 4)
	deleg := func(name, stdfn string) {
		f := p.FuncNamed("ers.(*Stack)." + name)
		at := "ers.(*Stack)." + name + "/delegates"
		if f == nil {
			R.Fail("X9", at, "-", "method not found: errors."+name+" on a joined error no longer sees the constituents")
			return
		}
		info := f.Info()
		recv := recvObject(f)
		arg := paramObj(f, 0)
		ok := false
		walkNoLit(f.Body, func(x ast.Node) bool {
			rs, isRet := x.(*ast.ReturnStmt)
			if !isRet || len(rs.Results) != 1 {
				return true
			}
			ast.Inspect(resolveLocal(f, rs.Results[0]), func(y ast.Node) bool {
				call, isCall := y.(*ast.CallExpr)
				if !isCall || callName(info, call) != stdfn || len(call.Args) != 2 {
					return true
				}
				se, isSel := ast.Unparen(resolveLocal(f, call.Args[0])).(*ast.SelectorExpr)
				id2, isId := ast.Unparen(call.Args[1]).(*ast.Ident)
				if isSel && isId && se.Sel.Name == "err" {
					if rid, ok2 := ast.Unparen(se.X).(*ast.Ident); ok2 && info.Uses[rid] == recv && info.Uses[id2] == arg {
						ok = true
					}
				}
				return true
			})
			return true
		})
		R.Check(ok, "X9", at, p.Position(f.Pos()), "return "+stdfn+"(e.err, arg)", fmt.Sprintf("Stack.%s does not return %s(e.err, <argument>): errors.%s on an aggregate no longer succeeds for a constituent that is itself wrapped (or succeeds for unrelated targets)", name, stdfn, name))
	}
	deleg("Is", "errors.Is")
	deleg("As", "errors.As")
	// Unwrap
	if f := p.FuncNamed("ers.(*Stack).Unwrap"); f != nil {
		info := f.Info()
		recv := recvObject(f)
		next, nilRet := false, false
		walkNoLit(f.Body, func(x ast.Node) bool {
			rs, isRet := x.(*ast.ReturnStmt)
			if !isRet || len(rs.Results) != 1 {
				return true
			}
			if isNilIdent(info, rs.Results[0]) {
				nilRet = true
			}
			if se, ok := ast.Unparen(resolveLocal(f, rs.Results[0])).(*ast.SelectorExpr); ok && se.Sel.Name == "next" {
				if rid, ok := ast.Unparen(se.X).(*ast.Ident); ok && info.Uses[rid] == recv {
					next = true
				}
			}
			return true
		})
		R.Check(next && nilRet, "X9", "ers.(*Stack).Unwrap/next", p.Position(f.Pos()), "returns e.next, or nil at the end", "Stack.Unwrap does not walk to the next node (or never ends): errors.Is/As stop at the newest constituent")
	} else {
		R.Fail("X9", "ers.(*Stack).Unwrap/next", "-", "method not found")
	}
	// Resolve
	if f := p.FuncNamed("ers.(*Stack).Resolve"); f != nil {
		info := f.Info()
		recv := recvObject(f)
		type arm struct{ cond, ret string }
		var arms []arm
		walkNoLit(f.Body, func(x ast.Node) bool {
			rs, ok := x.(*ast.ReturnStmt)
			if !ok || len(rs.Results) != 1 {
				return true
			}
			cond := "default"
			var child ast.Node = rs
			for par := p.Parent(rs); par != nil; child, par = par, p.Parent(par) {
				if cc, ok := par.(*ast.CaseClause); ok {
					if len(cc.List) > 0 {
						cond = exprStr(cc.List[0])
					}
					break
				}
				if ifs, ok := par.(*ast.IfStmt); ok && ast.Node(ifs.Body) == child {
					cond = exprStr(ifs.Cond)
					break
				}
				if _, ok := par.(*ast.FuncDecl); ok {
					break
				}
			}
			ret := "?"
			r := ast.Unparen(resolveLocal(f, rs.Results[0]))
			switch {
			case isNilIdent(info, r):
				ret = "nil"
			default:
				if se, ok := r.(*ast.SelectorExpr); ok && se.Sel.Name == "err" {
					ret = "err"
				} else if id, ok := r.(*ast.Ident); ok && info.Uses[id] == recv {
					ret = "stack"
				}
			}
			arms = append(arms, arm{cond, ret})
			return true
		})
		good := len(arms) == 3
		why := ""
		for _, a := range arms {
			switch a.ret {
			case "nil":
				if !strings.Contains(a.cond, "count == 0") {
					good, why = false, "nil is returned under `"+a.cond+"`"
				}
			case "err":
				if !strings.HasSuffix(a.cond, "count == 1") {
					good, why = false, "the single error is returned under `"+a.cond+"`"
				}
			case "stack":
				if a.cond != "default" {
					good, why = false, "the stack itself is returned under `"+a.cond+"`"
				}
			default:
				good, why = false, "an arm returns something else"
			}
		}
		R.Check(good, "X9", "ers.(*Stack).Resolve/table", p.Position(f.Pos()), "count 0 → nil, count 1 → the error itself, otherwise the stack", "Stack.Resolve's decision table changed ("+why+"): Join of a single plain error must return that error itself, and nil exactly when nothing was added")
	} else {
		R.Fail("X9", "ers.(*Stack).Resolve/table", "-", "method not found")
	}
}

// ---------------------------------------------------------------- P6

func ruleP6(c *Ctx, pkgs map[string]bool) {
	R := c.R
	p := c.P
	R.Rule("P6", "the library's own pipeline constructs never put a pipe into non-blocking mode (NonBlocking / NonBlockingSend / NonBlockingReceive are for callers): a non-blocking hand-off drops the item whenever the other side is not ready", 0)
	n := 0
	for _, f := range p.Funcs {
		if !pkgs[shortPkg(f.Pkg.PkgPath)] {
			continue
		}
		root := f.Root().Name
		if strings.HasPrefix(root, "fun.ChanOp.") || strings.HasPrefix(root, "fun.ChanSend.") || strings.HasPrefix(root, "fun.ChanReceive.") || root == "fun.NonBlocking" || root == "fun.NonBlockingSend" || root == "fun.NonBlockingReceive" {
			continue // the channel wrapper's own API
		}
		info := f.Info()
		walkNoLit(f.Body, func(x ast.Node) bool {
			call, ok := x.(*ast.CallExpr)
			if !ok {
				return true
			}
			switch cn := callName(info, call); cn {
			case "fun.NonBlocking", "fun.NonBlockingSend", "fun.NonBlockingReceive", "fun.ChanOp.NonBlocking":
				n++
				R.Fail("P6", fmt.Sprintf("%s/%s#%d", f.Name, cn, n), p.Position(call.Pos()), fmt.Sprintf("%s builds a non-blocking pipe (%s): an item sent while the consumer is busy is dropped without an error", f.Name, cn))
			}
			return true
		})
	}
	if n == 0 {
		R.OK("P6", "pipeline-packages/no-nonblocking-pipe", "-", "no non-blocking pipe is built outside the channel wrapper's own API")
	}
}

// ---------------------------------------------------------------- R2

// ruleR2: under the module's language version (go.mod says < 1.22) a for/range
// variable is ONE variable for the whole loop. A function literal that mentions
// it and outlives the iteration (stored, passed on, started with go/defer) sees
// the value of the last iteration.
func ruleR2(c *Ctx, pkgs map[string]bool) {
	R := c.R
	p := c.P
	R.Rule("R2", "with per-loop (pre-Go-1.22) loop variables, as selected by the go directive of go.mod, no function literal that mentions a for/range variable outlives its iteration (it may only be called on the spot or handed to a synchronous helper)", 0)
	perIteration := goVersionAtLeast(p.RepoDir, 1, 22)
	if perIteration {
		R.OK("R2", "go.mod/loopvar", "-", "go.mod selects Go >= 1.22: loop variables are per iteration")
		return
	}
	la := c.Locks()
	n := 0
	for _, f := range p.Funcs {
		if !pkgs[shortPkg(f.Pkg.PkgPath)] {
			continue
		}
		info := f.Info()
		walkNoLit(f.Body, func(x ast.Node) bool {
			var vars []types.Object
			var body *ast.BlockStmt
			switch t := x.(type) {
			case *ast.RangeStmt:
				if t.Tok == token.DEFINE {
					for _, e := range []ast.Expr{t.Key, t.Value} {
						if id, ok := e.(*ast.Ident); ok && id.Name != "_" {
							vars = append(vars, info.Defs[id])
						}
					}
				}
				body = t.Body
			case *ast.ForStmt:
				if as, ok := t.Init.(*ast.AssignStmt); ok && as.Tok == token.DEFINE {
					for _, e := range as.Lhs {
						if id, ok := e.(*ast.Ident); ok {
							vars = append(vars, info.Defs[id])
						}
					}
				}
				body = t.Body
			}
			if body == nil || len(vars) == 0 {
				return true
			}
			ast.Inspect(body, func(y ast.Node) bool {
				lit, ok := y.(*ast.FuncLit)
				if !ok {
					return true
				}
				var used types.Object
				ast.Inspect(lit.Body, func(z ast.Node) bool {
					if id, ok := z.(*ast.Ident); ok {
						for _, v := range vars {
							if v != nil && info.Uses[id] == v {
								used = v
							}
						}
					}
					return used == nil
				})
				if used == nil {
					return true
				}
				// how is the literal used?
				escapes := "stored or passed on"
				switch par := p.Parent(lit).(type) {
				case *ast.CallExpr:
					if par.Fun == ast.Expr(lit) {
						// func(){…}() — on the spot, unless started with go / deferred
						switch p.Parent(par).(type) {
						case *ast.GoStmt:
							escapes = "started with go"
						case *ast.DeferStmt:
							escapes = "deferred to the end of the function"
						default:
							return true
						}
					} else {
						for i, a := range par.Args {
							if a == ast.Expr(lit) && la.isSyncPosition(info, par, i) {
								return true // synchronous helper: runs within this iteration
							}
						}
					}
				}
				n++
				R.Fail("R2", fmt.Sprintf("%s/loopvar(%s)#%d", f.Name, used.Name(), n), p.Position(lit.Pos()),
					fmt.Sprintf("%s: a function literal that mentions the loop variable %s is %s; go.mod selects pre-1.22 semantics, so every such literal sees the last iteration's value (e.g. every joined part reads the last operand)", f.Name, used.Name(), escapes))
				return true
			})
			return true
		})
	}
	if n == 0 {
		R.OK("R2", "module/loopvar", "-", "no function literal that outlives its iteration mentions a loop variable")
	}
}

func goVersionAtLeast(repoDir string, major, minor int) bool {
	raw, err := os.ReadFile(filepath.Join(repoDir, "go.mod"))
	if err != nil {
		return false
	}
	for _, line := range strings.Split(string(raw), "\n") {
		f := strings.Fields(line)
		if len(f) == 2 && f[0] == "go" {
			parts := strings.Split(f[1], ".")
			if len(parts) >= 2 {
				ma, _ := strconv.Atoi(parts[0])
				mi, _ := strconv.Atoi(parts[1])
				return ma > major || (ma == major && mi >= minor)
			}
		}
	}
	return false
}

// ---------------------------------------------------------------- R3

// ruleR3: an operation that StartGroup / DoTimes runs in n goroutines at once
// is built only from combinators whose result closure keeps no mutable
// captured state.
func ruleR3(c *Ctx) {
	R := c.R
	p := c.P
	R.Rule("R3", "the operation handed to StartGroup / DoTimes (the same closure runs in n goroutines) is a chain of combinators whose returned literal writes no variable captured from the combinator's own body, and of literals that write no captured variable", 2)
	stateful := func(g *Func) string {
		if g == nil || g.Body == nil {
			return ""
		}
		info := g.Info()
		why := ""
		walkNoLit(g.Body, func(x ast.Node) bool {
			rs, ok := x.(*ast.ReturnStmt)
			if !ok {
				return true
			}
			for _, r := range rs.Results {
				lit, ok := ast.Unparen(r).(*ast.FuncLit)
				if !ok {
					continue
				}
				if v := writesCaptured(info, lit, g.Body.Pos()); v != "" {
					why = fmt.Sprintf("%s returns a closure that writes %s, a variable of the combinator's own body", g.Name, v)
				}
			}
			return true
		})
		return why
	}
	n := 0
	for _, f := range p.FuncsIn("fun", "itertool") {
		info := f.Info()
		walkNoLit(f.Body, func(x ast.Node) bool {
			call, ok := x.(*ast.CallExpr)
			if !ok {
				return true
			}
			switch callName(info, call) {
			case "fun.Operation.StartGroup", "fun.Worker.StartGroup", "fun.(*WaitGroup).DoTimes":
			default:
				return true
			}
			n++
			at := fmt.Sprintf("%s/group#%d", f.Name, n)
			pos := p.Position(call.Pos())
			var chain ast.Expr = recvExpr(call)
			if callName(info, call) == "fun.(*WaitGroup).DoTimes" && len(call.Args) == 3 {
				chain = call.Args[2]
			}
			bad := ""
			links := 0
			for e := chain; e != nil; {
				cc, ok := ast.Unparen(e).(*ast.CallExpr)
				if !ok {
					break
				}
				links++
				if g := p.FuncOf(calleeFunc(info, cc)); g != nil {
					if why := stateful(g); why != "" {
						bad = why
					}
				}
				for _, a := range cc.Args {
					if lit, ok := ast.Unparen(a).(*ast.FuncLit); ok {
						if v := writesCaptured(info, lit, f.Root().Body.Pos()); v != "" {
							bad = fmt.Sprintf("a literal in the chain writes the captured variable %s", v)
						}
					}
				}
				e = recvExpr(cc)
			}
			R.Check(bad == "", "R3", at, pos, fmt.Sprintf("%d combinator link(s), none keeps mutable captured state", links),
				fmt.Sprintf("%s starts one operation value in several goroutines, but %s: the workers overwrite each other's state (one item is delivered twice and another never, with the count unchanged)", f.Name, bad))
			return true
		})
	}
}

// writesCaptured: lit assigns (outside nested literals handed to sync.Once.Do)
// a variable declared before lit but at or after `from`.
func writesCaptured(info *types.Info, lit *ast.FuncLit, from token.Pos) string {
	out := ""
	ast.Inspect(lit.Body, func(x ast.Node) bool {
		var lhs []ast.Expr
		switch s := x.(type) {
		case *ast.AssignStmt:
			if s.Tok == token.DEFINE {
				// only pre-existing variables on the left of := count
			}
			lhs = s.Lhs
		case *ast.IncDecStmt:
			lhs = []ast.Expr{s.X}
		case *ast.CallExpr:
			if selName(s) == "Do" {
				return false // once.Do(func(){ … }) publishes under the Once
			}
		}
		for _, l := range lhs {
			id, ok := ast.Unparen(l).(*ast.Ident)
			if !ok {
				continue
			}
			v, ok := info.Uses[id].(*types.Var)
			if !ok || v.IsField() {
				continue
			}
			if v.Pos() >= from && v.Pos() < lit.Pos() {
				out = v.Name()
			}
		}
		return true
	})
	return out
}

// ---------------------------------------------------------------- P7

func ruleP7(c *Ctx, pkgs map[string]bool) {
	R := c.R
	p := c.P
	R.Rule("P7", "a construct that fans an iterator out with Split never closes one of the split outputs on its own: each output carries the cancel function of the context the shared reader goroutine may have been started with, so closing the first-read output ends the reader for all workers", 1)
	n := 0
	for _, f := range p.Funcs {
		if !pkgs[shortPkg(f.Pkg.PkgPath)] || f.Parent != nil {
			continue
		}
		info := f.Info()
		// variables holding the result of Split
		var splits []types.Object
		ast.Inspect(f.Body, func(x ast.Node) bool {
			as, ok := x.(*ast.AssignStmt)
			if !ok || len(as.Lhs) != 1 || len(as.Rhs) != 1 {
				return true
			}
			if call, ok := ast.Unparen(as.Rhs[0]).(*ast.CallExpr); ok && callName(info, call) == "fun.(*Iterator).Split" {
				if id, ok := as.Lhs[0].(*ast.Ident); ok {
					if o := info.Defs[id]; o != nil {
						splits = append(splits, o)
					} else if o := info.Uses[id]; o != nil {
						splits = append(splits, o)
					}
				}
			}
			return true
		})
		if len(splits) == 0 {
			continue
		}
		n++
		isSplitElem := func(e ast.Expr) bool {
			e = ast.Unparen(resolveLocal(f, e))
			if ix, ok := e.(*ast.IndexExpr); ok {
				if id, ok := ast.Unparen(ix.X).(*ast.Ident); ok {
					for _, s := range splits {
						if info.Uses[id] == s {
							return true
						}
					}
				}
			}
			return false
		}
		bad := ""
		ast.Inspect(f.Body, func(x ast.Node) bool {
			call, ok := x.(*ast.CallExpr)
			if ok && callName(info, call) == "fun.(*Iterator).Close" && isSplitElem(recvExpr(call)) {
				bad = p.Position(call.Pos())
			}
			// range value over the splits
			return true
		})
		if bad == "" {
			// for _, s := range splits { … s.Close() … }
			ast.Inspect(f.Body, func(x ast.Node) bool {
				rs, ok := x.(*ast.RangeStmt)
				if !ok {
					return true
				}
				id, ok := ast.Unparen(rs.X).(*ast.Ident)
				if !ok {
					return true
				}
				isSplits := false
				for _, s := range splits {
					if info.Uses[id] == s {
						isSplits = true
					}
				}
				vid, _ := rs.Value.(*ast.Ident)
				if !isSplits || vid == nil {
					return true
				}
				v := info.Defs[vid]
				ast.Inspect(rs.Body, func(y ast.Node) bool {
					if call, ok := y.(*ast.CallExpr); ok && callName(info, call) == "fun.(*Iterator).Close" {
						if rid, ok := ast.Unparen(recvExpr(call)).(*ast.Ident); ok && info.Uses[rid] == v {
							bad = p.Position(call.Pos())
						}
					}
					return true
				})
				return true
			})
		}
		R.Check(bad == "", "P7", f.Name+"/split-outputs", p.Position(f.Pos()), "no split output is closed individually",
			fmt.Sprintf("%s closes one split output (%s): the shared reader goroutine runs under the context of whichever output was read first, so closing that output stops the reader and the other workers see the end of the input — the rest is dropped without an error", f.Name, bad))
	}
	if n == 0 {
		R.Fail("P7", "pipeline-packages/split-users", "-", "no construct uses Split any more")
	}
}

// ---------------------------------------------------------------- X4b

func ruleX4b(c *Ctx) {
	R := c.R
	p := c.P
	R.Rule("X4b", "erc.Collector.Add drops nothing but nil: every return before the store is guarded by the nil test alone (an error is never discarded because of what it is or wraps)", 1)
	f := p.FuncNamed("erc.(*Collector).Add")
	at := "erc.(*Collector).Add/only-nil-dropped"
	if f == nil {
		R.Fail("X4b", at, "-", "not found")
		return
	}
	info := f.Info()
	bad := ""
	n := 0
	walkNoLit(f.Body, func(x ast.Node) bool {
		ifs, ok := x.(*ast.IfStmt)
		if !ok || !containsReturn(ifs.Body) {
			return true
		}
		n++
		// the condition must be exactly `err == nil`
		be, ok := ast.Unparen(ifs.Cond).(*ast.BinaryExpr)
		if !ok || be.Op != token.EQL || !errNilCmp(info, be, token.EQL) {
			bad = exprStr(ifs.Cond)
		}
		return true
	})
	R.Check(bad == "" && n >= 1, "X4b", at, p.Position(f.Pos()), "the only early return is `if err == nil`", "Collector.Add returns early under `"+bad+"`: a non-nil error (and everything joined with it) is dropped from the aggregate, so Wait/Resolve report nil or an incomplete error")
}

// ---------------------------------------------------------------- X11 / X12  (ers, internal)

func ruleX11(c *Ctx) {
	R := c.R
	p := c.P
	R.Rule("X11", "ers.Error values (compared by their text) are made from constants or from a string the caller passed verbatim, never from text the library composes at run time (fmt.Sprint/Sprintf/…): an annotation equal to a sentinel's text would satisfy errors.Is for a sentinel that was never supplied", 0)
	n := 0
	for _, f := range p.FuncsIn("ers", "erc", "fun", "internal", "itertool", "pubsub", "srv", "dt", "adt", "ft") {
		if f.Root().Name == "ers.New" {
			continue
		}
		info := f.Info()
		walkNoLit(f.Body, func(x ast.Node) bool {
			call, ok := x.(*ast.CallExpr)
			if !ok || len(call.Args) != 1 {
				return true
			}
			isNew := callName(info, call) == "ers.New"
			isConv := false
			if tv, ok := info.Types[call.Fun]; ok && tv.IsType() && typeIs(tv.Type, "ers", "Error") {
				isConv = true
			}
			if !isNew && !isConv {
				return true
			}
			if tv, ok := info.Types[call.Args[0]]; ok && tv.Value != nil {
				return true // constant text
			}
			// Error(e) applied to something that already is an ers.Error is a no-op conversion
			if tv, ok := info.Types[call.Args[0]]; ok && typeIs(tv.Type, "ers", "Error") {
				return true
			}
			// a string the caller passed in verbatim (When, ParsePanic, NewInvariantViolation …) is the caller's
			// own choice of text; the rule is about text the library composes (fmt.Sprint/Sprintf/…)
			fc, isCall := ast.Unparen(resolveLocal(f, call.Args[0])).(*ast.CallExpr)
			if !isCall {
				return true
			}
			if cn := callName(info, fc); !(strings.HasPrefix(cn, "fmt.") || strings.HasPrefix(cn, "strings.") || strings.HasPrefix(cn, "strconv.")) {
				return true
			}
			n++
			R.Fail("X11", fmt.Sprintf("%s/dynamic-ers.Error#%d", f.Name, n), p.Position(call.Pos()),
				fmt.Sprintf("%s builds an ers.Error from the run-time string %s: ers.Error compares by text, so errors.Is(result, sentinel) succeeds for every sentinel whose text happens to equal that string — an error that was never supplied is \"found\" (and IsTerminating / filters act on it)", f.Name, exprStr(call.Args[0])))
			return true
		})
	}
	if n == 0 {
		R.OK("X11", "module/no-composed-ers.Error", "-", "no ers.Error in library code is made from composed text")
	}
}

// ruleX12: internal.buffer hands sparse a scratch slice that shares no storage
// with the operand's own slice.
func ruleX12(c *Ctx) {
	R := c.R
	p := c.P
	R.Rule("X12", "internal.buffer returns a scratch slice derived from its first parameter only; the slice an error handed out from Unwrap()/Unwind() (second parameter) is never re-sliced into the append target, so unwinding never rewrites the operand", 1)
	f := p.FuncNamed("internal.buffer")
	at := "internal.buffer/no-alias"
	if f == nil {
		R.Fail("X12", at, "-", "internal.buffer not found: the unwinding helper was restructured")
		return
	}
	info := f.Info()
	operand := paramObj(f, 1)
	var rootOf func(e ast.Expr, depth int) types.Object
	rootOf = func(e ast.Expr, depth int) types.Object {
		e = ast.Unparen(e)
		switch t := e.(type) {
		case *ast.SliceExpr:
			return rootOf(t.X, depth)
		case *ast.Ident:
			return info.Uses[t]
		case *ast.CallExpr:
			if len(t.Args) > 0 {
				return rootOf(t.Args[0], depth)
			}
		}
		return nil
	}
	bad := ""
	// any assignment or return that makes the first result derive from the operand
	tainted := map[types.Object]bool{operand: true}
	walkNoLit(f.Body, func(x ast.Node) bool {
		switch t := x.(type) {
		case *ast.AssignStmt:
			for i, l := range t.Lhs {
				if i < len(t.Rhs) {
					if id, ok := ast.Unparen(l).(*ast.Ident); ok {
						o := info.Uses[id]
						if o == nil {
							o = info.Defs[id]
						}
						if o != nil && o != operand && tainted[rootOf(t.Rhs[i], 0)] {
							tainted[o] = true
						}
					}
				}
			}
		case *ast.ReturnStmt:
			if len(t.Results) >= 1 && tainted[rootOf(t.Results[0], 0)] {
				bad = exprStr(t.Results[0]) + " at " + p.Position(t.Pos())
			}
		}
		return true
	})
	R.Check(bad == "", "X12", at, p.Position(f.Pos()), "the scratch result derives from the scratch parameter", "internal.buffer returns "+bad+" as the append target: sparse() then compacts the non-nil entries inside the operand's own slice, so a multi-error that hands out its slice is rewritten by Unwind and lists a constituent twice the next time it is unwound or joined")
}

// ---------------------------------------------------------------- L6c

func ruleL6c(c *Ctx, pkgs map[string]bool) {
	R := c.R
	p := c.P
	R.Rule("L6c", "a function literal that is sent over a channel (and therefore run by another goroutine) writes no variable of the sending function", 1)
	n := 0
	for _, f := range p.Funcs {
		if !pkgs[shortPkg(f.Pkg.PkgPath)] {
			continue
		}
		info := f.Info()
		walkNoLit(f.Body, func(x ast.Node) bool {
			ss, ok := x.(*ast.SendStmt)
			if !ok {
				return true
			}
			lit, ok := ast.Unparen(ss.Value).(*ast.FuncLit)
			if !ok {
				return true
			}
			n++
			v := writesCaptured(info, lit, f.Root().Body.Pos())
			R.Check(v == "", "L6c", fmt.Sprintf("%s/sent-closure#%d", f.Name, n), p.Position(lit.Pos()), "the closure only communicates through channels / its own locals",
				fmt.Sprintf("%s sends a closure that assigns the sender's variable %s: the goroutine that receives and runs it writes %s while the sender may read it (e.g. after its context was cancelled) — a data race", f.Name, v, v))
			return true
		})
	}
	if n == 0 {
		R.OK("L6c", "module/no-sent-closures", "-", "no function literal is sent over a channel")
	}
}

// ---------------------------------------------------------------- U9  (Producer.Join's stage machine)

func ruleU9(c *Ctx) {
	R := c.R
	p := c.P
	R.Rule("U9", "in Producer.Join's stage switch a case that falls through into the next stage stores that stage first, and every case that returns a terminal error stores a terminal stage: the first producer is never consulted again once it reported io.EOF", 1)
	f := p.FuncNamed("fun.Producer.Join")
	if f == nil || len(f.Lits) == 0 {
		R.Fail("U9", "fun.Producer.Join", "-", "not found")
		return
	}
	lit := f.Lits[0]
	info := lit.Info()
	var sw *ast.SwitchStmt
	walkNoLit(lit.Body, func(x ast.Node) bool {
		if s, ok := x.(*ast.SwitchStmt); ok && s.Tag != nil && sw == nil {
			if call, ok := ast.Unparen(s.Tag).(*ast.CallExpr); ok && selName(call) == "Load" {
				sw = s
			}
		}
		return true
	})
	if sw == nil {
		R.Undecided("U9", "fun.Producer.Join/stages", p.Position(f.Pos()), "no `switch stage.Load()` in the joined producer: the state machine was restructured")
		return
	}
	clauses := sw.Body.List
	n := 0
	for i, st := range clauses {
		cc := st.(*ast.CaseClause)
		if len(cc.Body) == 0 {
			continue
		}
		if br, ok := cc.Body[len(cc.Body)-1].(*ast.BranchStmt); !ok || br.Tok != token.FALLTHROUGH || i+1 >= len(clauses) {
			continue
		}
		next := clauses[i+1].(*ast.CaseClause)
		if len(next.List) == 0 {
			continue
		}
		n++
		want := info.Uses[identOf(next.List[0])]
		stored := false
		for _, s := range cc.Body {
			ast.Inspect(s, func(y ast.Node) bool {
				if call, ok := y.(*ast.CallExpr); ok && selName(call) == "Store" && len(call.Args) == 1 {
					if id := identOf(call.Args[0]); id != nil && info.Uses[id] == want && want != nil {
						// it must not sit inside a nested loop/branch that the fall-through path can skip: top level of the case body
						if es, ok := p.Parent(call).(*ast.ExprStmt); ok {
							for _, top := range cc.Body {
								if top == ast.Stmt(es) {
									stored = true
								}
							}
						}
					}
				}
				return true
			})
		}
		R.Check(stored, "U9", fmt.Sprintf("fun.Producer.Join/fallthrough(%s)", exprStr(next.List[0])), p.Position(cc.Pos()), "stores the next stage before falling through",
			fmt.Sprintf("the case that falls through into %s does not store that stage: on the next call the joined producer runs the first part again after its io.EOF (a first part that yields again is placed after the second part's values; a counting first part is called once per output)", exprStr(next.List[0])))
	}
	if n == 0 {
		R.Fail("U9", "fun.Producer.Join/stages", p.Position(f.Pos()), "no case of the stage switch falls through: the first→second hand-over is gone")
	}
}

func identOf(e ast.Expr) *ast.Ident {
	id, _ := ast.Unparen(e).(*ast.Ident)
	return id
}

// ---------------------------------------------------------------- G3

// ruleG3: a construct that blocks until its worker group has finished (and then
// resolves the group's errors) joins the group under a context the group's own
// abort hook cannot cancel: WaitGroup.Wait returns as soon as its context ends,
// so joining under the abortable context resolves the result while in-flight
// invocations are still running (their errors and panics are lost, and the
// processing function outlives the call).
func ruleG3(c *Ctx) {
	R := c.R
	p := c.P
	R.Rule("G3", "where a construct stores the cancel function of a derived context as the group's abort hook and then joins the group before returning its result, the join is not made under that derived context (wg.Operation().Block()/Wait(), or wg.Wait with another context)", 1)
	n := 0
	for _, f := range p.FuncsIn("fun", "itertool") {
		info := f.Info()
		// ctx, cancel := context.WithCancel(…) with  opts.abort = cancel  in the same body
		var derived types.Object
		walkNoLit(f.Body, func(x ast.Node) bool {
			as, ok := x.(*ast.AssignStmt)
			if !ok || len(as.Lhs) != 2 || len(as.Rhs) != 1 {
				return true
			}
			call, ok := ast.Unparen(as.Rhs[0]).(*ast.CallExpr)
			if !ok || callName(info, call) != "context.WithCancel" {
				return true
			}
			cid, ok1 := as.Lhs[0].(*ast.Ident)
			kid, ok2 := as.Lhs[1].(*ast.Ident)
			if !ok1 || !ok2 {
				return true
			}
			cancel := info.Defs[kid]
			if cancel == nil {
				cancel = info.Uses[kid]
			}
			stored := false
			walkNoLit(f.Body, func(y ast.Node) bool {
				if a2, ok := y.(*ast.AssignStmt); ok && len(a2.Lhs) == 1 && len(a2.Rhs) == 1 {
					if se, ok := ast.Unparen(a2.Lhs[0]).(*ast.SelectorExpr); ok && se.Sel.Name == "abort" {
						if id, ok := ast.Unparen(a2.Rhs[0]).(*ast.Ident); ok && info.Uses[id] == cancel {
							stored = true
						}
					}
				}
				return true
			})
			if stored {
				derived = info.Defs[cid]
				if derived == nil {
					derived = info.Uses[cid]
				}
			}
			return true
		})
		if derived == nil {
			continue
		}
		// joins in the same body (not inside hooks started in the background: those are P2c's business)
		walkNoLit(f.Body, func(x ast.Node) bool {
			call, ok := x.(*ast.CallExpr)
			if !ok {
				return true
			}
			if _, isStmt := p.Parent(call).(*ast.ExprStmt); !isStmt {
				return true
			}
			wgExpr, isWait := isWaitCall(info, call)
			if !isWait {
				return true
			}
			n++
			at := fmt.Sprintf("%s/join(%s)", f.Name, exprStr(wgExpr))
			bad := false
			for _, a := range call.Args {
				if id, ok := ast.Unparen(a).(*ast.Ident); ok && info.Uses[id] == derived {
					bad = true
				}
			}
			R.Check(!bad, "G3", at, p.Position(call.Pos()), "joined under a context the abort hook does not cancel",
				fmt.Sprintf("%s joins its worker group with %s under %s, the context its own abort hook cancels: after the first failure (or a caller cancel) the join returns at once and the result is resolved while other invocations are still running — their errors and panics are lost and the processing function outlives the call", f.Name, exprStr(call), derived.Name()))
			return true
		})
	}
	if n == 0 {
		R.Fail("G3", "fun/blocking-constructs", "-", "no blocking construct joins its abortable worker group any more")
	}
}

// ---------------------------------------------------------------- X13

// ruleX13: two error values are never compared with == / != (unless one side
// is nil or of a concrete comparable type): if both hold the same dynamic type
// and that type is not comparable (a struct with a slice field), the comparison
// panics at run time — in CanContinueOnError that is outside WithRecover, on a
// goroutine the library started.
func ruleX13(c *Ctx, pkgs map[string]bool) {
	R := c.R
	p := c.P
	R.Rule("X13", "no == / != between two interface-typed error values in the error-handling packages (errors.Is is used instead): the comparison panics when both hold the same non-comparable dynamic type", 0)
	errT := types.Universe.Lookup("error").Type()
	n := 0
	for _, f := range p.Funcs {
		if !pkgs[shortPkg(f.Pkg.PkgPath)] {
			continue
		}
		info := f.Info()
		walkNoLit(f.Body, func(x ast.Node) bool {
			be, ok := x.(*ast.BinaryExpr)
			if !ok || (be.Op != token.EQL && be.Op != token.NEQ) {
				return true
			}
			lt, ok1 := info.Types[be.X]
			rt, ok2 := info.Types[be.Y]
			if !ok1 || !ok2 || lt.IsNil() || rt.IsNil() {
				return true
			}
			isIface := func(t types.Type) bool {
				_, ok := t.Underlying().(*types.Interface)
				return ok && types.Implements(t, errT.Underlying().(*types.Interface))
			}
			if !isIface(lt.Type) || !isIface(rt.Type) {
				return true
			}
			// comparison against a package-level sentinel variable (io.EOF, context.Canceled, …) is the classic idiom and
			// cannot panic: the sentinel's dynamic type is a comparable pointer/string type
			for _, side := range []ast.Expr{be.X, be.Y} {
				var obj types.Object
				switch t := ast.Unparen(side).(type) {
				case *ast.Ident:
					obj = info.Uses[t]
				case *ast.SelectorExpr:
					obj = info.Uses[t.Sel]
				}
				if v, ok := obj.(*types.Var); ok && v.Parent() != nil && v.Pkg() != nil && v.Parent() == v.Pkg().Scope() {
					return true
				}
			}
			n++
			R.Fail("X13", fmt.Sprintf("%s/cmp(%s)#%d", f.Name, exprStr(be), n), p.Position(be.Pos()),
				fmt.Sprintf("%s compares two error interface values with %s: when both hold the same dynamic type and it is not comparable (a struct error with a slice or map field) this panics at run time; errors.Is checks comparability first", f.Name, be.Op))
			return true
		})
	}
	if n == 0 {
		R.OK("X13", "error-packages/no-interface-compare", "-", "no two error interface values are compared with == / !=")
	}
}

// ---------------------------------------------------------------- T4

// ruleT4: the close hook of IteratorWithHook runs before the iterator's own
// context is cancelled; a hook that waits for the background worker therefore
// waits for a goroutine that is itself waiting for that cancellation.
func ruleT4(c *Ctx, pkgs map[string]bool, floor int) {
	R := c.R
	p := c.P
	R.Rule("T4", "the close hook handed to IteratorWithHook never blocks on the construct's background work (no WaitGroup wait, Operation.Wait/Block, Worker.Wait/Block inside the hook): the hook runs before the iterator's context is cancelled, so the worker it would wait for cannot have stopped yet", floor)
	for _, f := range p.Funcs {
		if !pkgs[shortPkg(f.Pkg.PkgPath)] {
			continue
		}
		info := f.Info()
		n := 0
		walkNoLit(f.Body, func(x ast.Node) bool {
			call, ok := x.(*ast.CallExpr)
			if !ok || callName(info, call) != "fun.Producer.IteratorWithHook" || len(call.Args) != 1 {
				return true
			}
			n++
			at := fmt.Sprintf("%s/close-hook#%d", f.Name, n)
			pos := p.Position(call.Pos())
			lit, ok := ast.Unparen(resolveLocal(f, call.Args[0])).(*ast.FuncLit)
			if !ok {
				R.OK("T4", at, pos, "hook is not a literal of this function ("+exprStr(call.Args[0])+")")
				return true
			}
			bad := ""
			ast.Inspect(lit.Body, func(y ast.Node) bool {
				cc, ok := y.(*ast.CallExpr)
				if !ok {
					return true
				}
				if _, isWait := isWaitCall(info, cc); isWait {
					bad = exprStr(cc)
				}
				switch callName(info, cc) {
				case "fun.Operation.Wait", "fun.Operation.Block", "fun.Worker.Wait", "fun.Worker.Block", "sync.(*WaitGroup).Wait":
					bad = exprStr(cc)
				}
				return true
			})
			R.Check(bad == "", "T4", at, pos, "the hook does not wait for background work", fmt.Sprintf("the close hook of %s blocks in %s: Close() runs the hook before it cancels the iterator's context, and the worker the hook waits for only stops on that cancellation — Close never returns and the worker leaks", f.Name, bad))
			return true
		})
	}
}

// ---------------------------------------------------------------- U10

// ruleU10: a function literal that takes a context (an Operation, Worker,
// Producer, Processor, … that a combinator returns or stores) blocks on *its
// own* context: inside its body no blocking wait is given a context captured
// from the enclosing function while the literal has a context of its own.
func ruleU10(c *Ctx, pkgs map[string]bool, floor int) {
	R := c.R
	p := c.P
	R.Rule("U10", "a returned function that takes a context waits under that context: a WaitGroup.Wait / WaitChannel / blocking Read inside a context-taking literal is never handed the enclosing function's captured context instead (the caller's cancellation and deadline would be ignored, and a start context that has ended would turn the wait into a no-op)", floor)
	for _, f := range p.Funcs {
		if f.Lit == nil || !pkgs[shortPkg(f.Pkg.PkgPath)] {
			continue
		}
		info := f.Info()
		// the literal has a context parameter of its own (named or not)
		ownIdx := -1
		var own types.Object
		i := 0
		for _, fld := range f.Lit.Type.Params.List {
			tv, ok := info.Types[fld.Type]
			isCtx := ok && typeIs(tv.Type, "context", "Context")
			if len(fld.Names) == 0 {
				if isCtx && ownIdx < 0 {
					ownIdx = i
				}
				i++
				continue
			}
			for _, nm := range fld.Names {
				if isCtx && ownIdx < 0 {
					ownIdx = i
					own = info.Defs[nm]
				}
				i++
			}
		}
		if ownIdx < 0 {
			continue
		}
		// only literals that are returned by (or are the value of) the enclosing function: the waiter shape
		if _, isRet := p.Parent(f.Lit).(*ast.ReturnStmt); !isRet {
			continue
		}
		n := 0
		walkNoLit(f.Body, func(x ast.Node) bool {
			call, ok := x.(*ast.CallExpr)
			if !ok {
				return true
			}
			if _, isWait := isWaitCall(info, call); !isWait || len(call.Args) != 1 {
				return true
			}
			n++
			at := fmt.Sprintf("%s/wait#%d", f.Name, n)
			pos := p.Position(call.Pos())
			id, isId := ast.Unparen(call.Args[0]).(*ast.Ident)
			if !isId {
				R.OK("U10", at, pos, "the wait is given "+exprStr(call.Args[0]))
				return true
			}
			o := info.Uses[id]
			captured := false
			for g := f.Parent; g != nil; g = g.Parent {
				if _, isParam := paramIndex(g, o); isParam {
					captured = true
				}
			}
			R.Check(!(captured && o != own), "U10", at, pos, "the wait runs under the literal's own context", fmt.Sprintf("%s waits under %s, the context of the enclosing %s, not under the context it is called with: once the start context has ended the waiter returns at once although the workers are still running, and the caller's own deadline is ignored", f.Name, id.Name, f.Root().Name))
			return true
		})
	}
}
