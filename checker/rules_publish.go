package main

import (
	"fmt"
	"go/ast"
	"go/types"
)

// ruleL5 — publication of write-once fields.
func ruleL5(c *Ctx) {
	R := c.R
	la := c.Locks()
	p := c.P
	R.Rule("L5w", "a write-once field (tables.go) is stored only while its owner is still private to the constructing function (allocated there, no goroutine started yet) or inside the owner's sync.Once body", 20)
	R.Rule("L5r", "a field initialised inside a sync.Once body is read only after a dominating call that runs that Once", 6)

	// functions that only ever run inside a sync.Once.Do
	onceOnly := map[*Func]bool{}
	refs := map[*Func][]ast.Node{}
	for _, f := range p.Funcs {
		info := f.Info()
		walkNoLit(f.Body, func(x ast.Node) bool {
			id, ok := x.(*ast.Ident)
			if !ok {
				return true
			}
			if fn, ok := info.Uses[id].(*types.Func); ok {
				if g := p.FuncOf(fn.Origin()); g != nil {
					var n ast.Node = id
					if se, ok := p.Parent(id).(*ast.SelectorExpr); ok && se.Sel == id {
						n = se
					}
					refs[g] = append(refs[g], n)
				}
			}
			return true
		})
	}
	isOnceArg := func(n ast.Node) bool {
		// a literal bound once to a local whose every use is the argument of sync.Once.Do
		if lit, isLit := n.(*ast.FuncLit); isLit && literalOnlyRunByOnce(p, lit) {
			return true
		}
		call, ok := p.Parent(n).(*ast.CallExpr)
		if !ok {
			return false
		}
		ef := p.EnclosingFunc(n)
		if ef == nil {
			return false
		}
		return callName(ef.Info(), call) == "sync.(*Once).Do" && len(call.Args) == 1 && call.Args[0] == n
	}
	var inOnce func(f *Func) bool
	inOnce = func(f *Func) bool {
		if f == nil {
			return false
		}
		if v, ok := onceOnly[f]; ok {
			return v
		}
		onceOnly[f] = false
		res := false
		if f.Lit != nil {
			res = isOnceArg(f.Lit) || inOnce(f.Parent)
		} else if len(refs[f]) > 0 {
			res = true
			for _, r := range refs[f] {
				if isOnceArg(r) {
					continue
				}
				// a call from inside a once-only function is fine too
				if call, ok := p.Parent(r).(*ast.CallExpr); ok && ast.Unparen(call.Fun) == r {
					if inOnce(p.EnclosingFunc(r)) {
						continue
					}
				}
				res = false
			}
		}
		onceOnly[f] = res
		return res
	}
	// a call "runs the Once": sync.Once.Do itself, or a function whose body
	// consists of such a call on its receiver's Once
	runsOnce := func(f *Func, call *ast.CallExpr) bool {
		info := f.Info()
		if callName(info, call) == "sync.(*Once).Do" {
			return true
		}
		g := p.FuncOf(calleeFunc(info, call))
		if g == nil || g.Decl == nil {
			return false
		}
		found := false
		walkNoLit(g.Body, func(x ast.Node) bool {
			if cc, ok := x.(*ast.CallExpr); ok && callName(g.Info(), cc) == "sync.(*Once).Do" {
				found = true
			}
			return true
		})
		return found && len(g.Body.List) <= 2
	}

	for _, f := range p.Funcs {
		info := f.Info()
		var fl *flow
		walkNoLit(f.Body, func(x ast.Node) bool {
			se, ok := x.(*ast.SelectorExpr)
			if !ok {
				return true
			}
			s := info.Selections[se]
			if s == nil || s.Kind() != types.FieldVal {
				return true
			}
			id, ok := p.Field(s.Obj().(*types.Var))
			if !ok {
				return true
			}
			mode, ok := writeOnce[id]
			if !ok {
				return true
			}
			at := fmt.Sprintf("%s/%s", f.Name, id.Name)
			pos := p.Position(se.Pos())
			if la.isWrite(se) {
				switch {
				case inOnce(f):
					R.OK("L5w", at+"=", pos, "stored inside the sync.Once body")
				case mode == "once":
					R.Fail("L5w", at+"=", pos, fmt.Sprintf("%s is initialised by the owner's sync.Once but is also stored here, outside it: readers that passed the Once do not synchronise with this write", id))
				default:
					ap, okp := pathOf(info, se.X)
					fresh := okp && la.freshPath(f, ap)
					goBefore := false
					ast.Inspect(f.Root().Body, func(y ast.Node) bool {
						if g, ok := y.(*ast.GoStmt); ok && g.Pos() < se.Pos() {
							goBefore = true
						}
						return true
					})
					switch {
					case !fresh:
						R.Fail("L5w", at+"=", pos, fmt.Sprintf("%s is documented write-once but is stored on an object this function did not allocate (%s): concurrent readers do not hold a lock", id, exprStr(se.X)))
					case goBefore:
						R.Fail("L5w", at+"=", pos, fmt.Sprintf("%s is stored after a goroutine was started in the same function: the store races with that goroutine's reads", id))
					default:
						R.OK("L5w", at+"=", pos, "stored on the object under construction before anything is started")
					}
				}
				return true
			}
			if mode != "once" || inOnce(f) {
				return true
			}
			// read of a once-initialised field: needs a dominating run of the Once
			if fl == nil {
				fl = newFlow(f)
			}
			dominated := false
			walkNoLit(f.Body, func(y ast.Node) bool {
				call, ok := y.(*ast.CallExpr)
				if ok && runsOnce(f, call) && call.End() <= se.Pos() && fl.Dominates(call, se) {
					dominated = true
				}
				return true
			})
			// literals: accept a dominating run in an enclosing function before the literal
			for g := f; !dominated && g.Parent != nil; g = g.Parent {
				pf := newFlow(g.Parent)
				walkNoLit(g.Parent.Body, func(y ast.Node) bool {
					call, ok := y.(*ast.CallExpr)
					if ok && runsOnce(g.Parent, call) && call.End() <= g.Lit.Pos() && pf.Dominates(call, g.Lit) {
						dominated = true
					}
					return true
				})
			}
			R.Check(dominated, "L5r", at, pos, "read after a dominating run of the Once", fmt.Sprintf("%s is read here but no call that runs the initialising sync.Once dominates the read: it may see the zero value or race with the initialiser", id))
			return true
		})
	}
}
