package main

import (
	"bufio"
	_ "embed"
	"encoding/json"
	"fmt"
	"os"
	"path/filepath"
	"sort"
	"strconv"
	"strings"
	"time"
)

type Status int

const (
	Discharged Status = iota
	Violated
	Undecided
)

func (s Status) String() string { return [...]string{"discharged", "violated", "undecided"}[s] }

// Ob is one obligation: a rule instantiated at a construct of the program.
// Obligations are keyed by rule+construct (never by line number).
type Ob struct {
	Rule   string   `json:"rule"`
	At     string   `json:"at"`
	Pos    string   `json:"pos"`
	Status string   `json:"status"`
	Detail string   `json:"detail,omitempty"`
	Path   []string `json:"path,omitempty"`
	st     Status
}

type ruleStat struct {
	Rule       string   `json:"rule"`
	Text       string   `json:"text"`
	Instances  int      `json:"instances"`
	Floor      int      `json:"floor"`
	Violated   int      `json:"violated"`
	Known      int      `json:"known"`
	Exceptions []string `json:"exceptions,omitempty"`
}

// Report collects the obligations of one property check.
type Report struct {
	Prop    string
	Tier    string
	obs     []*Ob
	seen    map[string]*Ob
	rules   map[string]*ruleStat
	order   []string
	Extra   map[string]any
	Clauses []string // decided clauses (for the explanation)
	NotCov  []string
}

func newReport(prop, tier string) *Report {
	return &Report{Prop: prop, Tier: tier, seen: map[string]*Ob{}, rules: map[string]*ruleStat{}, Extra: map[string]any{}}
}

// Rule declares a rule, its one-line statement and the floor: the number of
// instances confirmed by hand on the reference tree. Fewer instances than the
// floor fail the check (a rule that matches nothing would pass vacuously).
func (r *Report) Rule(rule, text string, floor int) {
	if fl, ok := floorTable[r.Prop][rule]; ok {
		floor = fl
	}
	if _, ok := r.rules[rule]; !ok {
		r.rules[rule] = &ruleStat{Rule: rule, Text: text, Floor: floor}
		r.order = append(r.order, rule)
	}
}

func (r *Report) Exception(rule, text string) {
	r.need(rule)
	r.rules[rule].Exceptions = append(r.rules[rule].Exceptions, text)
}

func (r *Report) need(rule string) {
	if _, ok := r.rules[rule]; !ok {
		r.Rule(rule, "", 0)
	}
}

func (r *Report) add(rule, at, pos string, st Status, detail string, path []string) {
	r.need(rule)
	key := rule + "|" + at
	if prev, ok := r.seen[key]; ok {
		// same construct reported twice: keep the worst verdict
		if st > prev.st || (st == prev.st && st != Discharged && prev.Detail == "") {
			prev.st, prev.Status, prev.Detail, prev.Path, prev.Pos = st, st.String(), detail, path, pos
		}
		return
	}
	ob := &Ob{Rule: rule, At: at, Pos: pos, Status: st.String(), Detail: detail, Path: path, st: st}
	r.seen[key] = ob
	r.obs = append(r.obs, ob)
}

func (r *Report) OK(rule, at, pos, detail string) { r.add(rule, at, pos, Discharged, detail, nil) }
func (r *Report) Fail(rule, at, pos, detail string, path ...string) {
	r.add(rule, at, pos, Violated, detail, path)
}
func (r *Report) Undecided(rule, at, pos, detail string) { r.add(rule, at, pos, Undecided, detail, nil) }

// Check is a convenience: discharged when ok, violated otherwise.
func (r *Report) Check(ok bool, rule, at, pos, okDetail, failDetail string) {
	if ok {
		r.OK(rule, at, pos, okDetail)
	} else {
		r.Fail(rule, at, pos, failDetail)
	}
}

//go:embed floors.json
var floorsJSON []byte

// floorTable[property][rule]: minimum number of instances, derived from the
// instance lists confirmed on the reference tree (tools/gen_floors.py writes
// 85% of the confirmed count so that small refactors do not trip it).
var floorTable = func() map[string]map[string]int {
	m := map[string]map[string]int{}
	_ = json.Unmarshal(floorsJSON, &m)
	return m
}()

type knownFinding struct {
	Prop, Rule, At, Text string
	used               bool
}

func loadKnown(path string) ([]*knownFinding, error) {
	f, err := os.Open(path)
	if err != nil {
		if os.IsNotExist(err) {
			return nil, nil
		}
		return nil, err
	}
	defer f.Close()
	var out []*knownFinding
	sc := bufio.NewScanner(f)
	sc.Buffer(make([]byte, 1<<20), 1<<20)
	for sc.Scan() {
		line := strings.TrimSpace(sc.Text())
		if !strings.HasPrefix(line, "finding:") {
			continue // comments and "fixed:" lines suppress nothing
		}
		rest := strings.TrimSpace(strings.TrimPrefix(line, "finding:"))
		text := ""
		if i := strings.Index(rest, " — "); i >= 0 {
			text = strings.TrimSpace(rest[i+len(" — "):])
			rest = rest[:i]
		}
		kf := &knownFinding{Text: text}
		for _, tok := range strings.Fields(rest) {
			switch {
			case strings.HasPrefix(tok, "property="):
				kf.Prop = strings.TrimPrefix(tok, "property=")
			case strings.HasPrefix(tok, "rule="):
				kf.Rule = strings.TrimPrefix(tok, "rule=")
			case strings.HasPrefix(tok, "at="):
				kf.At = strings.TrimPrefix(tok, "at=")
			}
		}
		if kf.Prop == "" || kf.Rule == "" || kf.At == "" {
			return nil, fmt.Errorf("malformed known finding: %q", line)
		}
		out = append(out, kf)
	}
	return out, sc.Err()
}

type analysed struct {
	Packages  int `json:"packages"`
	Functions int `json:"functions"`
	CFGs      int `json:"cfgs_built"`
	Blocks    int `json:"cfg_blocks"`
}

// Finish prints the verdict lines, writes the evidence file and returns the
// process exit code.
func (r *Report) Finish(verifDir string, p *Prog, start time.Time, cmdline string) int {
	known, err := loadKnown(filepath.Join(verifDir, "known-findings.txt"))
	if err != nil {
		fmt.Println("ERROR reading known-findings.txt:", err)
		return 2
	}
	// floors
	counts := map[string]int{}
	for _, ob := range r.obs {
		counts[ob.Rule]++
	}
	for _, name := range r.order {
		rs := r.rules[name]
		rs.Instances = counts[name]
		if rs.Instances < rs.Floor {
			r.Fail("FLOOR", name, "-", fmt.Sprintf("rule %s matched %d constructs, fewer than the %d confirmed on the reference tree: the anchored code was removed or changed beyond what the rule recognises", name, rs.Instances, rs.Floor))
		}
	}
	evDir := filepath.Join(verifDir, "evidence")
	replayDir := filepath.Join(evDir, "replay")
	_ = os.MkdirAll(replayDir, 0o755)
	// stale replay files of this property
	if old, _ := filepath.Glob(filepath.Join(replayDir, r.Prop+".*.json")); len(old) > 0 {
		for _, f := range old {
			_ = os.Remove(f)
		}
	}
	violations, discharged, knownN := 0, 0, 0
	var knownLines []string
	sort.SliceStable(r.obs, func(i, j int) bool { return false })
	for _, ob := range r.obs {
		if ob.st == Discharged {
			discharged++
			continue
		}
		var kf *knownFinding
		if ob.st == Violated {
			for _, k := range known {
				if k.Prop == r.Prop && k.Rule == ob.Rule && k.At == ob.At {
					kf = k
					break
				}
			}
		}
		if kf != nil {
			kf.used = true
			knownN++
			if rs := r.rules[ob.Rule]; rs != nil {
				rs.Known++
			}
			ob.Status = "known-finding"
			line := fmt.Sprintf("KNOWN-FINDING: property=%s rule=%s at=%s (%s) %s", r.Prop, ob.Rule, ob.At, ob.Pos, kf.Text)
			knownLines = append(knownLines, line)
			fmt.Println(line)
			continue
		}
		violations++
		if rs := r.rules[ob.Rule]; rs != nil {
			rs.Violated++
		}
		replay := filepath.Join(replayDir, fmt.Sprintf("%s.%d.json", r.Prop, violations))
		text := ""
		if rs := r.rules[ob.Rule]; rs != nil {
			text = rs.Text
		}
		rb, _ := json.MarshalIndent(map[string]any{"property": r.Prop, "rule": ob.Rule, "rule_text": text, "at": ob.At,
			"pos": ob.Pos, "status": ob.st.String(), "detail": ob.Detail, "path": ob.Path}, "", " ")
		_ = os.WriteFile(replay, rb, 0o644)
		fmt.Printf("VIOLATION property=%s replay=%s\n", r.Prop, replay)
		fmt.Printf("  %s %s at %s (%s): %s\n", ob.st, ob.Rule, ob.At, ob.Pos, ob.Detail)
	}
	var stale []string
	for _, k := range known {
		if k.Prop == r.Prop && !k.used {
			stale = append(stale, fmt.Sprintf("rule=%s at=%s", k.Rule, k.At))
		}
	}
	// evidence
	var rules []*ruleStat
	for _, name := range r.order {
		rules = append(rules, r.rules[name])
	}
	// samples: first obligation of each rule, plus every non-discharged one
	var samples []*Ob
	perRule := map[string]int{}
	for _, ob := range r.obs {
		if ob.st != Discharged || perRule[ob.Rule] < 2 {
			samples = append(samples, ob)
			perRule[ob.Rule]++
		}
		if len(samples) >= 60 {
			break
		}
	}
	seed, _ := strconv.Atoi(os.Getenv("VERIF_SEED"))
	expl := "Static analysis of the current /repo sources (go/packages + go/types + go/cfg; no code of the repository is executed). Decided clauses: " +
		strings.Join(r.Clauses, "; ") + ". NOT decided (out of static reach, see DESIGN.md §5): " + strings.Join(r.NotCov, "; ") + "."
	cov := map[string]any{
		"explanation":  expl,
		"obligations":  len(r.obs),
		"discharged":   discharged,
		"known":        knownN,
		"checker_cmd":  cmdline,
		"trusted_base": []string{"go/types type checker", "golang.org/x/tools v0.29.0 go/packages + go/cfg", "the hand-confirmed instance tables in checker/tables.go", "Go memory model / sync package semantics"},
		"rules":        rules,
		"samples":      samples,
		"analysed":     analysed{len(p.Pkgs), len(p.Funcs), p.cfgs, p.blocks},
		"exhaustive":   false,
	}
	if len(stale) > 0 {
		cov["stale_known_findings"] = stale
	}
	if len(knownLines) > 0 {
		cov["known_findings"] = knownLines
	}
	for k, v := range r.Extra {
		cov[k] = v
	}
	ev := map[string]any{
		"property_id": r.Prop,
		"tier":        r.Tier,
		"seed":        seed,
		"level":       "other",
		"coverage":    cov,
		"assumptions": []string{
			"lock and field identity is (owner variable, owner type, field); aliasing of two variables to one guarded object is not modelled",
			"user callbacks are opaque; sync, sync/atomic, context and channel semantics are trusted",
			"the rule decides the structural clause named in the explanation, not the behaviour as a whole",
		},
		"wall_s":     time.Since(start).Seconds(),
		"violations": violations,
	}
	b, _ := json.MarshalIndent(ev, "", " ")
	if err := os.WriteFile(filepath.Join(evDir, r.Prop+".json"), b, 0o644); err != nil {
		fmt.Println("ERROR writing evidence:", err)
		return 2
	}
	fmt.Printf("%s %s: %d obligations, %d discharged, %d known, %d violations (%d rules, %d functions, %.1fs)\n",
		r.Prop, r.Tier, len(r.obs), discharged, knownN, violations, len(r.order), len(p.Funcs), time.Since(start).Seconds())
	if violations > 0 {
		return 1
	}
	return 0
}
