package main

import (
	"fmt"
	"go/ast"
	"go/token"
	"go/types"
	"strings"

	"golang.org/x/tools/go/types/typeutil"
)

// calleeObj resolves the object called by call (function, method, builtin or
// function-typed variable) through type information.
func calleeObj(info *types.Info, call *ast.CallExpr) types.Object {
	return typeutil.Callee(info, call)
}

// calleeFunc returns the (generic origin of the) statically called function.
func calleeFunc(info *types.Info, call *ast.CallExpr) *types.Func {
	if fn, ok := typeutil.Callee(info, call).(*types.Func); ok {
		return fn.Origin()
	}
	return nil
}

// fname renders a function object as pkg.Func, pkg.T.M or pkg.(*T).M with the
// module-relative package name ("fun" for the root package).
func fname(fn *types.Func) string {
	if fn == nil {
		return ""
	}
	pkg := ""
	if fn.Pkg() != nil {
		pkg = shortPkg(fn.Pkg().Path())
	}
	sig, _ := fn.Type().(*types.Signature)
	if sig != nil && sig.Recv() != nil {
		t := sig.Recv().Type()
		ptr := false
		if pt, ok := t.(*types.Pointer); ok {
			t = pt.Elem()
			ptr = true
		}
		tn := ""
		switch nt := t.(type) {
		case *types.Named:
			tn = nt.Obj().Name()
			if nt.Obj().Pkg() != nil {
				pkg = shortPkg(nt.Obj().Pkg().Path())
			}
		case *types.Alias:
			tn = nt.Obj().Name()
		default:
			tn = types.TypeString(t, nil)
		}
		if _, isIface := t.Underlying().(*types.Interface); isIface {
			ptr = false
		}
		if ptr {
			return pkg + ".(*" + tn + ")." + fn.Name()
		}
		return pkg + "." + tn + "." + fn.Name()
	}
	return pkg + "." + fn.Name()
}

// callName is fname of the static callee of call, or "".
func callName(info *types.Info, call *ast.CallExpr) string {
	return fname(calleeFunc(info, call))
}

// isBuiltinCall reports whether call invokes the named builtin.
func isBuiltinCall(info *types.Info, call *ast.CallExpr, name string) bool {
	if id, ok := ast.Unparen(call.Fun).(*ast.Ident); ok {
		if b, ok := info.Uses[id].(*types.Builtin); ok {
			return b.Name() == name
		}
	}
	return false
}

// A path is an access expression rooted at a variable: q.mu, it.list.mtx,
// &ec.mu (address-of and dereference are transparent).
type accessPath struct {
	Root   types.Object
	Fields []*types.Var
}

func (a accessPath) Key() string {
	if a.Root == nil {
		return ""
	}
	s := fmt.Sprintf("%s@%d", a.Root.Name(), a.Root.Pos())
	for _, f := range a.Fields {
		s += "." + f.Name()
	}
	return s
}

func (a accessPath) String() string {
	if a.Root == nil {
		return "?"
	}
	s := a.Root.Name()
	for _, f := range a.Fields {
		s += "." + f.Name()
	}
	return s
}

// Prefix returns the path without its last n fields.
func (a accessPath) Prefix(n int) accessPath {
	return accessPath{a.Root, a.Fields[:len(a.Fields)-n]}
}

// pathOf decomposes an expression into root variable and field chain.
func pathOf(info *types.Info, e ast.Expr) (accessPath, bool) {
	var fields []*types.Var
	for {
		switch t := e.(type) {
		case *ast.ParenExpr:
			e = t.X
		case *ast.StarExpr:
			e = t.X
		case *ast.UnaryExpr:
			if t.Op != token.AND {
				return accessPath{}, false
			}
			e = t.X
		case *ast.SelectorExpr:
			sel := info.Selections[t]
			if sel == nil || sel.Kind() != types.FieldVal {
				// package-qualified identifier
				if obj, ok := info.Uses[t.Sel].(*types.Var); ok && sel == nil {
					return accessPath{Root: obj, Fields: rev(fields)}, true
				}
				return accessPath{}, false
			}
			fv := sel.Obj().(*types.Var).Origin()
			// embedded promotion: expand the implicit path
			if len(sel.Index()) > 1 {
				tt := sel.Recv()
				var chain []*types.Var
				for _, idx := range sel.Index() {
					if pt, ok := tt.Underlying().(*types.Pointer); ok {
						tt = pt.Elem()
					}
					st, ok := tt.Underlying().(*types.Struct)
					if !ok {
						break
					}
					f := st.Field(idx)
					chain = append(chain, f.Origin())
					tt = f.Type()
				}
				for i := len(chain) - 1; i >= 0; i-- {
					fields = append(fields, chain[i])
				}
			} else {
				fields = append(fields, fv)
			}
			e = t.X
		case *ast.Ident:
			obj := info.Uses[t]
			if obj == nil {
				obj = info.Defs[t]
			}
			if v, ok := obj.(*types.Var); ok {
				return accessPath{Root: v, Fields: rev(fields)}, true
			}
			return accessPath{}, false
		default:
			return accessPath{}, false
		}
	}
}

func rev(in []*types.Var) []*types.Var {
	out := make([]*types.Var, len(in))
	for i, v := range in {
		out[len(in)-1-i] = v
	}
	return out
}

// walkNoLit visits n without descending into function literals.
func walkNoLit(n ast.Node, fn func(ast.Node) bool) {
	ast.Inspect(n, func(x ast.Node) bool {
		if x == nil {
			return false
		}
		if _, ok := x.(*ast.FuncLit); ok && x != n {
			return false
		}
		return fn(x)
	})
}

// namedOf returns the named type behind pointers.
func namedOf(t types.Type) *types.Named {
	for {
		switch tt := t.(type) {
		case *types.Pointer:
			t = tt.Elem()
		case *types.Alias:
			t = types.Unalias(tt)
		case *types.Named:
			return tt
		default:
			return nil
		}
	}
}

// typeIs reports whether t (behind pointers) is the named type pkg.name, where
// pkg is a module-relative short name or a full path for other packages.
func typeIs(t types.Type, pkg, name string) bool {
	n := namedOf(t)
	if n == nil || n.Obj().Name() != name {
		return false
	}
	if n.Obj().Pkg() == nil {
		return pkg == ""
	}
	pp := n.Obj().Pkg().Path()
	return pp == pkg || shortPkg(pp) == pkg && strings.HasPrefix(pp, modulePath)
}

func typeName(t types.Type) string {
	n := namedOf(t)
	if n == nil {
		return types.TypeString(t, nil)
	}
	if n.Obj().Pkg() == nil {
		return n.Obj().Name()
	}
	return shortPkg(n.Obj().Pkg().Path()) + "." + n.Obj().Name()
}

// exprStr renders an expression compactly for reports.
func exprStr(e ast.Expr) string { return types.ExprString(e) }

// isNilIdent reports whether e is the predeclared nil.
func isNilIdent(info *types.Info, e ast.Expr) bool {
	id, ok := ast.Unparen(e).(*ast.Ident)
	if !ok {
		return false
	}
	_, isNil := info.Uses[id].(*types.Nil)
	return isNil
}

// usesObj reports whether the subtree n mentions obj.
func usesObj(info *types.Info, n ast.Node, obj types.Object) bool {
	found := false
	ast.Inspect(n, func(x ast.Node) bool {
		if id, ok := x.(*ast.Ident); ok && (info.Uses[id] == obj || info.Defs[id] == obj) {
			found = true
		}
		return !found
	})
	return found
}

// selName returns the method/field name of a call's selector, or "".
func selName(call *ast.CallExpr) string {
	if s, ok := ast.Unparen(call.Fun).(*ast.SelectorExpr); ok {
		return s.Sel.Name
	}
	return ""
}

// recvExpr returns the receiver expression of a method call, or nil.
func recvExpr(call *ast.CallExpr) ast.Expr {
	if s, ok := ast.Unparen(call.Fun).(*ast.SelectorExpr); ok {
		return s.X
	}
	return nil
}

// errNilCmp recognises `X != nil` / `X == nil` (anywhere inside cond) where X
// has type error; it reports which comparison was found.
func errNilCmp(info *types.Info, cond ast.Expr, op token.Token) bool {
	found := false
	ast.Inspect(cond, func(n ast.Node) bool {
		be, ok := n.(*ast.BinaryExpr)
		if !ok || be.Op != op {
			return true
		}
		for _, pair := range [][2]ast.Expr{{be.X, be.Y}, {be.Y, be.X}} {
			if !isNilIdent(info, pair[1]) {
				continue
			}
			if tv, ok := info.Types[pair[0]]; ok && tv.Type != nil && types.Identical(tv.Type, types.Universe.Lookup("error").Type()) {
				found = true
			}
		}
		return true
	})
	return found
}

// fieldNilCmp recognises `<expr>.<field> op nil` inside cond.
func fieldNilCmp(info *types.Info, cond ast.Expr, field string, op token.Token) bool {
	found := false
	ast.Inspect(cond, func(n ast.Node) bool {
		be, ok := n.(*ast.BinaryExpr)
		if !ok || be.Op != op {
			return true
		}
		for _, pair := range [][2]ast.Expr{{be.X, be.Y}, {be.Y, be.X}} {
			if se, ok := ast.Unparen(pair[0]).(*ast.SelectorExpr); ok && se.Sel.Name == field && isNilIdent(info, pair[1]) {
				found = true
			}
		}
		return true
	})
	return found
}

// resolveLocal follows a local variable to the expression it was bound to by
// its single definition (x := e), a few steps deep; other expressions are
// returned as they are. It makes the shape rules indifferent to an intermediate
// variable.
func resolveLocal(f *Func, e ast.Expr) ast.Expr {
	info := f.Info()
	for depth := 0; depth < 4; depth++ {
		id, ok := ast.Unparen(e).(*ast.Ident)
		if !ok {
			return e
		}
		v, ok := info.Uses[id].(*types.Var)
		if !ok || v.IsField() {
			return e
		}
		if _, isParam := paramIndex(f.Root(), v); isParam {
			return e
		}
		rhs := singleDef(f, v)
		if rhs == nil {
			return e
		}
		e = rhs
	}
	return e
}

// literalOnlyRunByOnce: lit is bound by `v := func…` and every use of v is the
// argument of a sync.Once.Do call (a named once body).
func literalOnlyRunByOnce(p *Prog, lit *ast.FuncLit) bool {
	as, ok := p.Parent(lit).(*ast.AssignStmt)
	if !ok || len(as.Lhs) != 1 || len(as.Rhs) != 1 {
		return false
	}
	id, ok := as.Lhs[0].(*ast.Ident)
	if !ok {
		return false
	}
	f := p.EnclosingFunc(as)
	if f == nil {
		return false
	}
	info := f.Info()
	v := info.Defs[id]
	if v == nil {
		return false
	}
	uses, guarded := 0, 0
	ast.Inspect(f.Root().Body, func(x ast.Node) bool {
		uid, ok := x.(*ast.Ident)
		if !ok || info.Uses[uid] != v {
			return true
		}
		uses++
		if call, ok := p.Parent(uid).(*ast.CallExpr); ok && callName(info, call) == "sync.(*Once).Do" && len(call.Args) == 1 && call.Args[0] == ast.Expr(uid) {
			guarded++
		}
		return true
	})
	return uses > 0 && uses == guarded
}
