package main

import (
	"go/ast"
	"go/types"

	"golang.org/x/tools/go/cfg"
)

// blockNode addresses one node of a CFG block.
type blockNode struct {
	B *cfg.Block
	I int
}

// nodeIndex maps every top-level CFG node of f to its position, and every AST
// node nested in one (outside function literals) to the CFG node holding it.
type nodeIndex struct {
	pos map[ast.Node]blockNode
}

func (f *Func) nodeIndex() *nodeIndex {
	ix := &nodeIndex{pos: map[ast.Node]blockNode{}}
	for _, b := range f.CFG().Blocks {
		for i, n := range b.Nodes {
			bn := blockNode{b, i}
			walkNoLit(n, func(x ast.Node) bool {
				if _, seen := ix.pos[x]; !seen {
					ix.pos[x] = bn
				}
				return true
			})
			// a function literal itself (not its body) belongs to the node
			ast.Inspect(n, func(x ast.Node) bool {
				if lit, ok := x.(*ast.FuncLit); ok {
					if _, seen := ix.pos[lit]; !seen {
						ix.pos[lit] = bn
					}
					return false
				}
				return true
			})
		}
	}
	return ix
}

// live reports the blocks reachable from the entry.
func liveBlocks(g *cfg.CFG) map[*cfg.Block]bool {
	live := map[*cfg.Block]bool{}
	var visit func(b *cfg.Block)
	visit = func(b *cfg.Block) {
		if live[b] {
			return
		}
		live[b] = true
		for _, s := range b.Succs {
			visit(s)
		}
	}
	if len(g.Blocks) > 0 {
		visit(g.Blocks[0])
	}
	return live
}

// dominators computes the immediate-dominator sets (as full sets; graphs are
// tiny) of the reachable blocks.
func dominators(g *cfg.CFG) map[*cfg.Block]map[*cfg.Block]bool {
	live := liveBlocks(g)
	preds := map[*cfg.Block][]*cfg.Block{}
	var blocks []*cfg.Block
	for _, b := range g.Blocks {
		if !live[b] {
			continue
		}
		blocks = append(blocks, b)
		for _, s := range b.Succs {
			preds[s] = append(preds[s], b)
		}
	}
	dom := map[*cfg.Block]map[*cfg.Block]bool{}
	entry := g.Blocks[0]
	for _, b := range blocks {
		if b == entry {
			dom[b] = map[*cfg.Block]bool{b: true}
			continue
		}
		all := map[*cfg.Block]bool{}
		for _, x := range blocks {
			all[x] = true
		}
		dom[b] = all
	}
	for changed := true; changed; {
		changed = false
		for _, b := range blocks {
			if b == entry {
				continue
			}
			var nd map[*cfg.Block]bool
			for _, p := range preds[b] {
				if nd == nil {
					nd = map[*cfg.Block]bool{}
					for k := range dom[p] {
						nd[k] = true
					}
				} else {
					for k := range nd {
						if !dom[p][k] {
							delete(nd, k)
						}
					}
				}
			}
			if nd == nil {
				nd = map[*cfg.Block]bool{}
			}
			nd[b] = true
			if len(nd) != len(dom[b]) {
				dom[b] = nd
				changed = true
			}
		}
	}
	return dom
}

// flow is a per-function helper bundling CFG, node index and dominators.
type flow struct {
	F    *Func
	G    *cfg.CFG
	Ix   *nodeIndex
	dom  map[*cfg.Block]map[*cfg.Block]bool
	live map[*cfg.Block]bool
}

func newFlow(f *Func) *flow {
	g := f.CFG()
	return &flow{F: f, G: g, Ix: f.nodeIndex(), live: liveBlocks(g)}
}

func (fl *flow) Dom() map[*cfg.Block]map[*cfg.Block]bool {
	if fl.dom == nil {
		fl.dom = dominators(fl.G)
	}
	return fl.dom
}

// At returns the CFG position of an AST node of this function.
func (fl *flow) At(n ast.Node) (blockNode, bool) {
	bn, ok := fl.Ix.pos[n]
	return bn, ok
}

// Dominates reports whether a is executed before b on every path reaching b.
func (fl *flow) Dominates(a, b ast.Node) bool {
	pa, ok1 := fl.At(a)
	pb, ok2 := fl.At(b)
	if !ok1 || !ok2 {
		return false
	}
	if pa.B == pb.B {
		return pa.I < pb.I || (pa.I == pb.I && a.Pos() <= b.Pos())
	}
	return fl.Dom()[pb.B][pa.B]
}

// isPanicExit reports whether a block without successors ends in panic (or
// another no-return call), i.e. is not a normal function exit.
func isPanicExit(info *types.Info, b *cfg.Block) bool {
	if len(b.Succs) != 0 || len(b.Nodes) == 0 {
		return false
	}
	es, ok := b.Nodes[len(b.Nodes)-1].(*ast.ExprStmt)
	if !ok {
		return false
	}
	call, ok := es.X.(*ast.CallExpr)
	if !ok {
		return false
	}
	return isBuiltinCall(info, call, "panic")
}

// pathToExitAvoiding searches for a path from just after `from` to a normal
// function exit on which no node satisfies cut. It returns the path (as node
// descriptions) when one exists. cut is evaluated on top-level CFG nodes.
func (fl *flow) pathToExitAvoiding(from blockNode, cut func(ast.Node) bool) ([]ast.Node, bool) {
	info := fl.F.Info()
	type key struct {
		b *cfg.Block
	}
	seen := map[*cfg.Block]bool{}
	var path []ast.Node
	var dfs func(b *cfg.Block, start int) bool
	dfs = func(b *cfg.Block, start int) bool {
		mark := len(path)
		for i := start; i < len(b.Nodes); i++ {
			if cut(b.Nodes[i]) {
				path = path[:mark]
				return false
			}
			path = append(path, b.Nodes[i])
		}
		if len(b.Succs) == 0 {
			if isPanicExit(info, b) {
				path = path[:mark]
				return false
			}
			return true
		}
		for _, s := range b.Succs {
			if seen[s] {
				continue
			}
			seen[s] = true
			if dfs(s, 0) {
				return true
			}
		}
		path = path[:mark]
		return false
	}
	if dfs(from.B, from.I+1) {
		return path, true
	}
	return nil, false
}

// reachableFrom lists the top-level nodes reachable after `from`.
func (fl *flow) reachableFrom(from blockNode) []ast.Node {
	var out []ast.Node
	seen := map[*cfg.Block]bool{}
	var visit func(b *cfg.Block, start int)
	visit = func(b *cfg.Block, start int) {
		for i := start; i < len(b.Nodes); i++ {
			out = append(out, b.Nodes[i])
		}
		for _, s := range b.Succs {
			if !seen[s] {
				seen[s] = true
				visit(s, 0)
			}
		}
	}
	visit(from.B, from.I+1)
	return out
}

// enclosingLoop returns the innermost for/range statement of f containing n.
func (f *Func) enclosingLoop(n ast.Node) ast.Stmt {
	p := f.Prog
	for x := p.Parent(n); x != nil; x = p.Parent(x) {
		switch t := x.(type) {
		case *ast.ForStmt:
			return t
		case *ast.RangeStmt:
			return t
		case *ast.FuncLit, *ast.FuncDecl:
			return nil
		}
	}
	return nil
}

// inside reports whether n is (transitively) inside outer.
func (p *Prog) inside(n, outer ast.Node) bool {
	for x := n; x != nil; x = p.Parent(x) {
		if x == outer {
			return true
		}
	}
	return false
}

// pathToNodeAvoiding searches for a path from the function entry to the CFG
// node `to` on which no earlier node satisfies cut.
func (fl *flow) pathToNodeAvoiding(to blockNode, cut func(ast.Node) bool) ([]ast.Node, bool) {
	if len(fl.G.Blocks) == 0 {
		return nil, false
	}
	seen := map[*cfg.Block]bool{}
	var path []ast.Node
	var dfs func(b *cfg.Block) bool
	dfs = func(b *cfg.Block) bool {
		mark := len(path)
		for i, n := range b.Nodes {
			if b == to.B && i == to.I {
				return true
			}
			if cut(n) {
				path = path[:mark]
				return false
			}
			path = append(path, n)
		}
		for _, s := range b.Succs {
			if seen[s] {
				continue
			}
			seen[s] = true
			if dfs(s) {
				return true
			}
		}
		path = path[:mark]
		return false
	}
	seen[fl.G.Blocks[0]] = true
	if dfs(fl.G.Blocks[0]) {
		return path, true
	}
	return nil, false
}
