package main

import (
	"fmt"
	"go/ast"
	"go/types"
	"strings"
)

func init() {
	propChecks["C13"] = checkC13
}

// allOwners: every owner type of the guard table (C13 covers them all).
func allOwners() map[string]bool {
	out := map[string]bool{}
	for _, g := range guardTable {
		out[g.LockOwner.Pkg+"."+g.LockOwner.Type] = true
	}
	for fn := range guardedLocals {
		out[fn] = true
	}
	return out
}

func checkC13(c *Ctx) {
	c.R.Clauses = append(c.R.Clauses,
		"L1/L2: every access to the guarded fields of Queue, Deque, WaitGroup, Collector, Synchronized, Set and of the limit/ttl closures holds the owning mutex on every path, directly or through lock-required helpers whose every call site holds it",
		"L3: closures and method values that need the mutex leave the API only wrapped in WithLock(<that mutex>)",
		"U3: every Lock/WithLock wrapper of the function types invokes the wrapped function with the mutex held",
		"L5: write-once fields are written only during construction or inside their sync.Once body",
		"L6: locals shared between goroutines (the broker's subscriber set, collectors, wait groups) are of concurrency-safe types")
	c.R.NotCov = append(c.R.NotCov, "races inside user callbacks", "sync.Map / atomic.Value internals (trusted)", "two variables aliasing one guarded object")
	lockRules(c, allOwners(), map[string]int{"L1": 60, "L2": 14, "L3": 2})
	ruleU3(c)
	ruleL3d(c)
	ruleL5(c)
	ruleL6(c, allPkgs, 15)
	ruleL6c(c, allPkgs)
	ruleOnce(c)
	ruleL4p(c, map[string]bool{"fun.WaitGroup": true, "pubsub.Queue": true, "pubsub.Deque": true, "erc.Collector": true, "dt.Set": true}, 1)
}

// ruleU3: X.WithLock(m) returns a closure whose every invocation of X happens
// with m held; X.Lock() is WithLock on a fresh mutex.
func ruleU3(c *Ctx) {
	la := c.Locks()
	R := c.R
	R.Rule("U3", "in every WithLock(m) wrapper the wrapped function is invoked only while m is held; Lock() delegates to WithLock with a mutex allocated for this wrapper", 12)
	for _, f := range c.P.Funcs {
		if f.Decl == nil || f.Decl.Recv == nil {
			continue
		}
		info := f.Info()
		name := f.Decl.Name.Name
		if name != "WithLock" && name != "Lock" {
			continue
		}
		recvObj := recvObject(f)
		if recvObj == nil {
			continue
		}
		if _, ok := recvObj.Type().Underlying().(*types.Signature); !ok {
			continue
		}
		pos := c.P.Position(f.Pos())
		if name == "Lock" {
			// body: return recv.WithLock(<fresh mutex>)
			ok := false
			detail := "body is not `return recv.WithLock(<new mutex>)`"
			walkNoLit(f.Body, func(x ast.Node) bool {
				call, isCall := x.(*ast.CallExpr)
				if !isCall || selName(call) != "WithLock" || len(call.Args) != 1 {
					return true
				}
				if id, isId := ast.Unparen(recvExpr(call)).(*ast.Ident); isId && info.Uses[id] == recvObj {
					arg := ast.Unparen(call.Args[0])
					if la.freshExpr(f, arg, 0) {
						ok = true
					} else if aid, isId := arg.(*ast.Ident); isId && la.isFresh(f, info.Uses[aid], 0) {
						ok = true
					} else {
						detail = "WithLock is not given a mutex allocated in this call: " + exprStr(arg)
					}
				}
				return true
			})
			R.Check(ok, "U3", f.Name, pos, "delegates to WithLock(fresh mutex)", detail)
			continue
		}
		// WithLock(m): find the parameter
		mobj := paramObj(f, 0)
		if mobj == nil {
			continue
		}
		calls, bad := 0, ""
		var visit func(g *Func)
		visit = func(g *Func) {
			walkNoLit(g.Body, func(x ast.Node) bool {
				call, isCall := x.(*ast.CallExpr)
				if !isCall {
					return true
				}
				target := ast.Unparen(call.Fun)
				if se, ok := target.(*ast.SelectorExpr); ok {
					// recv.Run(ctx, ...) style
					target = ast.Unparen(se.X)
					if fn := calleeFunc(info, call); fn == nil || !(la.syncParam[fn] != nil && la.syncParam[fn][-1]) {
						return true
					}
				}
				id, isId := target.(*ast.Ident)
				if !isId || info.Uses[id] != recvObj {
					return true
				}
				calls++
				st, _ := la.StateAt(g, call)
				held := false
				for k := range st {
					if ap, ok := la.keyPaths[k]; ok && ap.Root == mobj && len(ap.Fields) == 0 {
						held = true
					}
				}
				if !held {
					bad = fmt.Sprintf("wrapped function invoked at %s with lock set %s (mutex parameter not held)", c.P.Position(call.Pos()), st)
				}
				return true
			})
			for _, l := range g.Lits {
				visit(l)
			}
		}
		visit(f)
		switch {
		case calls == 0:
			R.Fail("U3", f.Name, pos, "the wrapper never invokes the wrapped function")
		case bad != "":
			R.Fail("U3", f.Name, pos, bad)
		default:
			R.OK("U3", f.Name, pos, fmt.Sprintf("%d invocation(s) of the wrapped function, all with the mutex parameter held", calls))
		}
	}
}

func recvObject(f *Func) types.Object {
	if f.Decl == nil || f.Decl.Recv == nil {
		return nil
	}
	for _, fld := range f.Decl.Recv.List {
		for _, nm := range fld.Names {
			return f.Info().Defs[nm]
		}
	}
	return nil
}

var _ = strings.Contains


var (
	pubsubOwners = map[string]bool{"pubsub.Queue": true, "pubsub.Deque": true}
	queueOwner   = map[string]bool{"pubsub.Queue": true}
	dequeOwner   = map[string]bool{"pubsub.Deque": true}
	pipePkgs     = map[string]bool{"fun": true, "itertool": true, "adt": true, "dt": true}
	allPkgs      = map[string]bool{"fun": true, "pubsub": true, "srv": true, "itertool": true, "adt": true, "dt": true, "erc": true, "ers": true, "ft": true}
)

func init() {
	propChecks["C01"] = checkC01
	propChecks["C02"] = checkC02
	propChecks["C04"] = checkC04
	propChecks["C05"] = checkC05
	propChecks["C06"] = checkC06
	propChecks["C07"] = checkC07
	propChecks["C08"] = checkC08
	propChecks["C09"] = checkC09
	propChecks["C11"] = checkC11
	propChecks["C12"] = checkC12
	propChecks["C14"] = checkC14
	propChecks["C15"] = checkC15
	propChecks["C16"] = checkC16
	propChecks["C17"] = checkC17
	propChecks["C18"] = checkC18
	propChecks["C19"] = checkC19
	propChecks["C20"] = checkC20
}

func checkC01(c *Ctx) {
	c.R.Clauses = append(c.R.Clauses,
		"P1: the reader/worker start of every fan-out/fan-in construct is Once-guarded (a second reader stealing items or closing the pipe is the loss scenario)",
		"P2: every pipe is closed only by its single sender or after the wait group that counts all of its senders, and is closed at all",
		"G2: WaitGroup.Launch/DoTimes/Add/StartGroup count a worker before it starts, Done is the deferred PostHook of the started operation",
		"X5/PS1: ChanSend.Write is the only send site; its blocking arm cannot drop an item (no default), Read's blocking arm likewise",
		"X1: every worker loop drops exactly the skipped element and goes on",
		"E8: the worker-group classification never aborts the group on a plain io.EOF or a skip (in-flight items of the other workers are not dropped)",
		"P4: a worker never cancels the group's context on a non-error path", "P5: Split's outputs are distinct iterators", "V2: validation leaves at least one worker", "P6: no pipeline construct builds a non-blocking pipe")
	c.R.NotCov = append(c.R.NotCov, "equality of the output and input multisets as values", "input order for a single worker / Buffer", "the semantics of Go channels themselves")
	ruleP1(c, pipePkgs, 11)
	ruleP2(c, pipePkgs, 15)
	ruleG2(c)
	ruleX5(c)
	rulePS1(c)
	ruleX1(c, 10)
	// the classification decides whether in-flight items survive: a plain io.EOF from one
	// worker must stop that worker only (not abort the group), skip must continue
	ruleE8(c)
	ruleP4(c, pipePkgs, 6)
	ruleP5(c)
	ruleV2(c)
	ruleP6(c, pipePkgs)
	ruleX5b(c)
	ruleX1b(c)
	ruleR3(c)
	ruleP7(c, pipePkgs)
	ruleR2(c, allPkgs)
}

func checkC02(c *Ctx) {
	c.R.Clauses = append(c.R.Clauses,
		"T1: the decision table of Iterator.ReadOne (nil→value, skip→retry, terminating→returned, other→recorded + io.EOF), close-on-error, closed-first, Next tests the flag, doClose once",
		"X1: the decision table of every producer/processor/transform/reducer loop continues on ErrIteratorSkip and never turns a nil error into a terminating one",
		"R1: JSON decoding yields a fresh value per element (no merge of the previous element into the next)",
		"T3: the consumer side of every pipe is a pure drain (no combinator that ends or thins the stream before the channel is empty)")
	c.R.NotCov = append(c.R.NotCov, "equality of the produced sequence with filter/map/concat/fold on all inputs and operator trees", "JSON round trips", "the values of Producer.Join's state machine")
	ruleT1(c)
	ruleX1(c, 10)
	ruleR1(c, allPkgs, 2)
	ruleU9(c)
	ruleT3(c, pipePkgs, 8)
	ruleX5b(c)
	ruleX1b(c)
	ruleT1c(c)
	ruleR2(c, allPkgs)
}

func checkC04(c *Ctx) {
	c.R.Clauses = append(c.R.Clauses,
		"B1: no goroutine of the pipeline packages can block on a channel without a ctx.Done()/default way out", "B2: nothing blocks while holding a mutex",
		"P1b: lazily started background work runs under the iterator's cancellable context", "P2: every pipe fed by a finite input is eventually closed (the consumer reaches io.EOF)",
		"P3: closing a derived iterator closes its upstream", "T1: Close is idempotent and only cancels (doClose under sync.Once)",
		"E8: the classification stops a worker on every context error (a cancelled generator is not retried for ever)", "W1-W8/L4 for fun.WaitGroup: the Wait that gates every pipe's close cannot miss the last Done (check and park in one critical section, Add broadcasts at zero)")
	c.R.NotCov = append(c.R.NotCov, "that user functions return", "'promptly' as a time bound", "goroutines parked in sync.Once.Do behind Buffer's Once().Go() (they unwind when the pump ends)")
	ruleB1(c, pipePkgs, 20)
	ruleB2(c, pipePkgs, 2)
	ruleP1(c, pipePkgs, 11)
	ruleP2(c, pipePkgs, 15)
	ruleP3(c)
	ruleT1(c)
	ruleT1c(c)
	ruleT4(c, pipePkgs, 5)
	ruleX5b(c)
	// the pipes are closed by wg.Operation().PostHook(close): a WaitGroup.Wait that can miss the last Done
	// leaves the output open for ever
	// a worker that sees a context error must stop: the classification table decides that
	ruleE8(c)
	wgOwner := map[string]bool{"fun.WaitGroup": true}
	condRules(c, wgOwner, map[string]int{"W1": 1, "W2": 1, "W2b": 1, "W3": 1, "W4": 2, "W6": 1, "W8": 1})
	ruleL4(c, wgOwner, 3)
}

func checkC05(c *Ctx) {
	c.R.Clauses = append(c.R.Clauses,
		"L1/L2: every access to Queue state is under q.mu", "L4: every Queue operation (and the iterator closure) is a single critical section", "D3b: a push links only after the closed test and a successful tracker.add; a removal is paired with tracker.remove",
		"X2: the three trackers account alike (+1 exactly on nil, -1 at most once)", "X6: Len is the tracker's length", "D5: link nil discipline",
		"W9: a consumer-side wait reports closed only from inside its wait loop (queued items stay removable after Close)", "D9v: the ok flag of an internal (value, ok) result is never dropped while the value is used")
	c.R.NotCov = append(c.R.NotCov, "linearizability over all histories (FIFO/real-time order)", "the credit arithmetic", "Len <= limit as a number")
	lockRules(c, queueOwner, map[string]int{"L1": 8, "L2": 4})
	ruleL4(c, queueOwner, 8)
	ruleD3dom(c, 3)
	ruleX2(c)
	ruleX6(c, "Queue")
	ruleD5(c, 2)
	ruleW9(c, queueOwner, 2)
	ruleD9v(c, map[string]bool{"pubsub": true}, 3)
	ruleQueueLinks(c)
	ruleTracker2(c)
	ruleN5(c)
	ruleCtorWiring(c)
}

func checkC06(c *Ctx) {
	c.R.Clauses = append(c.R.Clauses,
		"L1/L2/L3: every access to Deque state is under dq.mtx; iterator closures leave only wrapped in WithLock", "L4: single critical section per operation",
		"D3/D3b: links change in balanced pairs together with the tracker, after the closed test and the successful add", "D7: force push evicts exactly one item from the opposite end and only when full", "X2, X6",
		"W9/D9v: closed is reported only when there is nothing to take; a pop's ok flag is never dropped while its value is returned", "X7: a fixed Capacity is served by a tracker whose bound never changes")
	c.R.NotCov = append(c.R.NotCov, "linearizability over all histories", "'context error ⇒ no effect' on waitPop (path-sensitive)")
	lockRules(c, dequeOwner, map[string]int{"L1": 12, "L2": 6, "L3": 2})
	ruleL4(c, dequeOwner, 10)
	ruleD3(c, map[string]bool{"pubsub": true}, 3)
	ruleD3dom(c, 3)
	ruleForcePush(c)
	ruleX2(c)
	ruleX6(c, "Deque")
	ruleW9(c, dequeOwner, 1)
	ruleD9v(c, map[string]bool{"pubsub": true}, 3)
	ruleX7(c)
	ruleX10(c, "pubsub", "Deque", 8)
	ruleTracker2(c)
	ruleCtorWiring(c)
}

func checkC07(c *Ctx) {
	c.R.Clauses = append(c.R.Clauses,
		"W1/W2/W2b: every wait is a predicate loop that re-checks closed and ctx before parking and has a context watcher on the same cond",
		"W3/W6: every write of state that a wait predicate reads is followed, on every path, by a Broadcast of every cond whose waiters read it (Deque.Close, push, pop; Queue add, remove, close)",
		"W4: every notification holds the cond's locker",
		"W7: no blocking operation parks unconditionally (WaitFront on a non-empty deque)",
		"L1/L2/L4 for Queue and Deque (the predicate check and the park happen in one critical section)")
	c.R.NotCov = append(c.R.NotCov, "the value of transition guards (== 1)", "fairness", "'promptly' as a time bound")
	lockRules(c, pubsubOwners, map[string]int{"L1": 20, "L2": 8, "L3": 2})
	ruleL4(c, pubsubOwners, 18)
	condRules(c, pubsubOwners, map[string]int{"W1": 5, "W2": 5, "W2b": 5, "W3": 20, "W4": 20, "W6": 20, "W7": 2})
}

func checkC08(c *Ctx) {
	c.R.Clauses = append(c.R.Clauses,
		"K1: single writer of the subscriber set (the event-loop goroutine)", "K2: a dispatch worker never overlaps two messages and forwards exactly the received message",
		"G1: the parallel dispatch branch counts each sender before it starts and waits for them (so one worker never overlaps two messages)", "B1: every subscriber send can give up on ctx.Done()",
		"K4: the broker never receives from a subscriber's channel", "D9v: the distributor's Receive side never hands out a value whose ok flag was dropped")
	c.R.NotCov = append(c.R.NotCov, "exactly-once / ordering over subscribe-unsubscribe timing", "FIFO of the distributor", "duplicates across several workers")
	ruleBroker(c)
	ruleBroker2(c)
	ruleBroker3(c)
	ruleD9v(c, map[string]bool{"pubsub": true}, 3)
	ruleG1(c, map[string]bool{"pubsub": true}, 3)
	ruleB1(c, map[string]bool{"pubsub": true}, 30)
	// the subscriber set is read through adt.Map's iterators, once per message
	ruleP1(c, map[string]bool{"adt": true}, 1)
}

func checkC09(c *Ctx) {
	c.R.Clauses = append(c.R.Clauses,
		"B1: every broker/queue/deque channel operation can exit on its context", "B2: Broker.Wait does not hold the mutex Stop needs", "G1: event loop and workers are counted in b.wg, Wait waits on it",
		"W3/W7 on the Deque distributor: the dispatcher cannot park while the buffer is non-empty, and is woken by every push/close", "K3: Stop reaches the cancel function", "K5: the event loop closes the broker only on ErrQueueClosed/io.EOF from the distributor")
	c.R.NotCov = append(c.R.NotCov, "eventual dispatch as a liveness property over schedules", "LIFO / load-shedding semantics")
	ruleB1(c, map[string]bool{"pubsub": true}, 30)
	ruleB2(c, map[string]bool{"pubsub": true}, 2)
	ruleG1(c, map[string]bool{"pubsub": true}, 3)
	ruleBroker(c)
	ruleBroker2(c)
	condRules(c, pubsubOwners, map[string]int{"W1": 5, "W2": 5, "W2b": 5, "W3": 20, "W4": 20, "W6": 20, "W7": 2})
	// the LIFO / deque back-ends: a force push that mis-links the ring leaves the dispatcher with nothing to take
	ruleForcePush(c)
	ruleX10(c, "pubsub", "Deque", 8)
	ruleD9v(c, map[string]bool{"pubsub": true}, 3)
	ruleTracker2(c)
	// Broker.Wait and the parallel dispatch wait on a fun.WaitGroup
	wgOwner := map[string]bool{"fun.WaitGroup": true}
	condRules(c, wgOwner, map[string]int{"W1": 1, "W2": 1, "W2b": 1, "W3": 1, "W4": 2, "W6": 1, "W8": 1})
	ruleL4(c, wgOwner, 3)
}

func checkC11(c *Ctx) {
	c.R.Clauses = append(c.R.Clauses,
		"G1: every service / job goroutine of Orchestrator.Run, Group and srv.Wait is counted and awaited before the function returns", "O1: no error of Start/Wait/Run/ParallelForEach/Queue.Add is dropped in srv",
		"O2: the Cleanup service continues on error and on panic and recover-wraps every job", "O3: the orchestrator loop drains with Remove before Wait and returns after wg.Wait",
		"O4: a Run that starts member services under its own context (Group, Orchestrator) awaits them before it returns, since returning cancels that context")
	c.R.NotCov = append(c.R.NotCov, "'exactly once when accepted while the pool keeps running'", "late Add racing shutdown")
	ruleG1(c, map[string]bool{"srv": true}, 5)
	ruleSrv(c)
	ruleO4(c)
	ruleB2(c, map[string]bool{"srv": true}, 3)
	// Service.Wait (and with it Orchestrator.Wait, Group) is a fun.WaitGroup.Wait; the orchestrator's and the pools'
	// input is a pubsub.Queue whose Wait must hand out a queued service even after cancellation
	wgOwner := map[string]bool{"fun.WaitGroup": true}
	condRules(c, wgOwner, map[string]int{"W1": 1, "W2": 1, "W2b": 1, "W3": 1, "W4": 2, "W6": 1, "W8": 1})
	ruleL4(c, wgOwner, 3)
	condRules(c, queueOwner, map[string]int{"W1": 3, "W2": 3, "W2b": 3, "W3": 8, "W4": 8, "W6": 8})
	ruleW9(c, queueOwner, 2)
}

func checkC12(c *Ctx) {
	c.R.Clauses = append(c.R.Clauses,
		"L1/L3d: the Collector's stack is touched only under its mutex and no reference to it escapes", "X4: nil is never stored", "X3: one unwind preference in all three flattening sites", "F3: every ParsePanic branch carries ErrRecoveredPanic",
		"D1s/D3s: a Stack head is only ever changed by the push primitive (err, next and count together), never overwritten by a node copy",
		"X9: Stack.Is/As/Unwrap/Resolve keep to the errors package's protocol (delegation with the right argument order, next-node unwrap, nil/single/stack resolution)")
	c.R.NotCov = append(c.R.NotCov, "errors.Is/As for every constituent over all error trees", "single-error identity", "Unwind order and multiplicity")
	owners := map[string]bool{"erc.Collector": true}
	lockRules(c, owners, map[string]int{"L1": 4})
	ruleL3dFor(c, map[string]bool{"erc": true}, 4)
	ruleX4(c)
	ruleX3(c)
	ruleF3(c)
	ruleStackNode(c)
	ruleX9(c)
	ruleX4b(c)
	ruleX11(c)
	ruleX12(c)
	ruleX12b(c, "internal", "ers", "erc")
	ruleN7(c, "ers", "erc", "internal")
	ruleX13(c, map[string]bool{"ers": true, "erc": true, "internal": true})
}

func checkC14(c *Ctx) {
	c.R.Clauses = append(c.R.Clauses,
		"L1: counter and cond are only touched under mu", "W1/W2/W2b/W3/W4 for the WaitGroup cond: Add broadcasts when the counter reaches zero (the waiter's own wake condition), the watcher broadcasts on cancel under the lock",
		"V1: the invariant check dominates the store", "G2: Launch/DoTimes/Operation.Add account before they start",
		"L4: Wait checks the counter and parks in one critical section (no unlock/re-lock in between)")
	c.R.NotCov = append(c.R.NotCov, "the counter as an arithmetic sum of completed calls")
	owners := map[string]bool{"fun.WaitGroup": true}
	lockRules(c, owners, map[string]int{"L1": 4, "L2": 1})
	condRules(c, owners, map[string]int{"W1": 1, "W2": 1, "W2b": 1, "W3": 1, "W4": 2, "W6": 1})
	ruleV1(c)
	ruleV3(c)
	ruleG2(c)
	ruleL4(c, owners, 3)
	ruleL4p(c, owners, 1)
}

func checkC15(c *Ctx) {
	c.R.Clauses = append(c.R.Clauses,
		"N1: no wrapper/waiter built by a pure combinator is discarded", "U2: once-wrappers run the function only inside sync.Once.Do and read the result after it", "U3: Lock/WithLock wrappers call under the mutex",
		"U6: PreHook/PostHook/Join/merge order", "U7: Signal/Launch waiters complete only after the background execution", "U8: Retry's bounded attempt loop and per-attempt decision table", "L1 for the limit/ttl closures (incl. the premise of the lock-free fast path)")
	c.R.NotCov = append(c.R.NotCov, "Limit(n)'s count as a number", "the values Retry returns", "TTL timing")
	ruleN1(c, map[string]bool{"fun": true, "ft": true, "adt": true, "dt": true, "itertool": true, "erc": true}, 2)
	ruleU2(c)
	ruleU3(c)
	ruleU6(c)
	ruleU7(c)
	ruleU8(c)
	lockRules(c, map[string]bool{"fun.limitExec": true, "fun.ttlExec": true}, map[string]int{"L1": 2})
	ruleOnce(c)
	ruleU9(c)
	// the StartGroup / Launch waiters are WaitGroup.Wait
	wgOwner := map[string]bool{"fun.WaitGroup": true}
	condRules(c, wgOwner, map[string]int{"W1": 1, "W2": 1, "W2b": 1, "W3": 1, "W4": 2, "W6": 1, "W8": 1})
	ruleL4(c, wgOwner, 3)
	ruleU10(c, map[string]bool{"fun": true}, 1)
	// what the waiter of Launch/StartGroup waits for: every started operation is counted before it starts
	ruleG2(c)
}

func checkC16(c *Ctx) {
	c.R.Clauses = append(c.R.Clauses,
		"D1: list/stack nodes and headers are never copied by value", "D2/D2b: attach only detached elements, detach only members", "D3: forward and backward links change in pairs together with the length", "N3: no no-op relink", "D8: a container's root/head is only pointed at nodes that point back at it",
		"Q1: no traversal reads the sentinel's value", "D9: the root sentinel is never handed out", "Q3/Q4: values are written only by the node's own methods, and never into the sentinel", "Q6/Q7: sorting re-links the same elements")
	c.R.NotCov = append(c.R.NotCov, "equality with a sequence model over operation sequences", "JSON", "iterator values", "nil-receiver safety")
	dtp := map[string]bool{"dt": true}
	ruleD1(c, dtp, 20)
	ruleD2(c, 4)
	ruleD3(c, dtp, 6)
	ruleN3(c, dtp)
	ruleD8(c, dtp, 4)
	ruleQ1(c, 10)
	ruleD9(c, 20)
	ruleQ34(c, 3)
	ruleQ67(c)
	ruleD3k(c)
	ruleX10(c, "dt", "List", 4)
	ruleQ8(c)
	ruleQ9(c)
	ruleQ9b(c)
	ruleQ6b(c)
	ruleQ10(c, 3)
}

func checkC17(c *Ctx) {
	c.R.Clauses = append(c.R.Clauses,
		"only the clause 'the list remains fully usable afterwards': D1 (the sorted list is moved back, not copied over the header), D2/D3 on the re-insertion paths used by the sorts")
	c.R.NotCov = append(c.R.NotCov, "permutation, order, stability", "IsSorted's boundary behaviour", "heap order")
	dtp := map[string]bool{"dt": true}
	ruleD1In(c, dtp, 5, "cmp.go")
	ruleD2(c, 4)
	ruleD3(c, dtp, 6)
	ruleD8(c, dtp, 4)
	ruleQ1(c, 10)
	ruleQ2(c)
	ruleQ5(c, 8)
	ruleQ67(c)
	ruleQ6b(c)
}

func checkC18(c *Ctx) {
	c.R.Clauses = append(c.R.Clauses,
		"D6: index and order list change together", "L1/L2: hash and list are only touched under the set's mutex (per-variable lock identity: the other set's state needs the other set's lock)",
		"L3d/L3b: iterators over the set's state leave only wrapped in WithLock, and the map is never ranged from another goroutine", "N1: the lock wrapper is not discarded", "D1 via List",
		"D6c: sorting a set makes it ordered on every path", "D6d: Equal compares sizes before its one-directional membership walk", "Q7/Q3: the list sorts re-link the very elements the value→element index points at")
	c.R.NotCov = append(c.R.NotCov, "agreement with a reference set", "Equal's answer", "JSON round trip", "insertion order")
	owners := map[string]bool{"dt.Set": true}
	ruleD6(c, 3)
	lockRules(c, owners, map[string]int{"L1": 8, "L2": 4})
	ruleL3dFor(c, map[string]bool{"dt": true}, 10)
	ruleN1(c, map[string]bool{"dt": true}, 0)
	ruleD1In(c, map[string]bool{"dt": true}, 5, "set.go")
	ruleD6c(c)
	ruleD6d(c)
	ruleD6e(c)
	ruleL5c(c)
	ruleD6f(c)
	ruleQ9(c)
	ruleQ9b(c)
	ruleR1(c, allPkgs, 2)
	ruleQ67(c)
	ruleQ34(c, 3)
}

func checkC19(c *Ctx) {
	c.R.Clauses = append(c.R.Clauses, "H1: every writer of counts maintains totalCount", "H4: Export and Import agree on every Snapshot field",
		"H5: value arithmetic is shifted at 64 bits", "H6: Export copies the counts", "H2: Equals compares every field")
	c.R.NotCov = append(c.R.NotCov, "quantile precision", "bucket arithmetic", "reachability of the invariant panics")
	ruleH(c)
	ruleH56(c)
	ruleH2(c)
	ruleH1b(c)
	ruleH7(c)
}

func checkC20(c *Ctx) {
	c.R.Clauses = append(c.R.Clauses,
		"L1/L2/L3: the iterator closures look at link/next/prev/closed only under the lock (Deque producers leave only through WithLock)", "L4: the Queue producer decides and parks in one critical section",
		"D5: a link loaded at the tail is followed only after a nil test", "W2/W2b/W3/W6: iterators are woken by Add/Push, Close and cancellation")
	c.R.NotCov = append(c.R.NotCov, "'each exactly once, in order' under concurrent removal as a sequence property")
	lockRules(c, pubsubOwners, map[string]int{"L1": 20, "L2": 8, "L3": 2})
	ruleL4(c, pubsubOwners, 18)
	ruleD5(c, 2)
	ruleL5(c)
	ruleD12(c)
	ruleQueueLinks(c)
	ruleW9b(c)
	condRules(c, pubsubOwners, map[string]int{"W1": 5, "W2": 5, "W2b": 5, "W3": 20, "W4": 20, "W6": 20, "W7": 2})
	// the ring the Deque iterators walk: a push that mis-links it hides an element from them
	ruleForcePush(c)
	ruleX10(c, "pubsub", "Deque", 8)
}

func init() {
	propChecks["DBG"] = func(c *Ctx) {
		ruleN1(c, nil, 0)
		ruleN2(c, []FieldID{{Pkg: "fun", Type: "WorkerGroupConf"}, {Pkg: "pubsub", Type: "QueueOptions"}, {Pkg: "pubsub", Type: "DequeOptions"}, {Pkg: "pubsub", Type: "BrokerOptions"}}, 0)
		ruleU2(c)
		ruleU6(c)
		ruleU7(c)
		ruleV1(c)
		ruleL4(c, pubsubOwners, 0)
		rulePS1(c)
		ruleForcePush(c)
		ruleBroker(c)
		ruleSrv(c)
		ruleL6(c, allPkgs, 0)
		ruleD9v(c, allPkgs, 0)
		ruleW9(c, pubsubOwners, 0)
		ruleX7(c)
		ruleBroker2(c)
		ruleP4(c, pipePkgs, 0)
		ruleP5(c)
		ruleV2(c)
		ruleR1(c, allPkgs, 0)
		ruleF9(c)
		ruleD9(c, 0)
		ruleQ34(c, 0)
		ruleQ5(c, 0)
		ruleQ67(c)
		ruleD6c(c)
	}
}

// extraClauses: clauses of the probe-derived rules, appended to the evidence explanation.
var extraClauses = map[string][]string{
	"C01": {"R3/P7/R2: the operation StartGroup runs in n goroutines keeps no mutable captured state; no split output is closed on its own; no loop variable is captured by a closure that outlives its iteration", "X5b/X1b: the hand-off primitives never report success for a send/receive that did not happen, a closed pipe reads as io.EOF, and a worker loop processes a value only when the producer returned no error"},
	"C02": {"R2/U9: the parts of Join are bound per iteration and the stage machine stores the next stage before falling through", "X5b/X1b/T1c: a closed pipe reads as io.EOF (no invented zero values), the processor sees only values returned without error, Close always closes, Next stores the value it read"},
	"C04": {"X5b/T1c: ctx.Done() arms return an error (no silent success), Iterator.Close passes through doClose on every path"},
	"C05": {"X2c/X2d/X2e/N5: cap() is the bound from which add() refuses, Full is decided before NoCredit, the soft quota never drops below 1, dependent option defaults are computed in dependency order", "D10/D11/D5p: the tail pointer is reset when the last entry is unlinked, an append links from the old tail before the tail moves, popFront is only reached on a non-empty queue"},
	"C06": {"X2c/X2d/X2e on the trackers behind the deque", "X10: every *Front method works on root/root.next/dqNext and every *Back method on root.prev/dqPrev"},
	"C08": {"K2+/G1++: a failed Receive never reaches the dispatch; a sender goroutine that is a method is followed into its body", "K6/K7: Subscribe/Unsubscribe and the event loop agree on the channel roles; sendMsg is a two-arm select without default"},
	"C10": {"W1–W8 for the WaitGroup behind Service.Wait", "X4/X4b: the collector behind Wait drops nothing but nil"},
	"C09": {"X2c–X2e, D7/X10, W1–W8 for fun.WaitGroup: the back-ends and the Wait the broker relies on"},
	"C11": {"W1–W8 (fun.WaitGroup) and the Queue wait rules: Service.Wait and the input queue of the orchestrator"},
	"C12": {"X4b/X11/X12: the collector drops nothing but nil; no ers.Error from composed text; Unwind never rewrites its operand"},
	"C13": {"L6c/L7/L4p: sent closures write no sender state; adt.Once fields outside the once body are atomic; panicking critical sections unlock by defer"},
	"C14": {"V3: Done is Add(-1), Inc is Add(1)", "L4p: Add releases its mutex by defer (it can panic)"},
	"C15": {"L7/U2b/U9 and W1–W8: adt.Once, the stage machine of Join, the StartGroup waiter"},
	"C17": {"Q6b: no path re-links the popped elements without the stable sort"},
	"C16": {"Q8/Q9: what is appended was born a member; the list producers decide EOF on the element advanced to", "D3k/X10: Stack.Pop moves head, length and ownership together; List's *Front/*Back methods use the end their name says"},
	"C18": {"Q9/R1: the list iterator survives the removal of the element it stands on; JSON members decode into fresh values", "D6d/D6e: Equal compares sizes first; AddCheck inserts only after the presence test; DeleteCheck un-indexes on every path"},
	"C19": {"H7: Merge replays each bucket at its own representative value", "H2/H1b: Equals compares every field; a bucket delta is mirrored in totalCount"},
	"C20": {"W9b/L5: the Queue iterator tests closed only after resetting a stale cursor; element.list is write-once", "D10/D11/D5p on the Queue's links (the iterator's `next != q.back` test relies on the tail reset)"},
}

// extraRules: rules attached to a property after its main check function (used where the
// check function lives in another file).
var extraRules = map[string]func(*Ctx){
	"C10": func(c *Ctx) {
		// "errors complete": the service's collector keeps every non-nil error it is given
		ruleX4b(c)
		ruleX4(c)
	},
}
