package main

import (
	"fmt"
	"go/ast"
	"go/types"
	"strings"
)

func init() {
	propChecks["C13"] = checkC13
}

// allOwners: every owner type of the guard table (C13 covers them all).
func allOwners() map[string]bool {
	out := map[string]bool{}
	for _, g := range guardTable {
		out[g.LockOwner.Pkg+"."+g.LockOwner.Type] = true
	}
	for fn := range guardedLocals {
		out[fn] = true
	}
	return out
}

func checkC13(c *Ctx) {
	c.R.Clauses = append(c.R.Clauses,
		"L1/L2: every access to the guarded fields of Queue, Deque, WaitGroup, Collector, Synchronized, Set and of the limit/ttl closures holds the owning mutex on every path, directly or through lock-required helpers whose every call site holds it",
		"L3: closures and method values that need the mutex leave the API only wrapped in WithLock(<that mutex>)",
		"U3: every Lock/WithLock wrapper of the function types invokes the wrapped function with the mutex held",
		"L5: write-once fields are written only during construction or inside their sync.Once body")
	c.R.NotCov = append(c.R.NotCov, "races inside user callbacks", "sync.Map / atomic.Value internals (trusted)", "two variables aliasing one guarded object")
	lockRules(c, allOwners(), map[string]int{"L1": 60, "L2": 14, "L3": 2})
	ruleU3(c)
	ruleL3d(c)
	ruleL5(c)
}

// ruleU3: X.WithLock(m) returns a closure whose every invocation of X happens
// with m held; X.Lock() is WithLock on a fresh mutex.
func ruleU3(c *Ctx) {
	la := c.Locks()
	R := c.R
	R.Rule("U3", "in every WithLock(m) wrapper the wrapped function is invoked only while m is held; Lock() delegates to WithLock with a mutex allocated for this wrapper", 12)
	for _, f := range c.P.Funcs {
		if f.Decl == nil || f.Decl.Recv == nil {
			continue
		}
		info := f.Info()
		name := f.Decl.Name.Name
		if name != "WithLock" && name != "Lock" {
			continue
		}
		recvObj := recvObject(f)
		if recvObj == nil {
			continue
		}
		if _, ok := recvObj.Type().Underlying().(*types.Signature); !ok {
			continue
		}
		pos := c.P.Position(f.Pos())
		if name == "Lock" {
			// body: return recv.WithLock(<fresh mutex>)
			ok := false
			detail := "body is not `return recv.WithLock(<new mutex>)`"
			walkNoLit(f.Body, func(x ast.Node) bool {
				call, isCall := x.(*ast.CallExpr)
				if !isCall || selName(call) != "WithLock" || len(call.Args) != 1 {
					return true
				}
				if id, isId := ast.Unparen(recvExpr(call)).(*ast.Ident); isId && info.Uses[id] == recvObj {
					arg := ast.Unparen(call.Args[0])
					if la.freshExpr(f, arg, 0) {
						ok = true
					} else if aid, isId := arg.(*ast.Ident); isId && la.isFresh(f, info.Uses[aid], 0) {
						ok = true
					} else {
						detail = "WithLock is not given a mutex allocated in this call: " + exprStr(arg)
					}
				}
				return true
			})
			R.Check(ok, "U3", f.Name, pos, "delegates to WithLock(fresh mutex)", detail)
			continue
		}
		// WithLock(m): find the parameter
		mobj := paramObj(f, 0)
		if mobj == nil {
			continue
		}
		calls, bad := 0, ""
		var visit func(g *Func)
		visit = func(g *Func) {
			walkNoLit(g.Body, func(x ast.Node) bool {
				call, isCall := x.(*ast.CallExpr)
				if !isCall {
					return true
				}
				target := ast.Unparen(call.Fun)
				if se, ok := target.(*ast.SelectorExpr); ok {
					// recv.Run(ctx, ...) style
					target = ast.Unparen(se.X)
					if fn := calleeFunc(info, call); fn == nil || !(la.syncParam[fn] != nil && la.syncParam[fn][-1]) {
						return true
					}
				}
				id, isId := target.(*ast.Ident)
				if !isId || info.Uses[id] != recvObj {
					return true
				}
				calls++
				st, _ := la.StateAt(g, call)
				held := false
				for k := range st {
					if ap, ok := la.keyPaths[k]; ok && ap.Root == mobj && len(ap.Fields) == 0 {
						held = true
					}
				}
				if !held {
					bad = fmt.Sprintf("wrapped function invoked at %s with lock set %s (mutex parameter not held)", c.P.Position(call.Pos()), st)
				}
				return true
			})
			for _, l := range g.Lits {
				visit(l)
			}
		}
		visit(f)
		switch {
		case calls == 0:
			R.Fail("U3", f.Name, pos, "the wrapper never invokes the wrapped function")
		case bad != "":
			R.Fail("U3", f.Name, pos, bad)
		default:
			R.OK("U3", f.Name, pos, fmt.Sprintf("%d invocation(s) of the wrapped function, all with the mutex parameter held", calls))
		}
	}
}

func recvObject(f *Func) types.Object {
	if f.Decl == nil || f.Decl.Recv == nil {
		return nil
	}
	for _, fld := range f.Decl.Recv.List {
		for _, nm := range fld.Names {
			return f.Info().Defs[nm]
		}
	}
	return nil
}

var _ = strings.Contains

func init() {
	propChecks["C07"] = checkC07
	propChecks["C14"] = checkC14
}

var pubsubOwners = map[string]bool{"pubsub.Queue": true, "pubsub.Deque": true}

func checkC07(c *Ctx) {
	c.R.Clauses = append(c.R.Clauses,
		"W1/W2/W2b: every wait is a predicate loop that re-checks closed and ctx before parking and has a context watcher on the same cond",
		"W3/W6: every write of state that a wait predicate reads is followed, on every path, by a Broadcast of every cond whose waiters read it (Deque.Close, push, pop; Queue add, remove, close)",
		"W4: every notification holds the cond's locker",
		"W7: no blocking operation parks unconditionally (WaitFront on a non-empty deque)",
		"L1/L2 for Queue and Deque (the predicate and the park happen in one critical section)")
	c.R.NotCov = append(c.R.NotCov, "the value of transition guards (== 1)", "fairness", "'promptly' as a time bound")
	lockRules(c, pubsubOwners, map[string]int{"L1": 20, "L2": 8, "L3": 2})
	condRules(c, pubsubOwners, map[string]int{"W1": 5, "W2": 5, "W2b": 5, "W3": 20, "W4": 20, "W6": 20, "W7": 2})
}

func checkC14(c *Ctx) {
	c.R.Clauses = append(c.R.Clauses,
		"L1: counter and cond are only touched under mu", "W1/W2/W2b/W3/W4 for the WaitGroup cond: Add broadcasts when the counter reaches zero (the waiter's own wake condition), the watcher broadcasts on cancel under the lock")
	c.R.NotCov = append(c.R.NotCov, "the counter as an arithmetic sum of completed calls")
	owners := map[string]bool{"fun.WaitGroup": true}
	lockRules(c, owners, map[string]int{"L1": 4, "L2": 1})
	condRules(c, owners, map[string]int{"W1": 1, "W2": 1, "W2b": 1, "W3": 1, "W4": 2, "W6": 1})
}

func init() {
	propChecks["DBG"] = func(c *Ctx) {
		all := map[string]bool{"fun": true, "pubsub": true, "srv": true, "itertool": true, "adt": true, "dt": true, "erc": true, "ers": true, "ft": true}
		ruleN1(c, nil, 0)
		ruleN2(c, []FieldID{{Pkg: "fun", Type: "WorkerGroupConf"}, {Pkg: "pubsub", Type: "QueueOptions"}, {Pkg: "pubsub", Type: "DequeOptions"}, {Pkg: "pubsub", Type: "BrokerOptions"}}, 0)
		ruleN3(c, all)
		ruleB1(c, all, 0)
		ruleB2(c, all, 0)
		dtp := map[string]bool{"dt": true, "pubsub": true}
		ruleD1(c, all, 0)
		ruleD3(c, dtp, 0)
		ruleD3dom(c, 0)
		ruleD2(c, 0)
		ruleD5(c, 0)
		ruleD6(c, 0)
		ruleX1(c, 0)
		ruleT1(c)
		ruleX2(c)
		ruleX3(c)
		ruleX4(c)
		ruleH(c)
		ruleX5(c)
		ruleX6(c, "Queue", "Deque")
		ruleG1(c, all, 0)
		ruleG2(c)
		ruleP1(c, all, 0)
		ruleP2(c, all, 0)
		ruleP3(c)
	}
}
