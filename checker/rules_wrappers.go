package main

// C15 — function wrappers: once (U2), hook order (U6), waiters (U7); C14's V1.

import (
	"fmt"
	"go/ast"
	"go/token"
	"go/types"
	"strings"
)

// fnValueRoles returns roleOf/argRole callbacks that name calls of the
// receiver function value ("call:recv") and of function-typed parameters
// ("call:param:<name>") of the declaration decl, seen from f (decl or one of
// its literals).
func fnValueRoles(decl *Func, f *Func) (func(*ast.CallExpr) string, func(ast.Expr) string) {
	info := f.Info()
	robj := recvObject(decl)
	name := func(e ast.Expr) string {
		e = ast.Unparen(e)
		// recv.Run(ctx): synchronous method on the function-typed receiver
		if se, ok := e.(*ast.SelectorExpr); ok {
			if id, ok := ast.Unparen(se.X).(*ast.Ident); ok && robj != nil && info.Uses[id] == robj {
				switch se.Sel.Name {
				case "Run", "Resolve", "Handle":
					return "call:recv"
				}
			}
			return ""
		}
		id, ok := e.(*ast.Ident)
		if !ok {
			return ""
		}
		obj := info.Uses[id]
		if obj == nil {
			return ""
		}
		if robj != nil && obj == robj {
			return "call:recv"
		}
		if idx, ok := paramIndex(decl, obj); ok && idx >= 0 {
			if _, isSig := obj.Type().Underlying().(*types.Signature); isSig {
				return "call:param:" + obj.Name()
			}
		}
		return ""
	}
	return func(call *ast.CallExpr) string { return name(call.Fun) }, name
}

// returnedLit returns the function literal a wrapper declaration returns.
func returnedLit(p *Prog, f *Func) *Func {
	var out *Func
	walkNoLit(f.Body, func(x ast.Node) bool {
		rs, ok := x.(*ast.ReturnStmt)
		if !ok || len(rs.Results) == 0 {
			return true
		}
		r := ast.Unparen(rs.Results[0])
		if call, ok := r.(*ast.CallExpr); ok && len(call.Args) == 1 {
			// conversion Producer[T](lit)
			if tv, ok := f.Info().Types[call.Fun]; ok && tv.IsType() {
				r = ast.Unparen(call.Args[0])
			}
		}
		if lit, ok := r.(*ast.FuncLit); ok {
			out = p.byLit[lit]
		}
		return true
	})
	return out
}

// ruleU6: hook order.
func ruleU6(c *Ctx) {
	R := c.R
	p := c.P
	la := c.Locks()
	R.Rule("U6", "PreHook runs the hook before the wrapped function; PostHook runs the wrapped function first (the hook is deferred or sequenced after it); Join/merge run the receiver before the next function — read off the linearised events of the returned closure (Go evaluates call arguments left to right)", 14)
	type spec struct {
		name        string
		first, then string // "recv" / "param"
	}
	var specs []spec
	for _, t := range []string{"Operation", "Worker", "Processor", "Producer", "Future"} {
		specs = append(specs, spec{"fun." + t + ".PreHook", "param", "recv"}, spec{"fun." + t + ".PostHook", "recv", "param"})
	}
	for _, t := range []string{"Operation", "Worker", "Processor"} {
		specs = append(specs, spec{"fun." + t + ".merge", "recv", "param"})
	}
	specs = append(specs, spec{"fun.Handler.Join", "recv", "param"})
	for _, sp := range specs {
		f := p.FuncNamed(sp.name)
		if f == nil {
			R.Fail("U6", sp.name, "-", "wrapper not found")
			continue
		}
		lit := returnedLit(p, f)
		pos := p.Position(f.Pos())
		if lit == nil {
			R.Undecided("U6", sp.name, pos, "the wrapper does not return a function literal")
			continue
		}
		roleOf, argRole := fnValueRoles(f, lit)
		evs := lineariseSync(lit, la, roleOf, argRole)
		ri, pi := -1, -1
		for i, e := range evs {
			if e.Key == "call:recv" && ri < 0 {
				ri = i
			}
			if strings.HasPrefix(e.Key, "call:param:") && pi < 0 {
				pi = i
			}
		}
		// merge: `next.If(cond).Run(ctx)` — the parameter is the receiver of a chain that is run
		if pi < 0 {
			for i, e := range evs {
				if call, ok := e.Node.(*ast.CallExpr); ok {
					base, _, _ := chainMethods(call)
					if id, ok := ast.Unparen(base).(*ast.Ident); ok {
						if idx, ok := paramIndex(f, lit.Info().Uses[id]); ok && idx >= 0 && pi < 0 {
							pi = i
						}
					}
				}
			}
		}
		ok := ri >= 0 && pi >= 0
		if ok {
			if sp.first == "recv" {
				ok = ri < pi
			} else {
				ok = pi < ri
			}
		}
		R.Check(ok, "U6", sp.name, pos, fmt.Sprintf("%s before %s", sp.first, sp.then),
			fmt.Sprintf("%s: the %s must run before the %s but the closure's event order is %s", sp.name, sp.first, sp.then, eventKeys(evs)))
	}
	// Handler.PreHook delegates: prev.Join(of)
	if f := p.FuncNamed("fun.Handler.PreHook"); f != nil {
		ok := false
		walkNoLit(f.Body, func(x ast.Node) bool {
			if call, isCall := x.(*ast.CallExpr); isCall && selName(call) == "Join" && len(call.Args) == 1 {
				rid, ok1 := ast.Unparen(recvExpr(call)).(*ast.Ident)
				aid, ok2 := ast.Unparen(call.Args[0]).(*ast.Ident)
				if ok1 && ok2 {
					if idx, isParam := paramIndex(f, f.Info().Uses[rid]); isParam && idx == 0 && f.Info().Uses[aid] == recvObject(f) {
						ok = true
					}
				}
			}
			return true
		})
		R.Check(ok, "U6", "fun.Handler.PreHook", p.Position(f.Pos()), "prev.Join(of): the hook handler runs first", "Handler.PreHook must be prev.Join(of)")
	}
}

// ruleU2: once-wrappers.
func ruleU2(c *Ctx) {
	R := c.R
	p := c.P
	R.Rule("U2", "in every Once wrapper the wrapped function is invoked only inside the literal handed to sync.Once.Do (so it runs once and concurrent callers block until it has finished) and the cached result is read after that Do", 7)
	names := []string{"fun.Worker.Once", "fun.Operation.Once", "fun.Producer.Once", "fun.Processor.Once", "fun.Handler.Once", "ft.OnceDo", "ft.Once"}
	for _, name := range names {
		f := p.FuncNamed(name)
		if f == nil {
			R.Fail("U2", name, "-", "wrapper not found")
			continue
		}
		info := f.Info()
		pos := p.Position(f.Pos())
		// the wrapped function value: receiver, or the (first) function-typed parameter
		wrapped := map[types.Object]bool{}
		if r := recvObject(f); r != nil {
			wrapped[r] = true
		} else if o := paramObj(f, 0); o != nil {
			wrapped[o] = true
			// ft.Once rebinds f = SafeWrap(f): the same variable
		}
		calls, outside := 0, ""
		doCalls := 0
		var visit func(g *Func, inDo bool)
		visit = func(g *Func, inDo bool) {
			walkNoLit(g.Body, func(x ast.Node) bool {
				call, ok := x.(*ast.CallExpr)
				if !ok {
					return true
				}
				if n := callName(info, call); n == "sync.(*Once).Do" || (n == "ft.Once" && name != "ft.Once") {
					doCalls++
					// a function value handed directly: o.Do(f)
					if len(call.Args) == 1 {
						if id, ok := ast.Unparen(call.Args[0]).(*ast.Ident); ok && wrapped[info.Uses[id]] {
							calls++
						}
					}
				}
				if id, ok := ast.Unparen(call.Fun).(*ast.Ident); ok && wrapped[info.Uses[id]] {
					calls++
					if !inDo {
						outside = p.Position(call.Pos())
					}
				}
				return true
			})
			for _, l := range g.Lits {
				isDo := false
				if pc, ok := p.Parent(l.Lit).(*ast.CallExpr); ok {
					// ft.Once is itself a verified once-wrapper (checked as its own instance)
					if n := callName(info, pc); n == "sync.(*Once).Do" || (n == "ft.Once" && name != "ft.Once") {
						isDo = true
					}
				}
				visit(l, inDo || isDo)
			}
		}
		visit(f, false)
		switch {
		case doCalls == 0:
			R.Fail("U2", name, pos, "the wrapper no longer goes through sync.Once.Do: concurrent callers can run the function more than once or return before it has finished")
		case calls == 0:
			R.Fail("U2", name, pos, "the wrapped function is never invoked")
		case outside != "":
			R.Fail("U2", name, pos, "the wrapped function is invoked outside the sync.Once body at "+outside+": it can run more than once")
		default:
			// cached results: every return of the closure comes after the Do call
			okOrder := true
			if lit := returnedLit(p, f); lit != nil {
				var doPos token.Pos
				walkNoLit(lit.Body, func(x ast.Node) bool {
					if call, ok := x.(*ast.CallExpr); ok && callName(info, call) == "sync.(*Once).Do" {
						doPos = call.Pos()
					}
					return true
				})
				walkNoLit(lit.Body, func(x ast.Node) bool {
					if rs, ok := x.(*ast.ReturnStmt); ok && len(rs.Results) > 0 && rs.Pos() < doPos {
						okOrder = false
					}
					return true
				})
			}
			R.Check(okOrder, "U2", name, pos, fmt.Sprintf("%d invocation(s), all inside once.Do; results read after Do", calls), "the cached result is returned before once.Do: callers can observe the zero value")
		}
	}
	// Future.Once delegates to ft.OnceDo
	if f := p.FuncNamed("fun.Future.Once"); f != nil {
		ok := false
		walkNoLit(f.Body, func(x ast.Node) bool {
			if call, isCall := x.(*ast.CallExpr); isCall && callName(f.Info(), call) == "ft.OnceDo" {
				ok = true
			}
			return true
		})
		R.Check(ok, "U2", "fun.Future.Once", p.Position(f.Pos()), "delegates to ft.OnceDo", "Future.Once no longer delegates to ft.OnceDo")
	}
	// adt.Once: Do and Resolve both run populate through o.once
	for _, name := range []string{"adt.(*Once).Do", "adt.(*Once).Resolve"} {
		f := p.FuncNamed(name)
		if f == nil {
			R.Fail("U2", name, "-", "not found")
			continue
		}
		ok := false
		ast.Inspect(f.Body, func(x ast.Node) bool {
			if call, isCall := x.(*ast.CallExpr); isCall && callName(f.Info(), call) == "sync.(*Once).Do" {
				ok = true
			}
			return true
		})
		R.Check(ok, "U2", name, p.Position(f.Pos()), "goes through o.once.Do", name+" does not go through the sync.Once")
	}
}

// ruleU7: waiters returned by Signal / Launch complete only after the
// background execution.
func ruleU7(c *Ctx) {
	R := c.R
	p := c.P
	R.Rule("U7", "Signal/Launch: the completion channel is closed (or the result sent) only after the wrapped function has run, inside the started goroutine; Launch returns a waiter on that channel", 4)
	if f := p.FuncNamed("fun.Operation.Signal"); f != nil {
		ok, why := false, "no goroutine closes the returned channel after running the operation"
		for _, l := range f.Lits {
			if _, isGo := p.Parent(p.Parent(l.Lit)).(*ast.GoStmt); !isGo {
				continue
			}
			roleOf, argRole := fnValueRoles(f, l)
			evs := lineariseSync(l, c.Locks(), roleOf, argRole)
			ri := indexOf(evs, "call:recv")
			ci := -1
			for i, e := range evs {
				if strings.HasPrefix(e.Key, "close:") {
					ci = i
				}
			}
			if ri >= 0 && ci > ri {
				ok = true
			} else {
				why = "in the goroutine the channel is closed before the operation has run: " + eventKeys(evs)
			}
		}
		R.Check(ok, "U7", "fun.Operation.Signal", p.Position(f.Pos()), "go { run; close(out) }", "Operation.Signal: "+why)
	}
	if f := p.FuncNamed("fun.Operation.Launch"); f != nil {
		// returns WaitChannel(sig) where sig comes from wf.Signal(ctx)
		ok := false
		info := f.Info()
		walkNoLit(f.Body, func(x ast.Node) bool {
			rs, isRet := x.(*ast.ReturnStmt)
			if !isRet || len(rs.Results) != 1 {
				return true
			}
			call, isCall := ast.Unparen(rs.Results[0]).(*ast.CallExpr)
			if isCall && callName(info, call) == "fun.WaitChannel" && len(call.Args) == 1 {
				if id, isId := ast.Unparen(call.Args[0]).(*ast.Ident); isId {
					if rhs := singleDef(f, info.Uses[id]); rhs != nil {
						if sc, isCall := rhs.(*ast.CallExpr); isCall && callName(info, sc) == "fun.Operation.Signal" {
							ok = true
						}
					}
				}
			}
			return true
		})
		R.Check(ok, "U7", "fun.Operation.Launch", p.Position(f.Pos()), "returns WaitChannel(<Signal's channel>)", "Operation.Launch does not return a waiter on the channel of the operation it started: the returned Operation completes before the background execution has")
	}
	if f := p.FuncNamed("fun.Worker.Signal"); f != nil {
		ok, why := false, "no goroutine sends the worker's result"
		for _, l := range f.Lits {
			if _, isGo := p.Parent(p.Parent(l.Lit)).(*ast.GoStmt); !isGo {
				continue
			}
			// `defer out.Close(); out.Send().Ignore(ctx, wf.Run(ctx))`: the run is an argument of the send, the close is deferred
			deferClose, sendOfRun := false, false
			for _, st := range l.Body.List {
				if ds, isDefer := st.(*ast.DeferStmt); isDefer && selName(ds.Call) == "Close" {
					deferClose = true
				}
			}
			ast.Inspect(l.Body, func(x ast.Node) bool {
				if call, isCall := x.(*ast.CallExpr); isCall && strings.Contains(exprStr(call.Fun), ".Send()") {
					for _, a := range call.Args {
						if strings.Contains(exprStr(a), ".Run(") || strings.HasPrefix(exprStr(a), "wf(") {
							sendOfRun = true
						}
					}
				}
				return true
			})
			if deferClose && sendOfRun {
				ok = true
			} else {
				why = fmt.Sprintf("deferred close=%v, result of the worker is what is sent=%v", deferClose, sendOfRun)
			}
		}
		R.Check(ok, "U7", "fun.Worker.Signal", p.Position(f.Pos()), "go { defer close; send(run()) }", "Worker.Signal: "+why)
	}
	if f := p.FuncNamed("fun.Worker.Launch"); f != nil {
		s := exprStr0(f.Body)
		R.Check(strings.Contains(s, "wf.Signal(") && strings.Contains(s, "WorkerFuture("), "U7", "fun.Worker.Launch", p.Position(f.Pos()), "WorkerFuture(wf.Signal(ctx))", "Worker.Launch must return the future of the channel produced by Signal")
	}
}

// ruleV1: WaitGroup.Add validates before it mutates.
func ruleV1(c *Ctx) {
	R := c.R
	p := c.P
	R.Rule("V1", "WaitGroup.Add checks the invariant counter+num >= 0 before it stores the counter, so a rejected Add leaves the counter unchanged", 1)
	f := p.FuncNamed("fun.(*WaitGroup).Add")
	if f == nil {
		R.Fail("V1", "fun.(*WaitGroup).Add", "-", "not found")
		return
	}
	fl := newFlow(f)
	var store, check ast.Node
	walkNoLit(f.Body, func(x ast.Node) bool {
		switch t := x.(type) {
		case *ast.AssignStmt:
			if len(t.Lhs) == 1 && strings.HasSuffix(exprStr(t.Lhs[0]), ".counter") {
				store = t
			}
		case *ast.IncDecStmt:
			if strings.HasSuffix(exprStr(t.X), ".counter") {
				store = t
			}
		case *ast.CallExpr:
			if strings.HasPrefix(exprStr(t.Fun), "Invariant.") && len(t.Args) > 0 {
				a := normGuard(exprStr(t.Args[0]))
				if strings.Contains(a, ".counter+") && strings.Contains(a, ">=0") {
					check = t
				}
			}
		}
		return true
	})
	pos := p.Position(f.Pos())
	switch {
	case store == nil:
		R.Fail("V1", "fun.(*WaitGroup).Add", pos, "Add does not store the counter")
	case check == nil:
		R.Fail("V1", "fun.(*WaitGroup).Add", pos, "Add no longer checks counter+num >= 0: a negative counter is accepted silently")
	case !fl.Dominates(check, store):
		R.Fail("V1", "fun.(*WaitGroup).Add", pos, "the invariant check does not dominate the store: an Add that would make the counter negative panics only after having changed it")
	default:
		R.OK("V1", "fun.(*WaitGroup).Add", pos, "invariant check dominates the store")
	}
}

// ruleU8: Retry's attempt loop and per-attempt decision table.
func ruleU8(c *Ctx) {
	R := c.R
	p := c.P
	R.Rule("U8", "Retry(n): the loop is `for i := 0; i < n; i++` with exactly one invocation of the wrapped function per iteration (at most n attempts); per attempt: nil → return success at once (earlier failures discarded); ErrIteratorSkip → next attempt, not aggregated; context error → returned together with the earlier failures; other terminating errors → stop (Worker: nil, Producer: returned); any other error → aggregated and the loop goes on; after the loop the aggregate is returned", 2)
	for _, name := range []string{"fun.Worker.Retry", "fun.Producer.Retry"} {
		f := p.FuncNamed(name)
		if f == nil {
			R.Fail("U8", name, "-", "not found")
			continue
		}
		lit := returnedLit(p, f)
		pos := p.Position(f.Pos())
		if lit == nil {
			R.Undecided("U8", name, pos, "no returned closure")
			continue
		}
		info := lit.Info()
		var loop *ast.ForStmt
		walkNoLit(lit.Body, func(x ast.Node) bool {
			if fs, ok := x.(*ast.ForStmt); ok && loop == nil {
				loop = fs
			}
			return true
		})
		if loop == nil {
			R.Fail("U8", name+"/loop", pos, "Retry has no attempt loop")
			continue
		}
		// canonical bounded loop over the parameter n
		nobj := paramObj(f, 0)
		okLoop := false
		if as, ok := loop.Init.(*ast.AssignStmt); ok && len(as.Lhs) == 1 && len(as.Rhs) == 1 {
			if lit0, ok := as.Rhs[0].(*ast.BasicLit); ok && lit0.Value == "0" {
				if be, ok := loop.Cond.(*ast.BinaryExpr); ok && be.Op == token.LSS {
					if yid, ok := ast.Unparen(be.Y).(*ast.Ident); ok && info.Uses[yid] == nobj && exprStr(be.X) == exprStr(as.Lhs[0]) {
						if inc, ok := loop.Post.(*ast.IncDecStmt); ok && inc.Tok == token.INC && exprStr(inc.X) == exprStr(as.Lhs[0]) {
							okLoop = true
						}
					}
				}
			}
		}
		R.Check(okLoop, "U8", name+"/loop", p.Position(loop.Pos()), "for i := 0; i < n; i++", name+": the attempt loop is not `for i := 0; i < n; i++` over the retry count: the number of attempts is no longer bounded by n (or n attempts are no longer made)")
		// exactly one invocation of the wrapped function per iteration
		robj := recvObject(f)
		calls := 0
		walkNoLit(loop.Body, func(x ast.Node) bool {
			if call, ok := x.(*ast.CallExpr); ok {
				if id, ok := ast.Unparen(call.Fun).(*ast.Ident); ok && info.Uses[id] == robj {
					calls++
					if lit.enclosingLoop(call) != ast.Stmt(loop) {
						calls += 10
					}
				}
			}
			return true
		})
		R.Check(calls == 1, "U8", name+"/one-call", p.Position(loop.Pos()), "one invocation per attempt", fmt.Sprintf("%s invokes the wrapped function %d times per iteration (or in a nested loop)", name, calls))
		// decision table
		var sw *ast.SwitchStmt
		var errObj types.Object
		for _, es := range errSwitches(p, "fun") {
			if es.F == lit {
				sw, errObj = es.Switch, es.ErrObj
			}
		}
		if sw == nil {
			R.Undecided("U8", name+"/table", pos, "no classification switch found")
			continue
		}
		accum := func(it *interp, call *ast.CallExpr) (string, bool) {
			if callName(it.f.Info(), call) == "ers.Join" {
				// the attempt's error is one of the joined values
				for _, a := range call.Args {
					if it.isErrExpr(a) {
						return "accumulate", true
					}
				}
			}
			return anyEffect(it, call)
		}
		rows, unknown, _ := enumerate(lit, []ast.Stmt{sw}, map[types.Object]bool{errObj: true}, skipAtoms, skipConsistent, accum)
		if len(unknown) > 0 {
			R.Undecided("U8", name+"/table", pos, unknown[0])
			continue
		}
		isWorker := strings.HasPrefix(name, "fun.Worker")
		bad := map[string]string{}
		seen := map[string]bool{}
		for _, r := range rows {
			a := r.Atoms
			acc := false
			for _, e := range r.Effects {
				if e == "accumulate" {
					acc = true
				}
			}
			got := outcomeStr(lit, errObj, r)
			// a return that joins the attempt's error is "returns the error"
			if r.Outcome.Kind == oReturn {
				last := r.Outcome.Results[len(r.Outcome.Results)-1]
				if call, ok := ast.Unparen(last).(*ast.CallExpr); ok && callName(info, call) == "ers.Join" {
					got = "return joined"
				} else if isNilIdent(info, last) {
					got = "return nil"
				}
			}
			var cls, want string
			switch {
			case a["nil"]:
				cls, want = "nil", "return nil"
			case a["ctx"]:
				cls, want = "context", "return joined"
			case a["skip"] && !a["eof"] && !a["abort"] && !a["panic"]:
				cls, want = "skip", "continue"
				if acc {
					got += "+accumulate"
				}
			case (a["eof"] || a["abort"]) && !a["skip"]:
				cls = "terminating"
				if isWorker {
					want = "return nil"
				} else {
					want = "return joined"
				}
			case !a["skip"] && !a["eof"] && !a["abort"]:
				cls, want = "other", "fall through+accumulate"
				if acc {
					got += "+accumulate"
				}
			default:
				continue
			}
			seen[cls] = true
			if got != want {
				bad[cls] = fmt.Sprintf("row %s: got `%s`, want `%s`", r.String(), got, want)
			}
		}
		for _, cls := range []string{"nil", "context", "skip", "terminating", "other"} {
			R.Check(seen[cls] && bad[cls] == "", "U8", name+"/row:"+cls, p.Position(sw.Pos()), "as documented", name+" per-attempt decision for "+cls+": "+bad[cls])
		}
		// after the loop: the aggregate is returned
		okTail := false
		if n := len(lit.Body.List); n > 0 {
			if rs, ok := lit.Body.List[n-1].(*ast.ReturnStmt); ok && len(rs.Results) > 0 {
				last := rs.Results[len(rs.Results)-1]
				if id, ok := ast.Unparen(last).(*ast.Ident); ok {
					if v, ok := info.Uses[id].(*types.Var); ok && types.Identical(v.Type(), types.Universe.Lookup("error").Type()) {
						okTail = true
					}
				}
			}
		}
		R.Check(okTail, "U8", name+"/exhausted", pos, "returns the aggregated error when every attempt failed", name+" does not return the aggregated error after the last attempt: failures are reported as success")
	}
}
