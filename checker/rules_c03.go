package main

import (
	"fmt"
	"go/ast"
	"go/types"
	"strings"
)

func init() { propChecks["C03"] = checkC03 }

func checkC03(c *Ctx) {
	c.R.Clauses = append(c.R.Clauses,
		"E8: the complete decision table of WorkerGroupConf.CanContinueOnError (recorded? continue? abort?) for every combination of error kind and option, extracted by abstract interpretation and compared with the table of the property (nil ≻ panic ≻ skip ≻ EOF ≻ excluded/context ≻ other)",
		"N2: every WorkerGroupConf option is consumed", "F3: every branch of ParsePanic marks the error with ErrRecoveredPanic",
		"F4: the user function runs only behind WithRecover in the three worker-group constructs", "F6: each construct wires the cancel function it created into the configuration's abort hook before starting workers",
		"F7: the default error handler shared by the workers is mutex-wrapped", "F8: the constructs return / attach the configured error resolver", "N4: no abort handler tests for an error its worker can never return",
		"F9: the group's ErrorHandler is reached only through the classification (no error is recorded unclassified)",
		"P2/P2c: the output pipe is closed (exhaustion reported, errors resolved) only after the wait group of all workers drained, and that wait does not run under the abort-cancelled context")
	c.R.NotCov = append(c.R.NotCov, "exactly-once processing under continue mode (see C01 for the structural part)", "the numeric bound 'at most #workers items after the first failure'")
	ruleE8(c)
	ruleN2(c, []FieldID{{Pkg: "fun", Type: "WorkerGroupConf"}}, 7)
	ruleF3(c)
	ruleF467(c)
	ruleN4(c)
	// "nothing lost": failures of in-flight items are recorded before the result is resolved only
	// if the output is closed / the waiter returns after every worker finished (P2 incl. P2c)
	ruleP2(c, map[string]bool{"fun": true}, 8)
	ruleF9(c)
	ruleP7(c, pipePkgs)
	ruleG3(c)
	ruleX13(c, map[string]bool{"ers": true, "erc": true, "fun": true, "internal": true, "itertool": true})
}

func ruleE8(c *Ctx) {
	R := c.R
	p := c.P
	R.Rule("E8", "CanContinueOnError implements the property's classification: nil → continue silently; recovered panic → recorded, continue iff ContinueOnPanic, abort otherwise; skip → continue silently; io.EOF → stop this worker silently; excluded errors → never recorded; context errors → recorded iff IncludeContextExpirationErrors, stop; any other error → recorded exactly once, continue iff ContinueOnError, abort otherwise", 40)
	f := p.FuncNamed("fun.WorkerGroupConf.CanContinueOnError")
	if f == nil {
		R.Fail("E8", "anchor", "-", "fun.WorkerGroupConf.CanContinueOnError not found")
		return
	}
	errObj := paramObj(f, 0)
	atoms := []string{"nil", "panic", "skip", "eof", "abort", "ctx", "in:ExcludedErrors", "nonempty:ExcludedErrors",
		"opt:ContinueOnPanic", "opt:ContinueOnError", "opt:IncludeContextExpirationErrors"}
	consistent := func(a map[string]bool) bool {
		if a["nil"] && (a["panic"] || a["skip"] || a["eof"] || a["ctx"] || a["abort"] || a["in:ExcludedErrors"]) {
			return false
		}
		if a["in:ExcludedErrors"] && !a["nonempty:ExcludedErrors"] {
			return false
		}
		if a["abort"] {
			return false // ErrCurrentOpAbort is not part of this contract; keep the table at 2^9 live rows
		}
		return true
	}
	effect := func(it *interp, call *ast.CallExpr) (string, bool) {
		info := it.f.Info()
		fun := ast.Unparen(call.Fun)
		if se, ok := fun.(*ast.SelectorExpr); ok {
			if s := info.Selections[se]; s != nil && s.Kind() == types.FieldVal {
				switch s.Obj().Name() {
				case "ErrorHandler":
					if len(call.Args) == 1 && it.isErrExpr(call.Args[0]) {
						return "record", true
					}
					return "", false
				case "abort":
					return "abort", true
				}
			}
		}
		return "", false
	}
	rows, unknown, used := enumerate(f, f.Body.List, map[types.Object]bool{errObj: true}, atoms, consistent, effect)
	pos := p.Position(f.Pos())
	if len(unknown) > 0 {
		R.Undecided("E8", "fun.WorkerGroupConf.CanContinueOnError", pos, "the classification function contains code the interpreter does not understand: "+strings.Join(unknown[:min(3, len(unknown))], "; "))
		return
	}
	for _, r := range rows {
		if r.Outcome.Kind == oReturn && len(r.Outcome.Results) == 1 {
			resultKind(f, map[types.Object]bool{errObj: true}, r.Outcome.Results[0], r.Atoms, used)
		}
	}
	for _, need := range []string{"nil", "panic", "skip", "eof", "ctx", "in:ExcludedErrors", "opt:ContinueOnPanic", "opt:ContinueOnError", "opt:IncludeContextExpirationErrors"} {
		R.Check(used[need], "E8", "consults:"+need, pos, "the predicate is consulted", "CanContinueOnError never consults "+need+": that kind of error / option cannot influence the decision")
	}
	bad := 0
	for _, r := range rows {
		a := r.Atoms
		at := "row" + r.String()
		_ = at
		if r.Outcome.Kind != oReturn || len(r.Outcome.Results) != 1 {
			R.Fail("E8", "row"+r.String(), pos, "no boolean result on this row")
			bad++
			continue
		}
		cont := resultKind(f, map[types.Object]bool{errObj: true}, r.Outcome.Results[0], a, nil)
		rec, ab := 0, 0
		for _, e := range r.Effects {
			if e == "record" {
				rec++
			}
			if e == "abort" {
				ab++
			}
		}
		var wantRec, wantCont, wantAbort *bool
		T, F := true, false
		b := func(v bool) *bool {
			if v {
				return &T
			}
			return &F
		}
		why := ""
		switch {
		case a["nil"]:
			wantRec, wantCont, wantAbort, why = &F, &T, &F, "nil error"
		case a["panic"]:
			wantRec, wantCont, wantAbort, why = &T, b(a["opt:ContinueOnPanic"]), b(!a["opt:ContinueOnPanic"]), "recovered panic"
		case a["skip"]:
			wantRec, wantCont, wantAbort, why = &F, &T, &F, "ErrIteratorSkip"
		case a["eof"]:
			wantRec, wantCont, wantAbort, why = &F, &F, &F, "io.EOF"
		case a["in:ExcludedErrors"] && a["ctx"] && a["opt:IncludeContextExpirationErrors"]:
			why = "excluded and context error with IncludeContextExpirationErrors (unspecified)"
		case a["in:ExcludedErrors"]:
			// never recorded; and, like any failure that is not a cancellation, it does not retire the worker under
			// ContinueOnError ("every item is still processed exactly once") — also when the excluded error
			// happens to be a context error the processing function returned for one item
			wantRec, wantCont, why = &F, b(a["opt:ContinueOnError"]), "excluded error"
		case a["ctx"]:
			wantRec, wantCont, why = b(a["opt:IncludeContextExpirationErrors"]), &F, "context error"
		default:
			wantRec, wantCont, wantAbort, why = &T, b(a["opt:ContinueOnError"]), b(!a["opt:ContinueOnError"]), "ordinary error"
		}
		var diffs []string
		if wantRec != nil && (rec > 0) != *wantRec {
			diffs = append(diffs, fmt.Sprintf("recorded=%v want %v", rec > 0, *wantRec))
		}
		if rec > 1 {
			diffs = append(diffs, fmt.Sprintf("recorded %d times", rec))
		}
		if wantCont != nil && cont != fmt.Sprint(*wantCont) {
			diffs = append(diffs, fmt.Sprintf("continue=%s want %v", cont, *wantCont))
		}
		if wantAbort != nil && (ab > 0) != *wantAbort {
			diffs = append(diffs, fmt.Sprintf("abort=%v want %v", ab > 0, *wantAbort))
		}
		var opts []string
		for _, o := range []string{"opt:ContinueOnPanic", "opt:ContinueOnError", "opt:IncludeContextExpirationErrors"} {
			if a[o] {
				opts = append(opts, strings.TrimPrefix(o, "opt:"))
			}
		}
		cls := fmt.Sprintf("class:%s[%s]", why, strings.Join(opts, ","))
		if len(diffs) > 0 {
			bad++
			R.Fail("E8", cls, pos, fmt.Sprintf("%s, e.g. row %s: %s", why, r.String(), strings.Join(diffs, ", ")))
		} else {
			R.OK("E8", cls, pos, fmt.Sprintf("%s → recorded=%v continue=%s abort=%v", why, rec > 0, cont, ab > 0))
		}
	}
	R.Extra["decision_table_rows"] = len(rows)
}

func min(a, b int) int {
	if a < b {
		return a
	}
	return b
}

// ruleF3: every non-nil branch of ParsePanic joins ErrRecoveredPanic.
func ruleF3(c *Ctx) {
	R := c.R
	p := c.P
	R.Rule("F3", "every branch of ers.ParsePanic that returns an error for a non-nil panic value includes ErrRecoveredPanic among the joined errors", 4)
	f := p.FuncNamed("ers.ParsePanic")
	if f == nil {
		R.Fail("F3", "anchor", "-", "ers.ParsePanic not found")
		return
	}
	info := f.Info()
	n := 0
	walkNoLit(f.Body, func(x ast.Node) bool {
		ts, ok := x.(*ast.TypeSwitchStmt)
		if !ok {
			return true
		}
		for _, cl := range ts.Body.List {
			cc := cl.(*ast.CaseClause)
			label := "default"
			if len(cc.List) > 0 {
				label = exprStr(cc.List[0])
			}
			for _, st := range cc.Body {
				rs, ok := st.(*ast.ReturnStmt)
				if !ok || len(rs.Results) != 1 {
					continue
				}
				n++
				has := false
				ast.Inspect(rs.Results[0], func(y ast.Node) bool {
					if e, ok := y.(ast.Expr); ok {
						it := &interp{f: f}
						if s, ok := it.sentinelName(e); ok && s == "panic" {
							has = true
						}
					}
					return true
				})
				_ = info
				R.Check(has, "F3", "ers.ParsePanic/case:"+label, p.Position(rs.Pos()), "joins ErrRecoveredPanic",
					"a panic with a value of type "+label+" is converted without ErrRecoveredPanic: errors.Is(err, ErrRecoveredPanic) is false, so ContinueOnPanic / panic reporting treat it as an ordinary error")
			}
		}
		return true
	})
	if n == 0 {
		R.Undecided("F3", "ers.ParsePanic", p.Position(f.Pos()), "no type switch with returning cases found")
	}
}

type wgConstruct struct {
	Name    string // function
	UserFn  string // "recv" or parameter name
	Literal bool   // the work is set up inside a literal (init)
}

var wgConstructs = []wgConstruct{
	{"fun.(*Iterator).ProcessParallel", "fn", true},
	{"fun.Transform.ProcessParallel", "recv", true},
	{"fun.Producer.GenerateParallel", "recv", true},
}

func ruleF467(c *Ctx) {
	R := c.R
	p := c.P
	R.Rule("F4", "in the worker-group constructs the user-supplied function is used only behind .WithRecover(): a panic in it becomes an error joined with ErrRecoveredPanic instead of crashing the worker goroutine", 3)
	R.Rule("F6", "each construct stores the context.CancelFunc it created into the configuration's abort hook before it starts a worker: CanContinueOnError's abort decision reaches the other workers", 3)
	R.Rule("F7", "the error handler installed by default (shared by all workers) is wrapped with .Lock()", 3)
	R.Rule("F8", "the construct hands the aggregated result to the caller: ProcessParallel returns opts.ErrorResolver(); the iterator constructs route errors into the output iterator's handler", 3)
	for _, wc := range wgConstructs {
		f := p.FuncNamed(wc.Name)
		if f == nil {
			R.Fail("F4", wc.Name, "-", "construct not found")
			continue
		}
		info := f.Info()
		pos := p.Position(f.Pos())
		var user types.Object
		if wc.UserFn == "recv" {
			user = recvObject(f)
		} else {
			for i := 0; ; i++ {
				o := paramObj(f, i)
				if o == nil {
					break
				}
				if o.Name() == wc.UserFn {
					user = o
				}
			}
		}
		if user == nil {
			R.Fail("F4", wc.Name, pos, "user function parameter not found")
			continue
		}
		// F4: all uses
		uses, bad := 0, ""
		rebound := false
		ast.Inspect(f.Body, func(x ast.Node) bool {
			id, ok := x.(*ast.Ident)
			if !ok || info.Uses[id] != user {
				return true
			}
			uses++
			par := p.Parent(id)
			if se, ok := par.(*ast.SelectorExpr); ok && se.X == ast.Expr(id) && se.Sel.Name == "WithRecover" {
				// pf = pf.WithRecover() rebinding?
				if call, ok := p.Parent(se).(*ast.CallExpr); ok {
					if as, ok := p.Parent(call).(*ast.AssignStmt); ok && len(as.Lhs) == 1 {
						if lid, ok := as.Lhs[0].(*ast.Ident); ok && info.Uses[lid] == user {
							rebound = true
						}
					}
				}
				return true
			}
			if as, ok := par.(*ast.AssignStmt); ok && len(as.Lhs) == 1 && as.Lhs[0] == ast.Expr(id) {
				return true // the rebinding's left-hand side
			}
			if rebound {
				return true // after `pf = pf.WithRecover()` the name denotes the protected function
			}
			bad = fmt.Sprintf("%s is used at %s without WithRecover", id.Name, p.Position(id.Pos()))
			return true
		})
		switch {
		case uses == 0:
			R.Fail("F4", wc.Name, pos, "the user function is never used")
		case bad != "":
			R.Fail("F4", wc.Name, pos, bad+": a panic in the user function kills the worker goroutine (and the process) instead of being reported")
		default:
			R.OK("F4", wc.Name, pos, fmt.Sprintf("%d use(s), all behind WithRecover", uses))
		}
		// F6: opts.abort = <cancel from context.WithCancel in the same body>, before the first launcher
		var abortAssign *ast.AssignStmt
		var firstLaunch ast.Node
		ast.Inspect(f.Body, func(x ast.Node) bool {
			switch t := x.(type) {
			case *ast.AssignStmt:
				if len(t.Lhs) == 1 && len(t.Rhs) == 1 {
					if se, ok := t.Lhs[0].(*ast.SelectorExpr); ok && se.Sel.Name == "abort" {
						if id, ok := ast.Unparen(t.Rhs[0]).(*ast.Ident); ok {
							if v, ok := info.Uses[id].(*types.Var); ok && typeIs(v.Type(), "context", "CancelFunc") {
								abortAssign = t
							}
						}
					}
				}
			case *ast.CallExpr:
				if n := selName(t); (n == "Add" || n == "StartGroup") && firstLaunch == nil {
					if fn := calleeFunc(info, t); fn != nil && fn.Pkg() != nil && fn.Pkg().Path() == modulePath {
						firstLaunch = t
					}
				}
			}
			return true
		})
		switch {
		case abortAssign == nil:
			R.Fail("F6", wc.Name, pos, "the construct never stores its cancel function in opts.abort: when CanContinueOnError decides to abort, the other workers keep consuming the rest of the input")
		case firstLaunch != nil && abortAssign.Pos() > firstLaunch.Pos():
			R.Fail("F6", wc.Name, pos, "opts.abort is set after the first worker was started: an early failure cannot cancel the group")
		default:
			// the cancel must be the one whose context the workers run under
			R.OK("F6", wc.Name, p.Position(abortAssign.Pos()), "opts.abort = "+exprStr(abortAssign.Rhs[0])+" before the workers start")
		}
		// F7
		var ehAssign *ast.AssignStmt
		ast.Inspect(f.Body, func(x ast.Node) bool {
			if t, ok := x.(*ast.AssignStmt); ok && len(t.Lhs) == 1 && len(t.Rhs) == 1 {
				if se, ok := t.Lhs[0].(*ast.SelectorExpr); ok && se.Sel.Name == "ErrorHandler" {
					ehAssign = t
				}
			}
			return true
		})
		if ehAssign == nil {
			R.Fail("F7", wc.Name, pos, "no default error handler is installed: with no handler configured CanContinueOnError calls a nil function")
		} else {
			call, ok := ast.Unparen(ehAssign.Rhs[0]).(*ast.CallExpr)
			R.Check(ok && selName(call) == "Lock", "F7", wc.Name, p.Position(ehAssign.Pos()), "default handler "+exprStr(ehAssign.Rhs[0]),
				"the default error handler "+exprStr(ehAssign.Rhs[0])+" is not wrapped with .Lock(): all workers append to one unsynchronised error stack")
		}
	}
	// F8
	if f := p.FuncNamed("fun.(*Iterator).ProcessParallel"); f != nil {
		ok := false
		ast.Inspect(f.Body, func(x ast.Node) bool {
			if rs, isRet := x.(*ast.ReturnStmt); isRet && len(rs.Results) == 1 {
				if call, isCall := rs.Results[0].(*ast.CallExpr); isCall && selName(call) == "ErrorResolver" {
					ok = true
				}
			}
			return true
		})
		R.Check(ok, "F8", "fun.(*Iterator).ProcessParallel", p.Position(f.Pos()), "returns opts.ErrorResolver()", "ProcessParallel does not return opts.ErrorResolver(): recorded failures never reach the caller")
	}
	for _, name := range []string{"fun.Transform.ProcessParallel", "fun.Producer.GenerateParallel"} {
		f := p.FuncNamed(name)
		if f == nil {
			continue
		}
		ok := false
		ast.Inspect(f.Body, func(x ast.Node) bool {
			if as, isAs := x.(*ast.AssignStmt); isAs && len(as.Lhs) == 1 {
				if se, isSel := as.Lhs[0].(*ast.SelectorExpr); isSel && se.Sel.Name == "ErrorHandler" && strings.Contains(exprStr(as.Rhs[0]), ".ErrorHandler()") {
					ok = true
				}
			}
			return true
		})
		R.Check(ok, "F8", name, p.Position(f.Pos()), "default handler is the output iterator's own error handler (surfaced by its Close)", name+" does not route worker errors into the output iterator: Close() would not report them")
	}
}

// ruleN4: an abort observer attached to a ReadAll worker tests for errors the
// worker can never return (ReadAll maps io.EOF / ErrCurrentOpAbort to nil).
func ruleN4(c *Ctx) {
	R := c.R
	p := c.P
	R.Rule("N4", "no error observer attached to a Processor.ReadAll / Transform.ProcessPipe worker is guarded by ers.Is(err, io.EOF / ErrCurrentOpAbort): those workers return nil for exactly these errors, so such a guard is dead and whatever it was meant to trigger (cancelling the group) never happens", 0)
	// summary of ReadAll: sentinels mapped to nil
	filtered := map[string]bool{}
	if ra := p.FuncNamed("fun.Processor.ReadAll"); ra != nil && len(ra.Lits) > 0 {
		lit := ra.Lits[0]
		walkNoLit(lit.Body, func(x ast.Node) bool {
			cc, ok := x.(*ast.CaseClause)
			if !ok || len(cc.Body) != 1 {
				return true
			}
			rs, ok := cc.Body[0].(*ast.ReturnStmt)
			if !ok || len(rs.Results) != 1 || !isNilIdent(lit.Info(), rs.Results[0]) {
				return true
			}
			for _, ce := range cc.List {
				if call, ok := ce.(*ast.CallExpr); ok && len(call.Args) >= 2 {
					it := &interp{f: lit}
					for _, a := range call.Args[1:] {
						if s, ok := it.sentinelName(a); ok {
							filtered[s] = true
						}
					}
				}
			}
			return true
		})
	}
	n := 0
	for _, f := range p.FuncsIn("fun", "itertool") {
		info := f.Info()
		walkNoLit(f.Body, func(x ast.Node) bool {
			call, ok := x.(*ast.CallExpr)
			if !ok || selName(call) != "Operation" || len(call.Args) != 1 {
				return true
			}
			lit, ok := ast.Unparen(call.Args[0]).(*ast.FuncLit)
			if !ok {
				return true
			}
			// receiver chain contains ReadAll
			if !strings.Contains(exprStr(recvExpr(call)), "ReadAll(") {
				return true
			}
			ast.Inspect(lit.Body, func(y ast.Node) bool {
				gc, ok := y.(*ast.CallExpr)
				if !ok {
					return true
				}
				name := callName(info, gc)
				if (name != "ers.Is" && name != "errors.Is") || len(gc.Args) < 2 {
					return true
				}
				it := &interp{f: f}
				all := true
				for _, a := range gc.Args[1:] {
					s, ok := it.sentinelName(a)
					if !ok || !filtered[s] {
						all = false
					}
				}
				if all {
					n++
					R.Fail("N4", fmt.Sprintf("%s/observer#%d", f.Name, n), p.Position(gc.Pos()),
						fmt.Sprintf("the observer tests %s, but ReadAll returns nil for exactly these errors: the guarded action never runs (an abort does not cancel the other workers)", exprStr(gc)))
				}
				return true
			})
			return true
		})
	}
	if n == 0 {
		R.OK("N4", "none", "-", fmt.Sprintf("no observer guarded by errors that ReadAll filters (%d filtered sentinels)", len(filtered)))
	}
}
