package main

// E6 — blocking discipline: no goroutine of the library can block on a
// channel without a way out, and nothing blocks while holding a mutex.

import (
	"fmt"
	"go/ast"
	"go/constant"
	"go/token"
	"go/types"
)

type chanOp struct {
	F    *Func
	Node ast.Node
	Ch   ast.Expr
	Send bool
}

func chanOpsIn(f *Func) []chanOp {
	var out []chanOp
	info := f.Info()
	walkNoLit(f.Body, func(x ast.Node) bool {
		switch t := x.(type) {
		case *ast.SendStmt:
			out = append(out, chanOp{F: f, Node: t, Ch: t.Chan, Send: true})
		case *ast.UnaryExpr:
			if t.Op == token.ARROW {
				out = append(out, chanOp{F: f, Node: t, Ch: t.X})
			}
		case *ast.RangeStmt:
			if tv, ok := info.Types[t.X]; ok {
				if _, isChan := tv.Type.Underlying().(*types.Chan); isChan {
					out = append(out, chanOp{F: f, Node: t, Ch: t.X})
				}
			}
		}
		return true
	})
	return out
}

// selectOf returns the select statement whose comm clause op is, if any.
func selectOf(p *Prog, op ast.Node) (*ast.SelectStmt, *ast.CommClause) {
	var child ast.Node = op
	for par := p.Parent(op); par != nil; child, par = par, p.Parent(par) {
		switch t := par.(type) {
		case *ast.CommClause:
			if t.Comm == child {
				if sel, ok := p.Parent(p.Parent(t)).(*ast.SelectStmt); ok {
					return sel, t
				}
			}
			return nil, nil
		case *ast.ExprStmt, *ast.AssignStmt, *ast.ParenExpr:
			continue
		default:
			return nil, nil
		}
	}
	return nil, nil
}

// selectHasExit: the select has a default arm or an arm receiving from a
// context's Done channel.
func selectHasExit(info *types.Info, sel *ast.SelectStmt) (hasDefault, hasCtx bool) {
	for _, cl := range sel.Body.List {
		cc := cl.(*ast.CommClause)
		if cc.Comm == nil {
			hasDefault = true
		} else if isCtxDoneRecv(info, cc.Comm) {
			hasCtx = true
		}
	}
	return
}

func ruleB1(c *Ctx, pkgs map[string]bool, floor int) {
	p := c.P
	R := c.R
	la := c.Locks()
	R.Rule("B1", "every channel send/receive can give up: it is an arm of a select that also has a ctx.Done() arm or a default — or it is a receive from ctx.Done() itself, a receive on a local barrier channel closed by `defer close` in a goroutine started in the same function, a single send on a channel made with constant capacity ≥ 1, or a tabled documented exception", floor)
	for _, f := range p.Funcs {
		if !pkgs[shortPkg(f.Pkg.PkgPath)] {
			continue
		}
		info := f.Info()
		seen := map[string]int{}
		for _, op := range chanOpsIn(f) {
			kind := "recv"
			if op.Send {
				kind = "send"
			}
			key := fmt.Sprintf("%s/%s:%s", f.Name, kind, exprStr(op.Ch))
			seen[key]++
			at := key
			if seen[key] > 1 {
				at = fmt.Sprintf("%s#%d", key, seen[key])
			}
			pos := p.Position(op.Node.Pos())
			if sel, _ := selectOf(p, op.Node); sel != nil {
				d, cx := selectHasExit(info, sel)
				if d || cx {
					how := "ctx.Done() arm"
					if d && !cx {
						how = "default arm"
					} else if d {
						how = "ctx.Done() and default arms"
					}
					R.OK("B1", at, pos, "arm of a select with "+how)
					continue
				}
				// a timer/ctx only select etc.
				R.Fail("B1", at, pos, fmt.Sprintf("channel %s is an arm of a select that has neither a ctx.Done() arm nor a default: if the peer never comes the goroutine blocks forever", kind))
				continue
			}
			if !op.Send {
				if u, ok := op.Node.(*ast.UnaryExpr); ok && isCtxDoneRecvExpr(info, u) {
					R.OK("B1", at, pos, "receive from ctx.Done(): the wait for cancellation itself")
					continue
				}
				if why, ok := barrierChannel(p, la, f, op.Ch); ok {
					R.OK("B1", at, pos, why)
					continue
				}
			} else if why, ok := bufferedSingleSend(p, f, op); ok {
				R.OK("B1", at, pos, why)
				continue
			}
			if why, ok := b1Exceptions[f.Name+"/"+kind+":"+exprStr(op.Ch)]; ok {
				R.Exception("B1", f.Name+": "+why)
				R.OK("B1", at, pos, "tabled: "+why)
				continue
			}
			R.Fail("B1", at, pos, fmt.Sprintf("bare channel %s on %s outside any select: nothing (context, close of a local barrier, buffer) lets this goroutine give up, so a peer that went away leaves it blocked forever", kind, exprStr(op.Ch)))
		}
	}
}

// barrierChannel: ch is a local `make(chan struct{})` and a goroutine started
// in the function that made it closes it with `defer close(ch)` (or closes it
// on every path).
func barrierChannel(p *Prog, la *LockAnalysis, f *Func, ch ast.Expr) (string, bool) {
	info := f.Info()
	id, ok := ast.Unparen(ch).(*ast.Ident)
	if !ok {
		return "", false
	}
	obj := info.Uses[id]
	rhs := singleDef(f, obj)
	call, ok := rhs.(*ast.CallExpr)
	if !ok || !isBuiltinCall(info, call, "make") {
		return "", false
	}
	// find the function that defines the channel
	var owner *Func
	for g := f; g != nil; g = g.Parent {
		defined := false
		walkNoLit(g.Body, func(x ast.Node) bool {
			if d, ok := x.(*ast.Ident); ok && info.Defs[d] == obj {
				defined = true
			}
			return !defined
		})
		if defined {
			owner = g
			break
		}
	}
	if owner == nil {
		return "", false
	}
	closer := ""
	var visit func(g *Func)
	visit = func(g *Func) {
		for _, l := range g.Lits {
			if k, _ := la.classifyLit(l); k == litAsync {
				walkNoLit(l.Body, func(x ast.Node) bool {
					ds, ok := x.(*ast.DeferStmt)
					if !ok {
						return true
					}
					if isBuiltinCall(info, ds.Call, "close") && len(ds.Call.Args) == 1 {
						if cid, ok := ast.Unparen(ds.Call.Args[0]).(*ast.Ident); ok && info.Uses[cid] == obj {
							// must be at top level of the goroutine body (unconditional)
							if p.Parent(ds) == ast.Node(l.Body) {
								closer = l.Name
							}
						}
					}
					return true
				})
				// close inside a deferred literal at top level: defer func(){ defer close(ch); ... }()
				for _, dl := range l.Lits {
					if k2, cs := la.classifyLit(dl); k2 == litDeferred && cs != nil && p.Parent(p.Parent(cs)) == ast.Node(l.Body) {
						walkNoLit(dl.Body, func(x ast.Node) bool {
							ds, ok := x.(*ast.DeferStmt)
							if ok && isBuiltinCall(info, ds.Call, "close") && len(ds.Call.Args) == 1 && p.Parent(ds) == ast.Node(dl.Body) {
								if cid, ok := ast.Unparen(ds.Call.Args[0]).(*ast.Ident); ok && info.Uses[cid] == obj {
									closer = dl.Name
								}
							}
							return true
						})
					}
				}
			}
			visit(l)
		}
	}
	visit(owner)
	if closer == "" {
		return "", false
	}
	return fmt.Sprintf("barrier: %s is made in %s and closed by `defer close` at the top of goroutine %s, which always runs to completion", id.Name, owner.Name, closer), true
}

// bufferedSingleSend: the channel was made with constant capacity >= 1 in an
// enclosing function and this send is not in a loop.
func bufferedSingleSend(p *Prog, f *Func, op chanOp) (string, bool) {
	info := f.Info()
	id, ok := ast.Unparen(op.Ch).(*ast.Ident)
	if !ok {
		return "", false
	}
	rhs := singleDef(f, info.Uses[id])
	call, ok := rhs.(*ast.CallExpr)
	if !ok || !isBuiltinCall(info, call, "make") || len(call.Args) != 2 {
		return "", false
	}
	tv := info.Types[call.Args[1]]
	if tv.Value == nil {
		return "", false
	}
	n, ok := constant.Int64Val(tv.Value)
	if !ok || n < 1 {
		return "", false
	}
	if f.enclosingLoop(op.Node) != nil {
		return "", false
	}
	return fmt.Sprintf("single send on %s, made with constant capacity %d: the send cannot block", id.Name, n), true
}

var blockingCalls = map[string]string{
	"fun.(*WaitGroup).Wait":  "fun.WaitGroup.Wait",
	"sync.(*WaitGroup).Wait": "sync.WaitGroup.Wait",
	"srv.(*Service).Wait":    "Service.Wait",
	"srv.(*Service).waitFor": "Service.waitFor",
	"fun.Operation.Wait":     "Operation.Wait",
	"fun.Operation.Block":    "Operation.Block",
}

// ruleB2: no blocking call or channel operation while a mutex is held (other
// than cond.Wait under the cond's own locker, which releases it).
func ruleB2(c *Ctx, pkgs map[string]bool, floor int) {
	p := c.P
	R := c.R
	la := c.Locks()
	R.Rule("B2", "no WaitGroup.Wait / Service.Wait / blocking channel operation executes while a sync.Mutex is held: whoever needs that mutex to make the wait finish would deadlock", floor)
	for _, f := range p.Funcs {
		if !pkgs[shortPkg(f.Pkg.PkgPath)] {
			continue
		}
		info := f.Info()
		walkNoLit(f.Body, func(x ast.Node) bool {
			call, ok := x.(*ast.CallExpr)
			if !ok {
				return true
			}
			what, ok := blockingCalls[callName(info, call)]
			if !ok {
				return true
			}
			if _, isDefer := p.Parent(call).(*ast.DeferStmt); isDefer {
				return true
			}
			st, _ := la.StateAt(f, call)
			at := fmt.Sprintf("%s/%s", f.Name, what)
			pos := p.Position(call.Pos())
			if len(st) == 0 {
				R.OK("B2", at, pos, "no mutex held")
			} else {
				R.Fail("B2", at, pos, fmt.Sprintf("%s is called while holding %s: any operation that needs that mutex before the wait can finish (e.g. the one that would end it) deadlocks", what, st))
			}
			return true
		})
		for _, op := range chanOpsIn(f) {
			if sel, _ := selectOf(p, op.Node); sel != nil {
				if d, _ := selectHasExit(info, sel); d {
					continue
				}
			}
			st, _ := la.StateAt(f, op.Node)
			if len(st) == 0 {
				continue
			}
			// the wait loops select on ctx.Done() with a default arm only; anything else under a lock is reported
			R.Fail("B2", fmt.Sprintf("%s/chan:%s", f.Name, exprStr(op.Ch)), p.Position(op.Node.Pos()),
				fmt.Sprintf("blocking channel operation on %s while holding %s", exprStr(op.Ch), st))
		}
	}
}
