package main

// E2 — condition-variable protocol (C07, C14, C20, part of C09).
//
// Enumerates every *sync.Cond field, its Wait sites and its Signal/Broadcast
// sites, the state each wait loop reads, and every function that writes that
// state. The rules are path properties of the source, so they hold for every
// schedule that can exercise those paths.

import (
	"fmt"
	"go/ast"
	"go/token"
	"go/types"
	"sort"
	"strings"
)

type waitSite struct {
	F     *Func
	Call  *ast.CallExpr
	Conds []FieldID
	Loop  *ast.ForStmt
	Reads map[FieldID]bool
}

type notifySite struct {
	F        *Func
	Call     *ast.CallExpr
	Conds    []FieldID
	Op       string // Signal | Broadcast
	Deferred *ast.DeferStmt
	Guard    ast.Expr // innermost enclosing if condition within the function (nil: unconditional)
}

type condModel struct {
	c       *Ctx
	la      *LockAnalysis
	owners  map[string]bool // "pubsub.Queue" ...
	conds   map[FieldID]bool
	waits   []*waitSite
	notifys []*notifySite
	// mutating methods of interface-typed guarded fields (tracker.add/remove)
	mutating map[string]bool
}

func isCondType(t types.Type) bool {
	return typeIs(t, "sync", "Cond")
}

func buildCondModel(c *Ctx, owners map[string]bool) *condModel {
	la := c.Locks()
	m := &condModel{c: c, la: la, owners: owners, conds: map[FieldID]bool{}, mutating: map[string]bool{}}
	for fv, id := range c.P.fields {
		if owners[id.Pkg+"."+id.Type] && isCondType(fv.Type()) {
			m.conds[id] = true
		}
	}
	// mutating tracker methods: an implementation assigns a receiver field
	for _, f := range c.P.Funcs {
		if f.Decl == nil || f.Decl.Recv == nil {
			continue
		}
		robj := recvObject(f)
		if robj == nil {
			continue
		}
		info := f.Info()
		writes := false
		walkNoLit(f.Body, func(x ast.Node) bool {
			var lhs []ast.Expr
			switch s := x.(type) {
			case *ast.AssignStmt:
				lhs = s.Lhs
			case *ast.IncDecStmt:
				lhs = []ast.Expr{s.X}
			}
			for _, l := range lhs {
				if ap, ok := pathOf(info, l); ok && ap.Root == robj && len(ap.Fields) > 0 {
					writes = true
				}
			}
			return true
		})
		if writes {
			m.mutating[f.Decl.Name.Name+"@"+shortPkg(f.Pkg.PkgPath)+"."+recvTypeName(f.Decl.Recv.List[0].Type)] = true
		}
	}
	for _, a := range la.accesses {
		if a.CondOp == "" {
			continue
		}
		rel := false
		for _, cd := range a.Conds {
			if m.conds[cd] {
				rel = true
			}
		}
		if !rel {
			continue
		}
		call := a.Node.(*ast.CallExpr)
		if a.CondOp == "Wait" {
			ws := &waitSite{F: a.F, Call: call, Conds: a.Conds, Reads: map[FieldID]bool{}}
			if l, ok := a.F.enclosingLoop(call).(*ast.ForStmt); ok {
				ws.Loop = l
			}
			m.waits = append(m.waits, ws)
			continue
		}
		ns := &notifySite{F: a.F, Call: call, Conds: a.Conds, Op: a.CondOp}
		if ds, ok := c.P.Parent(call).(*ast.DeferStmt); ok {
			ns.Deferred = ds
		}
		ns.Guard = m.enclosingGuard(a.F, call)
		m.notifys = append(m.notifys, ns)
	}
	for _, w := range m.waits {
		m.computeReads(w)
	}
	return m
}

// enclosingGuard: the condition of the innermost if statement (inside the
// same function body) that controls n; nil when n runs unconditionally (loops
// and selects do not count as guards).
func (m *condModel) enclosingGuard(f *Func, n ast.Node) ast.Expr {
	p := m.c.P
	var child ast.Node = n
	for par := p.Parent(n); par != nil; child, par = par, p.Parent(par) {
		switch t := par.(type) {
		case *ast.IfStmt:
			if t.Body == child || t.Else == child {
				return t.Cond
			}
		case *ast.CaseClause:
			if len(t.List) > 0 {
				return t.List[0]
			}
		case *ast.FuncLit, *ast.FuncDecl:
			return nil
		}
	}
	return nil
}

// guardedReadsIn collects guarded fields mentioned under n, following calls
// to module functions one level (getNextOrPrevious reads next/prev) and the
// definitions of the locals mentioned.
func (m *condModel) guardedReadsIn(f *Func, n ast.Node, out map[FieldID]bool, depth int) {
	if n == nil || depth > 2 {
		return
	}
	info := f.Info()
	walkNoLit(n, func(x ast.Node) bool {
		switch t := x.(type) {
		case *ast.SelectorExpr:
			if s := info.Selections[t]; s != nil && s.Kind() == types.FieldVal {
				if id, ok := m.c.P.Field(s.Obj().(*types.Var)); ok && !isCondType(s.Obj().Type()) {
					if _, g := m.la.guards[id]; g {
						out[id] = true
					}
				}
			}
		case *ast.CallExpr:
			if g := m.c.P.FuncOf(calleeFunc(info, t)); g != nil && depth < 2 {
				m.guardedReadsIn(g, g.Body, out, depth+1)
			}
		case *ast.Ident:
			if v, ok := info.Uses[t].(*types.Var); ok && depth == 0 {
				if _, isParam := paramIndex(f.Root(), v); !isParam {
					if rhs := singleDef(f, v); rhs != nil {
						m.guardedReadsIn(f, rhs, out, depth+1)
					}
				}
			}
		}
		return true
	})
}

func (m *condModel) computeReads(w *waitSite) {
	if w.Loop != nil {
		m.guardedReadsIn(w.F, w.Loop, w.Reads, 0)
		return
	}
	m.guardedReadsIn(w.F, w.F.Body, w.Reads, 0)
}

func condNames(cs []FieldID) string {
	var s []string
	for _, c := range cs {
		s = append(s, c.Name)
	}
	sort.Strings(s)
	return strings.Join(s, "|")
}

// ---------------------------------------------------------------- the rules

func condRules(c *Ctx, owners map[string]bool, floors map[string]int) {
	m := buildCondModel(c, owners)
	R := c.R
	p := c.P
	R.Rule("W1", "every cond.Wait is inside a for loop (never an if), and the loop has an exit that depends on the waited-for state", floors["W1"])
	R.Rule("W1c", "the condition of a wait loop is evaluated on current state: no local bound before the loop to a read of guarded state appears in it, except compared for identity with a fresh read of the same expression (change detection)", floors["W1c"])
	R.Rule("W2", "before parking, every wait loop re-checks the owner's closed flag (containers) and selects on ctx.Done(), each leading to a return", floors["W2"])
	R.Rule("W2b", "every function that parks starts a watcher goroutine that, when the context ends, notifies the same cond the function parks on, and cancels the derived context on return", floors["W2b"])
	R.Rule("W3", "notify-after-write: for every state component read by a wait predicate and every function that writes it, every path from the write to the function's exit passes a notification of every cond whose waiters read that component", floors["W3"])
	R.Rule("W4", "every Signal/Broadcast executes with the cond's locker held (otherwise it can fall between a waiter's check and its Wait)", floors["W4"])
	R.Rule("W6", "a notification that discharges a W3 obligation is a Broadcast (conds are shared by waiters with different predicates); the single tabled exception is the empty→non-empty transition signal", floors["W6"])
	R.Rule("W7", "a function whose wait loop is trivially true on entry always parks; no caller reaches it on every path (a call made while the condition already holds must not block)", floors["W7"])

	// ---- W1, W2, W2b per wait site
	for _, w := range m.waits {
		at := w.F.Name + "/Wait(" + condNames(w.Conds) + ")"
		pos := p.Position(w.Call.Pos())
		if w.Loop == nil {
			R.Fail("W1", at, pos, "cond.Wait is not inside a for loop: a woken waiter does not re-check its predicate (spurious or stolen wake-ups)")
			continue
		}
		// W1b: exit depends on state: loop condition mentions guarded state, or a return inside the loop is guarded by it
		exitOK := false
		if w.Loop.Cond != nil {
			rs := map[FieldID]bool{}
			m.guardedReadsIn(w.F, w.Loop.Cond, rs, 0)
			exitOK = len(rs) > 0
		}
		if !exitOK {
			walkNoLit(w.Loop.Body, func(x ast.Node) bool {
				ifs, ok := x.(*ast.IfStmt)
				if !ok || !containsReturnOrBreak(ifs.Body) {
					return true
				}
				rs := map[FieldID]bool{}
				m.guardedReadsIn(w.F, ifs.Cond, rs, 0)
				for id := range rs {
					if id.Name != "closed" {
						exitOK = true
					}
				}
				return true
			})
		}
		R.Check(exitOK, "W1", at, pos, "Wait inside a for loop whose exit depends on "+fieldSet(w.Reads), "the loop around Wait has no exit that depends on the waited-for state: a satisfied predicate does not end the wait")

		// W1c: the predicate is evaluated on the current state. A local bound before the loop to an expression
		// that reads guarded state is a snapshot; it may appear in the loop condition only in the change-detection
		// idiom `snap == <the same expression, read again>`.
		if w.Loop.Cond != nil {
			info := w.F.Info()
			stale := ""
			walkNoLit(w.Loop.Cond, func(x ast.Node) bool {
				id, ok := x.(*ast.Ident)
				if !ok || stale != "" {
					return true
				}
				v, ok := info.Uses[id].(*types.Var)
				if !ok || v.IsField() {
					return true
				}
				if _, isParam := paramIndex(w.F.Root(), v); isParam {
					return true
				}
				rhs := singleDef(w.F, v)
				if rhs == nil || !(rhs.Pos() < w.Loop.Pos()) {
					return true
				}
				rs := map[FieldID]bool{}
				m.guardedReadsIn(w.F, rhs, rs, 0)
				if len(rs) == 0 {
					return true
				}
				if be, ok := p.Parent(id).(*ast.BinaryExpr); ok && (be.Op == token.EQL || be.Op == token.NEQ) {
					other := be.X
					if ast.Unparen(be.X) == ast.Expr(id) {
						other = be.Y
					}
					if types.ExprString(ast.Unparen(other)) == types.ExprString(ast.Unparen(rhs)) {
						return true
					}
				}
				stale = fmt.Sprintf("the loop condition uses %s, bound before the loop to %s (%s): the predicate is decided on a snapshot, a change made while parked is not seen", id.Name, types.ExprString(rhs), fieldSet(rs))
				return true
			})
			R.Check(stale == "", "W1c", at, pos, "the loop condition reads the guarded state anew on every iteration", stale)
		}

		// W2
		ownerHasClosed := false
		for _, cd := range w.Conds {
			if _, ok := m.la.guards[FieldID{cd.Pkg, cd.Type, "closed"}]; ok {
				ownerHasClosed = true
			}
		}
		fl := newFlow(w.F)
		closedOK := !ownerHasClosed
		var closedDetail string
		if ownerHasClosed {
			walkNoLit(w.Loop.Body, func(x ast.Node) bool {
				ifs, ok := x.(*ast.IfStmt)
				if !ok || !containsReturn(ifs.Body) {
					return true
				}
				rs := map[FieldID]bool{}
				m.guardedReadsIn(w.F, ifs.Cond, rs, 0)
				for id := range rs {
					if id.Name == "closed" && fl.Dominates(ifs.Cond, w.Call) {
						closedOK = true
					}
				}
				return true
			})
			closedDetail = "the wait loop does not test the owner's closed flag before parking: a waiter that is woken by Close re-parks and never returns"
		}
		ctxOK := false
		if sel := enclosingSelect(p, w.Call); sel != nil && p.inside(sel, w.Loop) {
			for _, cl := range sel.Body.List {
				cc := cl.(*ast.CommClause)
				if cc.Comm != nil && isCtxDoneRecv(w.F.Info(), cc.Comm) && containsReturnStmts(cc.Body) {
					ctxOK = true
				}
			}
		}
		switch {
		case !closedOK:
			R.Fail("W2", at, pos, closedDetail)
		case !ctxOK:
			R.Fail("W2", at, pos, "cond.Wait is not the default arm of a select whose ctx.Done() arm returns: a cancelled waiter re-parks")
		default:
			d := "ctx.Done() arm returns"
			if ownerHasClosed {
				d = "closed flag tested before parking; " + d
			}
			R.OK("W2", at, pos, d)
		}

		// W2b: watcher
		m.checkWatcher(w, at, pos)
	}

	// ---- W4 per notify site (and waits)
	for _, a := range m.la.accesses {
		if a.CondOp == "" {
			continue
		}
		rel := false
		for _, cd := range a.Conds {
			if m.conds[cd] {
				rel = true
			}
		}
		if !rel {
			continue
		}
		at := fmt.Sprintf("%s/%s(%s)", a.F.Name, a.CondOp, condNames(a.Conds))
		if n := countSame(m.la.accesses, a); n > 1 {
			at += fmt.Sprintf("#%d", ordinalOf(m.la.accesses, a))
		}
		pos := p.Position(a.Node.Pos())
		if a.Held {
			d := "lock set " + a.Locks
			if a.Deferred {
				d = "deferred; runs with " + a.Locks
			}
			R.OK("W4", at, pos, d)
			continue
		}
		r := m.la.res[a.F]
		switch {
		case a.F.Parent == nil && !a.F.Exported():
			R.OK("W4", at, pos, "in a lock-required helper; the mutex is held at its call sites (L2)")
		case a.F.Parent != nil && r != nil && (r.kind == litSync || r.kind == litDeferred) && !a.F.Root().Exported():
			R.OK("W4", at, pos, "in a synchronous literal of a lock-required helper (L2)")
		default:
			R.Fail("W4", at, pos, fmt.Sprintf("%s on %s with lock set %s: the cond's locker (%s) is not held, so the notification can fall between a waiter's predicate check and its Wait and be lost", a.CondOp, condNames(a.Conds), a.Locks, a.Lock))
		}
	}

	// ---- W3 / W6
	m.notifyAfterWrite()

	// ---- W7
	m.noUnconditionalPark()

	// ---- W8
	m.checkBeforePark(floors["W8"])
}

func countSame(all []guardedAccess, a guardedAccess) int {
	n := 0
	for _, b := range all {
		if b.F == a.F && b.CondOp == a.CondOp && condNames(b.Conds) == condNames(a.Conds) {
			n++
		}
	}
	return n
}
func ordinalOf(all []guardedAccess, a guardedAccess) int {
	n := 0
	for _, b := range all {
		if b.F == a.F && b.CondOp == a.CondOp && condNames(b.Conds) == condNames(a.Conds) {
			n++
			if b.Node == a.Node {
				return n
			}
		}
	}
	return n
}

func fieldSet(m map[FieldID]bool) string {
	var s []string
	for id := range m {
		s = append(s, id.Type+"."+id.Name)
	}
	sort.Strings(s)
	return "{" + strings.Join(s, ",") + "}"
}

func containsReturn(b *ast.BlockStmt) bool { return containsReturnStmts(b.List) }
func containsReturnStmts(list []ast.Stmt) bool {
	found := false
	for _, s := range list {
		walkNoLit(s, func(x ast.Node) bool {
			if _, ok := x.(*ast.ReturnStmt); ok {
				found = true
			}
			return !found
		})
	}
	return found
}
func containsReturnOrBreak(b *ast.BlockStmt) bool {
	found := containsReturn(b)
	walkNoLit(b, func(x ast.Node) bool {
		if br, ok := x.(*ast.BranchStmt); ok && br.Tok == token.BREAK {
			found = true
		}
		return !found
	})
	return found
}

func enclosingSelect(p *Prog, n ast.Node) *ast.SelectStmt {
	for x := p.Parent(n); x != nil; x = p.Parent(x) {
		switch t := x.(type) {
		case *ast.SelectStmt:
			return t
		case *ast.FuncLit, *ast.FuncDecl:
			return nil
		}
	}
	return nil
}

// isCtxDoneRecv: the statement receives from <ctx>.Done() of a context.Context.
func isCtxDoneRecv(info *types.Info, s ast.Stmt) bool {
	var e ast.Expr
	switch t := s.(type) {
	case *ast.ExprStmt:
		e = t.X
	case *ast.AssignStmt:
		if len(t.Rhs) == 1 {
			e = t.Rhs[0]
		}
	}
	return isCtxDoneRecvExpr(info, e)
}

func isCtxDoneRecvExpr(info *types.Info, e ast.Expr) bool {
	u, ok := ast.Unparen(e).(*ast.UnaryExpr)
	if !ok || u.Op != token.ARROW {
		return false
	}
	call, ok := ast.Unparen(u.X).(*ast.CallExpr)
	if !ok {
		return false
	}
	return callName(info, call) == "context.Context.Done"
}

// checkWatcher: W2b.
func (m *condModel) checkWatcher(w *waitSite, at, pos string) {
	R := m.c.R
	p := m.c.P
	root := w.F
	info := root.Info()
	// the watcher: a go-literal in the same function: <-ctx.Done() then Broadcast on a superset of the waited conds
	var found, cancelDeferred bool
	var wrong string
	for _, lf := range root.Lits {
		if k, _ := m.la.classifyLit(lf); k != litAsync {
			continue
		}
		var done ast.Node
		walkNoLit(lf.Body, func(x ast.Node) bool {
			if es, ok := x.(*ast.ExprStmt); ok && isCtxDoneRecvExpr(info, es.X) && done == nil {
				done = es
			}
			return true
		})
		if done == nil {
			continue
		}
		walkNoLit(lf.Body, func(x ast.Node) bool {
			call, ok := x.(*ast.CallExpr)
			if !ok || condFuncs[callName(info, call)] != "Broadcast" || call.Pos() < done.Pos() {
				return true
			}
			got := m.la.condFields(lf, recvExpr(call))
			if supersetFields(got, w.Conds) {
				if newFlow(root).Dominates(lf.Lit, w.Call) {
					found = true
				} else {
					wrong = "the watcher goroutine is started on some paths to the Wait only (it is conditional); on the others neither a cancellation nor the waiter's own return (defer cancel → Broadcast, which is what passes the rest of a burst on after the single transition Signal, see W6) wakes anybody"
				}
			} else {
				wrong = fmt.Sprintf("the watcher broadcasts %s but the function parks on %s", condNames(got), condNames(w.Conds))
			}
			return true
		})
	}
	// defer cancel()
	walkNoLit(root.Body, func(x ast.Node) bool {
		ds, ok := x.(*ast.DeferStmt)
		if !ok {
			return true
		}
		if id, ok := ast.Unparen(ds.Call.Fun).(*ast.Ident); ok {
			if v, ok := info.Uses[id].(*types.Var); ok && typeIs(v.Type(), "context", "CancelFunc") {
				cancelDeferred = true
			}
		}
		return true
	})
	switch {
	case !found && wrong != "":
		R.Fail("W2b", at, pos, wrong+": cancellation wakes nobody parked here")
	case !found:
		R.Fail("W2b", at, pos, "no watcher goroutine of the form `go func(){ <-ctx.Done(); …; cond.Broadcast() }()` for the cond this function parks on: a cancelled waiter stays parked")
	case !cancelDeferred:
		R.Fail("W2b", at, pos, "the derived context is not cancelled on return (no `defer cancel()`): the watcher goroutine leaks until the caller's context ends")
	default:
		R.OK("W2b", at, pos, "watcher broadcasts "+condNames(w.Conds)+" on ctx.Done(); cancel deferred")
	}
	_ = p
}

func supersetFields(got, want []FieldID) bool {
	for _, w := range want {
		ok := false
		for _, g := range got {
			if g == w {
				ok = true
			}
		}
		if !ok {
			return false
		}
	}
	return len(want) > 0
}

// ------------------------------------------------------------------ W3 / W6

type writeSite struct {
	F     *Func
	Node  ast.Node
	Field FieldID
	// errGuard: the write is a call `if err := x.add(); err != nil { return }`:
	// it took effect only on the fall-through branch
	ErrIf *ast.IfStmt
}

func (m *condModel) writeSites() []writeSite {
	var out []writeSite
	p := m.c.P
	for _, f := range p.Funcs {
		sp := shortPkg(f.Pkg.PkgPath)
		relevant := false
		for o := range m.owners {
			if strings.HasPrefix(o, sp+".") {
				relevant = true
			}
		}
		if !relevant {
			continue
		}
		info := f.Info()
		walkNoLit(f.Body, func(x ast.Node) bool {
			switch t := x.(type) {
			case *ast.AssignStmt:
				for _, l := range t.Lhs {
					if se, ok := ast.Unparen(l).(*ast.SelectorExpr); ok {
						if id, ok := m.guardedField(f, se); ok {
							if ap, ok := pathOf(info, se.X); ok && m.la.freshPath(f, ap) {
								continue // construction
							}
							out = append(out, writeSite{F: f, Node: t, Field: id})
						}
					}
				}
			case *ast.IncDecStmt:
				if se, ok := ast.Unparen(t.X).(*ast.SelectorExpr); ok {
					if id, ok := m.guardedField(f, se); ok {
						out = append(out, writeSite{F: f, Node: t, Field: id})
					}
				}
			case *ast.CallExpr:
				// mutating method on an interface-typed guarded field
				se, ok := ast.Unparen(t.Fun).(*ast.SelectorExpr)
				if !ok {
					return true
				}
				rse, ok := ast.Unparen(se.X).(*ast.SelectorExpr)
				if !ok {
					return true
				}
				id, ok := m.guardedField(f, rse)
				if !ok {
					return true
				}
				if !m.isMutatingMethod(f, t) {
					return true
				}
				ws := writeSite{F: f, Node: t, Field: id}
				// if err := x.add(); err != nil {...}
				if as, ok := p.Parent(t).(*ast.AssignStmt); ok {
					if ifs, ok := p.Parent(as).(*ast.IfStmt); ok && ifs.Init == ast.Stmt(as) {
						ws.ErrIf = ifs
					}
				}
				out = append(out, ws)
			}
			return true
		})
	}
	return out
}

func (m *condModel) guardedField(f *Func, se *ast.SelectorExpr) (FieldID, bool) {
	s := f.Info().Selections[se]
	if s == nil || s.Kind() != types.FieldVal {
		return FieldID{}, false
	}
	id, ok := m.c.P.Field(s.Obj().(*types.Var))
	if !ok || isCondType(s.Obj().Type()) {
		return id, false
	}
	g, ok := m.la.guards[id]
	if !ok || !m.owners[g.LockOwner.Pkg+"."+g.LockOwner.Type] {
		return id, false
	}
	return id, true
}

// isMutatingMethod: an interface method is mutating when some implementation
// in the package assigns a receiver field.
func (m *condModel) isMutatingMethod(f *Func, call *ast.CallExpr) bool {
	fn := calleeFunc(f.Info(), call)
	if fn == nil {
		return false
	}
	for k := range m.mutating {
		if strings.HasPrefix(k, fn.Name()+"@") {
			// implementation must implement the receiver's interface
			return true
		}
	}
	return false
}

func (m *condModel) notifyAfterWrite() {
	R := m.c.R
	p := m.c.P
	// which conds' waiters read which fields
	condReads := map[FieldID]map[FieldID]bool{}
	waitFuncs := map[FieldID]map[string]bool{}
	for _, w := range m.waits {
		for _, cd := range w.Conds {
			if condReads[cd] == nil {
				condReads[cd] = map[FieldID]bool{}
				waitFuncs[cd] = map[string]bool{}
			}
			for id := range w.Reads {
				condReads[cd][id] = true
			}
			waitFuncs[cd][w.F.Root().Name] = true
		}
	}
	var conds []FieldID
	for cd := range condReads {
		conds = append(conds, cd)
	}
	sort.Slice(conds, func(i, j int) bool { return conds[i].String() < conds[j].String() })
	// notifier summaries: functions that notify a cond on every path (for calls)
	type key struct {
		f    *Func
		cond FieldID
	}
	alwaysNotifies := map[key]string{}
	for _, ns := range m.notifys {
		if ns.Guard == nil && ns.F.Parent == nil {
			for _, cd := range ns.Conds {
				if len(ns.Conds) == 1 {
					alwaysNotifies[key{ns.F, cd}] = ns.Op
				}
			}
		}
	}
	for _, ws := range m.writeSites() {
		fl := newFlow(ws.F)
		from, ok := fl.At(ws.Node)
		if !ok {
			continue
		}
		for _, cd := range conds {
			if cd.Pkg != ws.Field.Pkg || !condReads[cd][ws.Field] {
				continue
			}
			// the cond must belong to the owner of the written field
			g := m.la.guards[ws.Field]
			if g.LockOwner.Type != cd.Type {
				continue
			}
			at := fmt.Sprintf("%s/%s→%s", ws.F.Name, ws.Field.Name, cd.Name)
			pos := p.Position(ws.Node.Pos())
			exKey := ws.F.Name + "/" + cd.Name
			if why, ok := w3NotRequired[exKey]; ok {
				R.Exception("W3", exKey+": "+why)
				R.OK("W3", at, pos, "tabled: "+why)
				continue
			}
			info := ws.F.Info()
			// which nodes notify cd?
			usedOp := ""
			notifies := func(n ast.Node) bool {
				hit := false
				walkNoLit(n, func(x ast.Node) bool {
					call, ok := x.(*ast.CallExpr)
					if !ok {
						return true
					}
					if op := condFuncs[callName(info, call)]; op == "Signal" || op == "Broadcast" {
						for _, c2 := range m.la.condFields(ws.F, recvExpr(call)) {
							if c2 == cd && len(m.la.condFields(ws.F, recvExpr(call))) == 1 {
								// a notification under a guard counts only if the guard is accepted
								if guard := m.enclosingGuard(ws.F, call); guard != nil && !m.guardAccepted(ws.F, cd, guard, exKey) {
									continue
								}
								hit = true
								if usedOp == "" || op == "Signal" {
									usedOp = op
								}
							}
						}
					}
					if g := p.FuncOf(calleeFunc(info, call)); g != nil {
						if op, ok := alwaysNotifies[key{g, cd}]; ok {
							hit = true
							if usedOp == "" || op == "Signal" {
								usedOp = op
							}
						}
					}
					return true
				})
				return hit
			}
			// deferred notifications registered in the function: they run on every exit
			deferredHit := false
			walkNoLit(ws.F.Body, func(x ast.Node) bool {
				ds, ok := x.(*ast.DeferStmt)
				if !ok {
					return true
				}
				// the defer must be registered on every path that reaches an exit after the write:
				// accept when it dominates the write or is itself after the write on all paths (checked by the path search below)
				if notifies(ds.Call) && fl.Dominates(ds, ws.Node) {
					deferredHit = true
				}
				return true
			})
			if deferredHit {
				m.w6(at, pos, cd, usedOp, exKey)
				R.OK("W3", at, pos, fmt.Sprintf("deferred %s of %s registered before the write", usedOp, cd.Name))
				continue
			}
			// a notification issued earlier in the same critical section is as good as a later one: the
			// woken waiter cannot run before the mutex is released, i.e. after the write (L4 reports an
			// unlock/re-lock between the two)
			earlier := false
			for _, b := range fl.G.Blocks {
				for _, n := range b.Nodes {
					if _, isDefer := n.(*ast.DeferStmt); isDefer {
						continue
					}
					if n.End() <= ws.Node.Pos() && notifies(n) && fl.Dominates(n, ws.Node) && m.enclosingGuard(ws.F, n) == nil {
						if st, ok := m.la.StateAt(ws.F, n); ok && len(st) > 0 || (m.la.res[ws.F] != nil && len(m.la.res[ws.F].reqs) > 0) {
							earlier = true
						}
					}
				}
			}
			if earlier {
				m.w6(at, pos, cd, usedOp, exKey)
				R.OK("W3", at, pos, fmt.Sprintf("%s of %s issued before the write in the same critical section", usedOp, cd.Name))
				continue
			}
			cut := func(n ast.Node) bool {
				if ws.ErrIf != nil && p.inside(n, ws.ErrIf.Body) {
					return true // the write did not happen on the error branch
				}
				if ds, ok := n.(*ast.DeferStmt); ok {
					return notifies(ds.Call)
				}
				// a guarded notification appears as a node inside the if body; the
				// path search walks CFG nodes, so an accepted guard is handled by
				// treating the if condition node as the cut
				if e, ok := n.(ast.Expr); ok {
					if ifs, ok := p.Parent(n).(*ast.IfStmt); ok && ifs.Cond == e {
						if m.guardAccepted(ws.F, cd, ifs.Cond, exKey) && notifies(ifs.Body) {
							return true
						}
					}
				}
				return notifies(n)
			}
			start := from
			if ws.ErrIf != nil {
				if bn, ok := fl.At(ws.ErrIf.Cond); ok {
					start = bn
				}
			}
			path, bad := fl.pathToExitAvoiding(start, cut)
			if bad {
				var ps []string
				for _, n := range path {
					ps = append(ps, fmt.Sprintf("%s: %s", p.Position(n.Pos()), nodeStr(n)))
				}
				R.Fail("W3", at, pos, fmt.Sprintf("%s writes %s, which the waiters on %s (%s) read, but a path from the write to the exit notifies nobody on %s: a waiter whose predicate just became true stays parked", ws.F.Name, ws.Field, cd.Name, strings.Join(keys(waitFuncs[cd]), ", "), cd.Name), ps...)
				continue
			}
			m.w6(at, pos, cd, usedOp, exKey)
			R.OK("W3", at, pos, fmt.Sprintf("every path from the write to the exit passes %s of %s", usedOp, cd.Name))
		}
	}
}

func nodeStr(n ast.Node) string {
	switch t := n.(type) {
	case ast.Expr:
		return exprStr(t)
	case *ast.ExprStmt:
		return exprStr(t.X)
	case *ast.ReturnStmt:
		s := "return"
		for i, r := range t.Results {
			if i > 0 {
				s += ","
			}
			s += " " + exprStr(r)
		}
		return s
	case *ast.AssignStmt:
		return exprStr(t.Lhs[0]) + " " + t.Tok.String() + " " + exprStr(t.Rhs[0])
	case *ast.DeferStmt:
		return "defer " + exprStr(t.Call)
	case *ast.IncDecStmt:
		return exprStr(t.X) + t.Tok.String()
	}
	return fmt.Sprintf("%T", n)
}

func (m *condModel) w6(at, pos string, cd FieldID, op, exKey string) {
	R := m.c.R
	if op == "Broadcast" {
		R.OK("W6", at, pos, "Broadcast")
		return
	}
	if why, ok := w6SignalAllowed[exKey]; ok {
		R.Exception("W6", exKey+": "+why)
		R.OK("W6", at, pos, "Signal, tabled: "+why)
		return
	}
	R.Fail("W6", at, pos, fmt.Sprintf("the state change is announced on %s with Signal: the cond is shared by waiters with different predicates (or several waiters of one kind), so the single woken waiter may be one whose predicate is still false, which re-parks and the enabled waiter sleeps on", cd.Name))
}

// guardAccepted: a notification under `if guard` discharges the obligation
// when the guard is the waiter's own wake condition, or the tabled transition
// guard.
func (m *condModel) guardAccepted(f *Func, cd FieldID, guard ast.Expr, exKey string) bool {
	g := exprStr(guard)
	if want, ok := w3GuardAllowed[exKey]; ok && normGuard(g) == normGuard(want) {
		return true
	}
	// waiter's wake condition: an `if cond { return }` inside a wait loop on cd
	// (or the negation of the loop condition), compared on resolved field reads
	for _, w := range m.waits {
		has := false
		for _, c2 := range w.Conds {
			if c2 == cd {
				has = true
			}
		}
		if !has || w.Loop == nil {
			continue
		}
		match := false
		walkNoLit(w.Loop.Body, func(x ast.Node) bool {
			if ifs, ok := x.(*ast.IfStmt); ok && containsReturn(ifs.Body) {
				if m.sameCondition(f, guard, w.F, ifs.Cond) {
					match = true
				}
			}
			return true
		})
		if match {
			return true
		}
	}
	return false
}

func normGuard(s string) string { return strings.Join(strings.Fields(s), "") }

// sameCondition compares two boolean expressions after replacing receiver
// variables by their types (wg.counter == 0 in Add vs. in Wait).
func (m *condModel) sameCondition(f1 *Func, e1 ast.Expr, f2 *Func, e2 ast.Expr) bool {
	a, b := nonNegNorm(m.normExpr(f1, e1)), nonNegNorm(m.normExpr(f2, e2))
	return a == b && a != ""
}

// nonNegNorm: for the counters that V1 keeps non-negative (the invariant check
// dominates every store), `x <= 0` means `x == 0` and `x > 0` means `x != 0`.
func nonNegNorm(s string) string {
	for _, fld := range []string{".counter"} {
		s = strings.ReplaceAll(s, fld+"<=0", fld+"==0")
		s = strings.ReplaceAll(s, fld+" <= 0", fld+" == 0")
		s = strings.ReplaceAll(s, fld+">0", fld+"!=0")
		s = strings.ReplaceAll(s, fld+" > 0", fld+" != 0")
	}
	return s
}

func (m *condModel) normExpr(f *Func, e ast.Expr) string {
	info := f.Info()
	var b strings.Builder
	var walk func(e ast.Expr) bool
	walk = func(e ast.Expr) bool {
		switch t := ast.Unparen(e).(type) {
		case *ast.BinaryExpr:
			b.WriteString("(")
			ok := walk(t.X)
			b.WriteString(t.Op.String())
			ok = walk(t.Y) && ok
			b.WriteString(")")
			return ok
		case *ast.SelectorExpr:
			if s := info.Selections[t]; s != nil && s.Kind() == types.FieldVal {
				if id, ok := m.c.P.Field(s.Obj().(*types.Var)); ok {
					b.WriteString(id.String())
					return true
				}
			}
			return false
		case *ast.BasicLit:
			b.WriteString(t.Value)
			return true
		case *ast.Ident:
			b.WriteString(t.Name)
			return true
		}
		return false
	}
	if !walk(e) {
		return ""
	}
	return b.String()
}

// ------------------------------------------------------------------- W7

func (m *condModel) noUnconditionalPark() {
	R := m.c.R
	p := m.c.P
	always := map[*Func]string{}
	for _, w := range m.waits {
		if w.Loop == nil || w.Loop.Cond == nil {
			continue
		}
		be, ok := ast.Unparen(w.Loop.Cond).(*ast.BinaryExpr)
		if !ok || be.Op != token.EQL {
			continue
		}
		info := w.F.Info()
		for _, pair := range [][2]ast.Expr{{be.X, be.Y}, {be.Y, be.X}} {
			id, ok := ast.Unparen(pair[0]).(*ast.Ident)
			if !ok {
				continue
			}
			v, ok := info.Uses[id].(*types.Var)
			if !ok {
				continue
			}
			if rhs := singleDef(w.F, v); rhs != nil && exprStr(rhs) == exprStr(pair[1]) {
				always[w.F] = fmt.Sprintf("`%s := %s; for %s`", id.Name, exprStr(rhs), exprStr(w.Loop.Cond))
			}
		}
	}
	n := 0
	for g, why := range always {
		for _, cs := range callSitesOf(m.la, g) {
			n++
			at := fmt.Sprintf("%s/call:%s", cs.f.Name, g.Decl.Name.Name)
			pos := p.Position(cs.call.Pos())
			// is there an entry→exit path of the caller avoiding the call?
			fl := newFlow(cs.f)
			entry := blockNode{fl.G.Blocks[0], -1}
			_, avoid := fl.pathToExitAvoiding(entry, func(x ast.Node) bool {
				hit := false
				walkNoLit(x, func(y ast.Node) bool {
					if y == ast.Node(cs.call) {
						hit = true
					}
					return !hit
				})
				return hit
			})
			R.Check(avoid, "W7", at, pos, g.Name+" always parks ("+why+"); the caller has a path that does not reach it",
				fmt.Sprintf("%s always parks (%s: the loop condition is true on entry) and %s calls it on every path: the operation blocks even when its condition already holds (e.g. on a non-empty container)", g.Name, why, cs.f.Name))
		}
	}
	if n == 0 {
		R.OK("W7", "none", "-", "no always-parking wait function has a caller")
	}
}

// ---------------------------------------------------------------- W8
//
// checkBeforePark: on every path from the function's entry to a cond.Wait the
// waited-for state is read while the cond's locker is held. A check made before
// the lock is taken (a lock-free or separately locked fast path) does not
// count: the state can change, and its notification be sent to nobody, between
// that check and the park.
func (m *condModel) checkBeforePark(floor int) {
	R := m.c.R
	p := m.c.P
	R.Rule("W8", "on every path from function entry to a cond.Wait the waited-for state is read with the cond's locker held (check and park are in one critical section; a predicate evaluated before the lock is taken does not count)", floor)
	for _, w := range m.waits {
		at := w.F.Name + "/Wait(" + condNames(w.Conds) + ")/checked-under-lock"
		pos := p.Position(w.Call.Pos())
		pred := map[FieldID]bool{}
		for id := range w.Reads {
			if id.Name != "closed" {
				pred[id] = true
			}
		}
		if len(pred) == 0 {
			for id := range w.Reads {
				pred[id] = true
			}
		}
		if len(pred) == 0 {
			R.Fail("W8", at, pos, "the wait loop reads no guarded state at all")
			continue
		}
		r := m.la.res[w.F]
		lockRequired := r != nil && len(r.reqs) > 0
		fl := newFlow(w.F)
		target, ok := fl.At(w.Call)
		if !ok {
			R.Undecided("W8", at, pos, "the Wait call has no CFG position")
			continue
		}
		cut := func(n ast.Node) bool {
			rs := map[FieldID]bool{}
			m.guardedReadsIn(w.F, n, rs, 0)
			hit := false
			for id := range rs {
				if pred[id] {
					hit = true
				}
			}
			if !hit {
				return false
			}
			if lockRequired {
				return true
			}
			st, ok := m.la.StateAt(w.F, n)
			if !ok {
				return false
			}
			for _, v := range st {
				if v >= 1 {
					return true
				}
			}
			return false
		}
		path, found := fl.pathToNodeAvoiding(target, cut)
		if found {
			var steps []string
			for _, n := range path {
				steps = append(steps, p.Position(n.Pos())+" "+nodeStr(n))
			}
			R.Fail("W8", at, pos, fmt.Sprintf("%s can reach cond.Wait without having read %s under the lock: a state change (and its notification) that lands after an earlier, unlocked check and before the park is lost, and the waiter sleeps although its condition holds", w.F.Name, fieldSet(pred)), steps...)
		} else {
			R.OK("W8", at, pos, "every path to the park reads "+fieldSet(pred)+" with the lock held")
		}
	}
}
