package main

// E10 — sentinel-free value reads in the intrusive containers of package dt.
//
// dt.List is a ring around a root element whose item is the zero value and
// whose ok flag is false; dt.Stack ends in a head item of the same kind. The
// value of such a sentinel is not a member of the sequence. Q1 decides, for
// every read of an element's value outside the element's own methods, that the
// element is known not to be the sentinel on every path reaching the read
// (a forward must-dataflow over go/cfg; facts are established by the Ok()
// test, by a length test of the owning list, by construction, and by moving
// along a link from an element that is itself known to be a member).
//
// Q2 decides the shape of List.IsSorted with an affine cursor abstraction:
// the loop compares exactly the adjacent pairs (e_i, e_i+1), i = 1..n-1, in
// the orientation lt(later, earlier) ⇒ false.

import (
	"fmt"
	"go/ast"
	"go/constant"
	"go/token"
	"go/types"
	"sort"
	"strings"

	"golang.org/x/tools/go/cfg"
)

type okSet map[string]bool // nil = ⊤ (unreached)

func (s okSet) clone() okSet {
	out := okSet{}
	for k := range s {
		out[k] = true
	}
	return out
}

func (s okSet) String() string {
	var ks []string
	for k := range s {
		ks = append(ks, k)
	}
	sort.Strings(ks)
	return "{" + strings.Join(ks, " ") + "}"
}

func meetOk(a, b okSet) okSet {
	if a == nil {
		return b.clone()
	}
	if b == nil {
		return a
	}
	out := okSet{}
	for k := range a {
		if b[k] {
			out[k] = true
		}
	}
	return out
}

func sameOk(a, b okSet) bool {
	if (a == nil) != (b == nil) || len(a) != len(b) {
		return false
	}
	for k := range a {
		if !b[k] {
			return false
		}
	}
	return true
}

type okAnalysis struct {
	f    *Func
	p    *Prog
	info *types.Info
	in   map[*cfg.Block]okSet
	fl   *flow
}

func isDtNode(t types.Type) bool {
	return typeIs(t, "dt", "Element") || typeIs(t, "dt", "Item")
}

func isDtContainer(t types.Type) bool {
	return typeIs(t, "dt", "List") || typeIs(t, "dt", "Stack")
}

func objKey(o types.Object) string {
	if o == nil {
		return "?"
	}
	return fmt.Sprintf("%s@%d", o.Name(), o.Pos())
}

// pure calls do not change the structure of any list.
var dtPureMethods = map[string]bool{"Ok": true, "Value": true, "Next": true, "Previous": true, "Len": true, "Front": true, "Back": true, "In": true, "String": true, "Head": true, "lazySetup": true}

func (a *okAnalysis) identObj(e ast.Expr) types.Object {
	if id, ok := ast.Unparen(e).(*ast.Ident); ok {
		if o := a.info.Uses[id]; o != nil {
			return o
		}
		return a.info.Defs[id]
	}
	return nil
}

// link recognises X.Next() / X.next (dir=+1) and X.Previous() / X.prev (dir=-1).
func (a *okAnalysis) link(e ast.Expr) (base ast.Expr, dir int) {
	e = ast.Unparen(e)
	if call, ok := e.(*ast.CallExpr); ok && len(call.Args) == 0 {
		if se, ok := ast.Unparen(call.Fun).(*ast.SelectorExpr); ok {
			if tv, ok := a.info.Types[se.X]; ok && isDtNode(tv.Type) {
				switch se.Sel.Name {
				case "Next":
					return se.X, +1
				case "Previous":
					return se.X, -1
				}
			}
		}
		return nil, 0
	}
	if se, ok := e.(*ast.SelectorExpr); ok {
		if tv, ok := a.info.Types[se.X]; ok && isDtNode(tv.Type) {
			switch se.Sel.Name {
			case "next":
				return se.X, +1
			case "prev":
				return se.X, -1
			}
		}
	}
	return nil, 0
}

// endOf recognises L.Front() / L.Back() / L.PopFront() / L.PopBack() on a list.
func (a *okAnalysis) endOf(e ast.Expr) (list ast.Expr, name string) {
	call, ok := ast.Unparen(e).(*ast.CallExpr)
	if !ok || len(call.Args) != 0 {
		return nil, ""
	}
	se, ok := ast.Unparen(call.Fun).(*ast.SelectorExpr)
	if !ok {
		return nil, ""
	}
	if tv, ok := a.info.Types[se.X]; ok && typeIs(tv.Type, "dt", "List") {
		switch se.Sel.Name {
		case "Front", "Back", "PopFront", "PopBack":
			return se.X, se.Sel.Name
		}
	}
	return nil, ""
}

// isOk: e denotes a non-sentinel element in state st.
func (a *okAnalysis) isOk(e ast.Expr, st okSet) bool {
	e = ast.Unparen(e)
	if o := a.identObj(e); o != nil {
		return st["ok:"+objKey(o)]
	}
	if base, dir := a.link(e); base != nil {
		if o := a.identObj(base); o != nil {
			if dir > 0 {
				return st["next:"+objKey(o)]
			}
			return st["prev:"+objKey(o)]
		}
		// L.root.Next() is L.Front(), L.root.Previous() is L.Back()
		if se, ok := ast.Unparen(base).(*ast.SelectorExpr); ok && se.Sel.Name == "root" {
			if tv, ok := a.info.Types[se.X]; ok && typeIs(tv.Type, "dt", "List") {
				return st["ne:"+exprStr(se.X)]
			}
		}
		return false
	}
	if l, _ := a.endOf(e); l != nil {
		return st["ne:"+exprStr(l)]
	}
	if call, ok := e.(*ast.CallExpr); ok {
		switch callName(a.info, call) {
		case "dt.NewElement", "dt.makeElem", "dt.NewItem":
			return true
		}
	}
	return false
}

func (a *okAnalysis) kill(st okSet, o types.Object) {
	k := objKey(o)
	delete(st, "ok:"+k)
	delete(st, "prev:"+k)
	delete(st, "next:"+k)
	for f := range st {
		if strings.HasPrefix(f, "ne:") {
			root := strings.TrimPrefix(f, "ne:")
			if i := strings.IndexAny(root, ".[("); i >= 0 {
				root = root[:i]
			}
			if root == o.Name() {
				delete(st, f)
			}
		}
	}
}

func (a *okAnalysis) killStructure(st okSet) {
	for f := range st {
		if strings.HasPrefix(f, "ne:") || strings.HasPrefix(f, "prev:") || strings.HasPrefix(f, "next:") {
			delete(st, f)
		}
	}
}

func (a *okAnalysis) impureCall(n ast.Node) bool {
	impure := false
	walkNoLit(n, func(x ast.Node) bool {
		call, ok := x.(*ast.CallExpr)
		if !ok {
			return true
		}
		if tv, ok := a.info.Types[call.Fun]; ok && tv.IsType() {
			return true // conversion
		}
		obj := calleeObj(a.info, call)
		switch o := obj.(type) {
		case *types.Builtin:
			return true
		case *types.Func:
			sig, _ := o.Type().(*types.Signature)
			if sig != nil && sig.Recv() != nil {
				rt := sig.Recv().Type()
				if (isDtNode(rt) || isDtContainer(rt) || typeIs(rt, "dt", "Heap")) && dtPureMethods[o.Name()] {
					return true
				}
			}
			switch fname(o.Origin()) {
			case "dt.NewElement", "dt.makeElem", "dt.NewItem":
				return true
			}
			impure = true
		case *types.Var:
			// a call through a function-typed variable / parameter / field (lt, h.LT): comparison
			// functions are assumed not to restructure the list they are sorting
			return true
		default:
			impure = true
		}
		return true
	})
	return impure
}

func (a *okAnalysis) assign(st okSet, lhs, rhs ast.Expr, pre okSet) {
	o := a.identObj(lhs)
	if o == nil {
		return
	}
	if _, isVar := o.(*types.Var); !isVar {
		return
	}
	if !isDtNode(o.Type()) {
		a.kill(st, o)
		return
	}
	var gen []string
	if rhs != nil {
		k := objKey(o)
		if a.isOk(rhs, pre) {
			gen = append(gen, "ok:"+k)
		}
		if base, dir := a.link(rhs); base != nil && a.isOk(base, pre) {
			// moving along a link from a member: the element we came from is the neighbour on the other side
			if dir > 0 {
				gen = append(gen, "prev:"+k)
			} else {
				gen = append(gen, "next:"+k)
			}
		}
	}
	a.kill(st, o)
	// facts generated from a structural premise survive only if the statement does not restructure
	for _, g := range gen {
		st[g] = true
	}
}

func (a *okAnalysis) transfer(in okSet, n ast.Node) okSet {
	st := in.clone()
	pre := in
	impure := a.impureCall(n)
	switch s := n.(type) {
	case *ast.AssignStmt:
		if impure {
			a.killStructure(st)
		}
		if len(s.Lhs) == len(s.Rhs) {
			for i := range s.Lhs {
				a.assign(st, s.Lhs[i], s.Rhs[i], pre)
			}
		} else {
			for _, l := range s.Lhs {
				a.assign(st, l, nil, pre)
			}
		}
		if impure {
			// link facts derived in this very statement from a list that was restructured by it are void
			for f := range st {
				if strings.HasPrefix(f, "prev:") || strings.HasPrefix(f, "next:") {
					delete(st, f)
				}
			}
		}
		return st
	case *ast.DeclStmt:
		if gd, ok := s.Decl.(*ast.GenDecl); ok {
			for _, sp := range gd.Specs {
				if vs, ok := sp.(*ast.ValueSpec); ok {
					for i, nm := range vs.Names {
						var rhs ast.Expr
						if i < len(vs.Values) {
							rhs = vs.Values[i]
						}
						a.assign(st, nm, rhs, pre)
					}
				}
			}
		}
	case *ast.ValueSpec:
		for i, nm := range s.Names {
			var rhs ast.Expr
			if i < len(s.Values) {
				rhs = s.Values[i]
			}
			a.assign(st, nm, rhs, pre)
		}
	case *ast.RangeStmt:
		for _, l := range []ast.Expr{s.Key, s.Value} {
			if l != nil {
				a.assign(st, l, nil, pre)
			}
		}
	}
	if impure {
		a.killStructure(st)
	}
	return st
}

// lenBound recognises L.Len() OP k / len-field comparisons and reports whether
// the comparison (on the given truth edge) implies that L is not empty.
func (a *okAnalysis) lenBound(cond ast.Expr, truth bool) (string, bool) {
	be, ok := ast.Unparen(cond).(*ast.BinaryExpr)
	if !ok {
		return "", false
	}
	listOf := func(e ast.Expr) ast.Expr {
		e = ast.Unparen(e)
		if call, ok := e.(*ast.CallExpr); ok && len(call.Args) == 0 && selName(call) == "Len" {
			if tv, ok := a.info.Types[recvExpr(call)]; ok && typeIs(tv.Type, "dt", "List") {
				return recvExpr(call)
			}
		}
		if se, ok := e.(*ast.SelectorExpr); ok && se.Sel.Name == "length" {
			if tv, ok := a.info.Types[se.X]; ok && typeIs(tv.Type, "dt", "List") {
				return se.X
			}
		}
		return nil
	}
	l := listOf(be.X)
	kexpr := be.Y
	op := be.Op
	if l == nil {
		if l = listOf(be.Y); l == nil {
			return "", false
		}
		kexpr = be.X
		switch op { // k OP len  ⇔  len OP' k
		case token.LSS:
			op = token.GTR
		case token.LEQ:
			op = token.GEQ
		case token.GTR:
			op = token.LSS
		case token.GEQ:
			op = token.LEQ
		}
	}
	tv, ok := a.info.Types[kexpr]
	if !ok || tv.Value == nil {
		return "", false
	}
	k, exact := constant.Int64Val(constant.ToInt(tv.Value))
	if !exact {
		return "", false
	}
	if !truth {
		switch op {
		case token.LSS:
			op = token.GEQ
		case token.LEQ:
			op = token.GTR
		case token.GTR:
			op = token.LEQ
		case token.GEQ:
			op = token.LSS
		case token.EQL:
			op = token.NEQ
		case token.NEQ:
			op = token.EQL
		}
	}
	nonEmpty := false
	switch op {
	case token.GTR:
		nonEmpty = k >= 0
	case token.GEQ:
		nonEmpty = k >= 1
	case token.NEQ:
		nonEmpty = k == 0
	case token.EQL:
		nonEmpty = k >= 1
	}
	return exprStr(l), nonEmpty
}

func (a *okAnalysis) edge(in okSet, cond ast.Expr, truth bool) okSet {
	st := in
	cond = ast.Unparen(cond)
	// this version of go/cfg keeps short-circuit conditions whole: decompose them here
	switch t := cond.(type) {
	case *ast.UnaryExpr:
		if t.Op == token.NOT {
			return a.edge(in, t.X, !truth)
		}
	case *ast.BinaryExpr:
		if (t.Op == token.LAND && truth) || (t.Op == token.LOR && !truth) {
			// both operands have the same truth value on this edge; the right one is evaluated after the left
			return a.edge(a.edge(in, t.X, truth), t.Y, truth)
		}
		if t.Op == token.LAND || t.Op == token.LOR {
			return in
		}
	}
	if l, ne := a.lenBound(cond, truth); ne {
		st = in.clone()
		st["ne:"+l] = true
		return st
	}
	if call, ok := cond.(*ast.CallExpr); ok && truth && selName(call) == "Ok" && len(call.Args) == 0 {
		x := recvExpr(call)
		if tv, ok := a.info.Types[x]; ok && isDtNode(tv.Type) {
			if o := a.identObj(x); o != nil {
				st = in.clone()
				st["ok:"+objKey(o)] = true
			} else if base, dir := a.link(x); base != nil {
				if o := a.identObj(base); o != nil {
					st = in.clone()
					if dir > 0 {
						st["next:"+objKey(o)] = true
					} else {
						st["prev:"+objKey(o)] = true
					}
				}
			}
		}
		return st
	}
	// item == s.head → leave  (Stack: Pop returns the sentinel head when the stack is empty)
	if be, ok := cond.(*ast.BinaryExpr); ok && (be.Op == token.EQL || be.Op == token.NEQ) {
		want := be.Op == token.NEQ
		if truth == want {
			for _, pr := range [][2]ast.Expr{{be.X, be.Y}, {be.Y, be.X}} {
				o := a.identObj(pr[0])
				se, isSel := ast.Unparen(pr[1]).(*ast.SelectorExpr)
				if o == nil || !isSel || !isDtNode(o.Type()) {
					continue
				}
				if tv, ok := a.info.Types[se.X]; ok && typeIs(tv.Type, "dt", "Stack") && se.Sel.Name == "head" {
					st = in.clone()
					st["ok:"+objKey(o)] = true
				}
			}
		}
	}
	return st
}

func newOkAnalysis(f *Func) *okAnalysis {
	a := &okAnalysis{f: f, p: f.Prog, info: f.Info(), in: map[*cfg.Block]okSet{}, fl: newFlow(f)}
	g := f.CFG()
	if len(g.Blocks) == 0 {
		return a
	}
	a.in[g.Blocks[0]] = okSet{}
	work := []*cfg.Block{g.Blocks[0]}
	for len(work) > 0 {
		b := work[0]
		work = work[1:]
		st := a.in[b]
		for _, n := range b.Nodes {
			st = a.transfer(st, n)
		}
		for i, s := range b.Succs {
			out := st
			if len(b.Succs) == 2 && len(b.Nodes) > 0 {
				if cond, ok := b.Nodes[len(b.Nodes)-1].(ast.Expr); ok {
					out = a.edge(st, cond, i == 0)
				}
			}
			nw := meetOk(a.in[s], out)
			if !sameOk(nw, a.in[s]) {
				a.in[s] = nw
				work = append(work, s)
			}
		}
	}
	return a
}

// before returns the state just before the CFG node that contains n.
func (a *okAnalysis) before(n ast.Node) (okSet, bool) {
	bn, ok := a.fl.At(n)
	if !ok {
		return nil, false
	}
	st := a.in[bn.B]
	if st == nil {
		return nil, false // unreachable
	}
	for i := 0; i < bn.I; i++ {
		st = a.transfer(st, bn.B.Nodes[i])
	}
	return st, true
}

// ruleQ1: sentinel-free value reads.
func ruleQ1(c *Ctx, floor int) {
	p := c.P
	R := c.R
	R.Rule("Q1", "every read of an element's value (X.Value(), X.item) outside the element's own methods happens where X is known, on every path, not to be the root/head sentinel: Ok()-tested, taken from a list known to be non-empty, constructed, or reached over a link from a known member", floor)
	analyses := map[*Func]*okAnalysis{}
	get := func(f *Func) *okAnalysis {
		if analyses[f] == nil {
			analyses[f] = newOkAnalysis(f)
		}
		return analyses[f]
	}
	for _, f := range p.FuncsIn("dt") {
		info := f.Info()
		recv := recvObject(f.Root())
		n := 0
		walkNoLit(f.Body, func(x ast.Node) bool {
			var base ast.Expr
			switch t := x.(type) {
			case *ast.CallExpr:
				if selName(t) == "Value" && len(t.Args) == 0 {
					base = recvExpr(t)
				}
			case *ast.SelectorExpr:
				if t.Sel.Name == "item" {
					if s := info.Selections[t]; s != nil && s.Kind() == types.FieldVal {
						base = t.X
					}
				}
			}
			if base == nil {
				return true
			}
			tv, ok := info.Types[base]
			if !ok || !isDtNode(tv.Type) {
				return true
			}
			// a store to X.item is not a read
			if as, ok := p.Parent(x).(*ast.AssignStmt); ok {
				for _, l := range as.Lhs {
					if l == x {
						return true
					}
				}
			}
			if id, ok := ast.Unparen(base).(*ast.Ident); ok && recv != nil && info.Uses[id] == recv && f.Parent == nil && isDtNode(recv.Type()) {
				return true // the element's own accessor: the caller answers for Ok
			}
			n++
			at := fmt.Sprintf("%s/value(%s)#%d", f.Name, exprStr(base), n)
			pos := p.Position(x.Pos())
			a := get(f)
			st, reach := a.before(x)
			if !reach {
				R.OK("Q1", at, pos, "unreachable")
				return true
			}
			// (a) established by the dataflow
			if a.isOk(base, st) {
				R.OK("Q1", at, pos, "known member here: "+st.String())
				return true
			}
			// (b) the value is handed out together with its own validity flag
			if rs, ok := enclosingReturn(p, x); ok {
				for _, r := range rs.Results {
					if call, ok := ast.Unparen(r).(*ast.CallExpr); ok && selName(call) == "Ok" && exprStr(recvExpr(call)) == exprStr(base) {
						R.OK("Q1", at, pos, "returned together with "+exprStr(base)+".Ok()")
						return true
					}
				}
			}
			// (c) element of a local slice that only ever receives known members
			if ix, ok := ast.Unparen(base).(*ast.IndexExpr); ok {
				if so := a.identObj(ix.X); so != nil {
					if why, ok := sliceOfMembers(p, f.Root(), so, get); ok {
						R.OK("Q1", at, pos, why)
						return true
					}
				}
			}
			R.Fail("Q1", at, pos, fmt.Sprintf("%s reads the value of %s where it may be the sentinel (facts here: %s): the zero value of the root/head would be observed as a member of the sequence", f.Name, exprStr(base), st.String()))
			return true
		})
	}
}

func enclosingReturn(p *Prog, n ast.Node) (*ast.ReturnStmt, bool) {
	for x := p.Parent(n); x != nil; x = p.Parent(x) {
		switch t := x.(type) {
		case *ast.ReturnStmt:
			return t, true
		case *ast.FuncLit, *ast.FuncDecl, *ast.BlockStmt:
			return nil, false
		}
	}
	return nil, false
}

// sliceOfMembers: every assignment to the slice variable so, anywhere in root
// (including its literals), is make(...)/nil or append(so, E...) with every E a
// known member at that point.
func sliceOfMembers(p *Prog, root *Func, so types.Object, get func(*Func) *okAnalysis) (string, bool) {
	ok := true
	appends := 0
	var visit func(g *Func)
	visit = func(g *Func) {
		info := g.Info()
		walkNoLit(g.Body, func(x ast.Node) bool {
			var lhs []ast.Expr
			var rhs []ast.Expr
			switch t := x.(type) {
			case *ast.AssignStmt:
				lhs, rhs = t.Lhs, t.Rhs
			case *ast.ValueSpec:
				for _, nm := range t.Names {
					lhs = append(lhs, nm)
				}
				rhs = t.Values
			default:
				return true
			}
			for i, l := range lhs {
				id, isId := ast.Unparen(l).(*ast.Ident)
				if !isId || (info.Uses[id] != so && info.Defs[id] != so) {
					continue
				}
				if i >= len(rhs) || len(lhs) != len(rhs) {
					if len(rhs) == 0 {
						continue // var s []T
					}
					ok = false
					continue
				}
				call, isCall := ast.Unparen(rhs[i]).(*ast.CallExpr)
				switch {
				case isCall && isBuiltinCall(info, call, "make"):
				case isNilIdent(info, rhs[i]):
				case isCall && isBuiltinCall(info, call, "append") && len(call.Args) >= 1 && call.Ellipsis == token.NoPos:
					if aid, isId := ast.Unparen(call.Args[0]).(*ast.Ident); !isId || info.Uses[aid] != so {
						ok = false
						break
					}
					a := get(g)
					st, reach := a.before(x)
					for _, e := range call.Args[1:] {
						if reach && !a.isOk(e, st) {
							ok = false
						}
					}
					appends++
				default:
					ok = false
				}
			}
			return true
		})
		for _, l := range g.Lits {
			visit(l)
		}
	}
	visit(root)
	if !ok || appends == 0 {
		return "", false
	}
	return fmt.Sprintf("element of %s, which is only ever filled by append with known members (%d site(s))", so.Name(), appends), true
}

// ---------------------------------------------------------------------------
// Q2 — List.IsSorted compares exactly the adjacent pairs.

// cursorIdx is the abstract position of an element expression: Off relative
// to the front of the list (front = 1, root = 0).
type cursorIdx struct {
	ok  bool
	off int
}

func ruleQ2(c *Ctx) {
	p := c.P
	R := c.R
	R.Rule("Q2", "List.IsSorted answers true for lists shorter than two and otherwise walks a cursor so that lt is applied to exactly the adjacent pairs (e_i, e_i+1), i = 1..n-1, as lt(e_i+1, e_i) ⇒ false; it returns true only after the walk (affine cursor abstraction: front = 1, Next = +1, Previous = -1)", 1)
	f := p.FuncNamed("dt.(*List).IsSorted")
	at := "dt.(*List).IsSorted/adjacent-pairs"
	if f == nil {
		R.Fail("Q2", at, "-", "dt.(*List).IsSorted not found")
		return
	}
	pos := p.Position(f.Pos())
	info := f.Info()
	recv := recvObject(f)
	ltObj := paramObj(f, 0)
	if recv == nil || ltObj == nil {
		R.Undecided("Q2", at, pos, "receiver or comparison parameter not found")
		return
	}
	a := &okAnalysis{f: f, p: p, info: info}
	// (1) short lists: a dominating `if … l.Len() <= 1 … { return true }`
	var loop *ast.ForStmt
	shortOK := false
	var finalRet *ast.ReturnStmt
	for _, s := range f.Body.List {
		switch t := s.(type) {
		case *ast.IfStmt:
			if loop != nil {
				continue
			}
			bound := false
			ast.Inspect(t.Cond, func(x ast.Node) bool {
				if e, ok := x.(ast.Expr); ok {
					if _, ne := a.lenBound(e, false); ne {
						if be, ok := ast.Unparen(e).(*ast.BinaryExpr); ok {
							if tv := info.Types[be.Y]; tv.Value != nil {
								k, _ := constant.Int64Val(constant.ToInt(tv.Value))
								if (be.Op == token.LEQ && k == 1) || (be.Op == token.LSS && k == 2) {
									bound = true
								}
							}
						}
					}
				}
				return true
			})
			if bound && len(t.Body.List) == 1 && returnsBool(info, t.Body.List[0], true) && !strings.Contains(exprStr(t.Cond), "&&") {
				shortOK = true
			}
		case *ast.ForStmt:
			if loop == nil {
				loop = t
			}
		case *ast.ReturnStmt:
			finalRet = t
		}
	}
	if loop == nil {
		R.Undecided("Q2", at, pos, "no for loop at the top level of IsSorted: the walk was restructured beyond what the cursor abstraction reads")
		return
	}
	if !shortOK {
		R.Fail("Q2", at, pos, "no leading `if l.Len() <= 1 { return true }`: the walk below assumes at least two elements (front and its successor exist)")
		return
	}
	// (2) positions of variables before the loop
	idx := map[types.Object]int{}
	var eval func(e ast.Expr) cursorIdx
	eval = func(e ast.Expr) cursorIdx {
		e = ast.Unparen(e)
		if o := a.identObj(e); o != nil {
			if v, ok := idx[o]; ok {
				return cursorIdx{true, v}
			}
			return cursorIdx{}
		}
		if base, dir := a.link(e); base != nil {
			b := eval(base)
			if !b.ok {
				return cursorIdx{}
			}
			return cursorIdx{true, b.off + dir}
		}
		if l, nm := a.endOf(e); l != nil && nm == "Front" && a.identObj(l) == recv {
			return cursorIdx{true, 1}
		}
		if se, ok := e.(*ast.SelectorExpr); ok && se.Sel.Name == "root" && a.identObj(se.X) == recv {
			return cursorIdx{true, 0}
		}
		return cursorIdx{}
	}
	bind := func(s ast.Stmt) bool {
		as, ok := s.(*ast.AssignStmt)
		if !ok || len(as.Lhs) != 1 || len(as.Rhs) != 1 {
			return false
		}
		o := a.identObj(as.Lhs[0])
		v := eval(as.Rhs[0])
		if o == nil || !v.ok {
			return false
		}
		idx[o] = v.off
		return true
	}
	for _, s := range f.Body.List {
		if s == ast.Stmt(loop) {
			break
		}
		if as, ok := s.(*ast.AssignStmt); ok {
			if !bind(as) {
				R.Undecided("Q2", at, p.Position(as.Pos()), "statement before the loop is not a cursor binding the abstraction understands: "+stmtStr(p, as))
				return
			}
		}
	}
	if loop.Init != nil && !bind(loop.Init) {
		R.Undecided("Q2", at, p.Position(loop.Pos()), "loop init is not a cursor binding")
		return
	}
	// (3) the loop condition: C.Ok() (d = 0) or C.Next().Ok()/C.next.Ok() (d = 1)
	var cur types.Object
	d := 0
	if call, ok := ast.Unparen(loop.Cond).(*ast.CallExpr); ok && selName(call) == "Ok" {
		x := recvExpr(call)
		if o := a.identObj(x); o != nil {
			cur = o
		} else if base, dir := a.link(x); base != nil && dir > 0 {
			cur, d = a.identObj(base), 1
		}
	}
	if cur == nil {
		R.Undecided("Q2", at, p.Position(loop.Pos()), "loop condition is not <cursor>.Ok() or <cursor>.Next().Ok()")
		return
	}
	start, ok := idx[cur]
	if !ok {
		R.Undecided("Q2", at, p.Position(loop.Pos()), "the cursor has no known start position")
		return
	}
	// (4) the step: cursor = cursor.Next()
	stepOK := false
	if as, ok := loop.Post.(*ast.AssignStmt); ok && len(as.Lhs) == 1 && len(as.Rhs) == 1 && a.identObj(as.Lhs[0]) == cur {
		if base, dir := a.link(as.Rhs[0]); base != nil && dir > 0 && a.identObj(base) == cur {
			stepOK = true
		}
	}
	if !stepOK {
		R.Undecided("Q2", at, p.Position(loop.Pos()), "loop post statement is not <cursor> = <cursor>.Next()")
		return
	}
	// (5) the body: one `if lt(A, B) { return false }`, optionally followed by trailing
	// assignments `v = cursor` that keep v one behind the cursor
	rel := map[types.Object]int{} // offset relative to the cursor at the top of the body
	for o, v := range idx {
		rel[o] = v - start
	}
	var cmp *ast.CallExpr
	for i, s := range loop.Body.List {
		switch t := s.(type) {
		case *ast.IfStmt:
			call, ok := ast.Unparen(t.Cond).(*ast.CallExpr)
			if !ok || a.identObj(call.Fun) != ltObj || len(call.Args) != 2 || t.Init != nil || t.Else != nil || len(t.Body.List) != 1 || !returnsBool(info, t.Body.List[0], false) || cmp != nil {
				R.Undecided("Q2", at, p.Position(t.Pos()), "the loop body's test is not `if lt(a, b) { return false }`")
				return
			}
			cmp = call
		case *ast.AssignStmt:
			// trailing v = cursor: at the next iteration v is one behind
			o := a.identObj(t.Lhs[0])
			if len(t.Lhs) != 1 || len(t.Rhs) != 1 || o == nil || a.identObj(t.Rhs[0]) != cur || i != len(loop.Body.List)-1 {
				R.Undecided("Q2", at, p.Position(t.Pos()), "assignment in the loop body is not a trailing `v = cursor`")
				return
			}
			if r, ok := rel[o]; !ok || r != -1 {
				R.Fail("Q2", at, p.Position(t.Pos()), fmt.Sprintf("%s trails the cursor from the second iteration on but starts at offset %d, not -1: the first comparison uses a different pair than the later ones", o.Name(), rel[o]))
				return
			}
		default:
			R.Undecided("Q2", at, p.Position(s.Pos()), "unexpected statement in the loop body: "+stmtStr(p, s))
			return
		}
	}
	if cmp == nil {
		R.Fail("Q2", at, pos, "the loop never applies lt")
		return
	}
	offOf := func(e ast.Expr) (int, bool) {
		// e is X.Value() or X.item
		e = ast.Unparen(e)
		var base ast.Expr
		if call, ok := e.(*ast.CallExpr); ok && selName(call) == "Value" {
			base = recvExpr(call)
		} else if se, ok := e.(*ast.SelectorExpr); ok && se.Sel.Name == "item" {
			base = se.X
		}
		if base == nil {
			return 0, false
		}
		// relative evaluation
		var ev func(x ast.Expr) (int, bool)
		ev = func(x ast.Expr) (int, bool) {
			x = ast.Unparen(x)
			if o := a.identObj(x); o != nil {
				if o == cur {
					return 0, true
				}
				r, ok := rel[o]
				return r, ok
			}
			if b, dir := a.link(x); b != nil {
				v, ok := ev(b)
				return v + dir, ok
			}
			return 0, false
		}
		return ev(base)
	}
	ao, ok1 := offOf(cmp.Args[0])
	bo, ok2 := offOf(cmp.Args[1])
	if !ok1 || !ok2 {
		R.Undecided("Q2", at, p.Position(cmp.Pos()), "the arguments of lt are not values of elements at a known offset from the cursor")
		return
	}
	if finalRet == nil || !returnsBool(info, finalRet, true) {
		R.Fail("Q2", at, pos, "IsSorted does not end in `return true` after the walk")
		return
	}
	var bad []string
	if ao-bo != 1 {
		bad = append(bad, fmt.Sprintf("lt is applied to offsets (%+d, %+d): it must be lt(later, earlier) on neighbours (difference +1) for `true ⇒ unsorted`", ao, bo))
	}
	if first := start + min(ao, bo); first != 1 {
		bad = append(bad, fmt.Sprintf("the first comparison involves position %d (front is 1, the root sentinel is 0): the first adjacent pair is not (e1, e2)", first))
	}
	if max(ao, bo) != d {
		bad = append(bad, fmt.Sprintf("the walk stops when position cursor%+d leaves the list but compares up to cursor%+d: the last adjacent pair (e_n-1, e_n) is %s", d, max(ao, bo), map[bool]string{true: "never compared", false: "followed by a comparison with the root sentinel"}[max(ao, bo) < d]))
	}
	if len(bad) > 0 {
		R.Fail("Q2", at, p.Position(cmp.Pos()), strings.Join(bad, "; "))
		return
	}
	R.OK("Q2", at, pos, fmt.Sprintf("cursor starts at %d, runs while cursor%+d is a member, compares lt(cursor%+d, cursor%+d) ⇒ false, returns true after the walk", start, d, ao, bo))
}

func returnsBool(info *types.Info, s ast.Stmt, want bool) bool {
	rs, ok := s.(*ast.ReturnStmt)
	if !ok || len(rs.Results) != 1 {
		return false
	}
	tv, ok := info.Types[rs.Results[0]]
	if !ok || tv.Value == nil || tv.Value.Kind() != constant.Bool {
		return false
	}
	return constant.BoolVal(tv.Value) == want
}

func stmtStr(p *Prog, s ast.Stmt) string {
	pos := p.Fset.Position(s.Pos())
	return fmt.Sprintf("%T at line %d", s, pos.Line)
}
