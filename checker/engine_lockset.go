package main

// E1 — guarded state, lock sets, lock-required helpers and escapes.
//
// A forward must-analysis over go/cfg computes, for every function and
// function literal of the module, the set of mutexes held before each
// statement.  Guarded fields (tables.go) may only be touched with the owner's
// mutex in that set; a function that touches them without acquiring becomes
// *lock-required* and the obligation moves to each of its call sites
// (fixpoint).  Function literals inherit the caller's lock set only when they
// are invoked synchronously; literals that escape carry their requirement as a
// property of the function *value*, which must be discharged by
// .WithLock(<that mutex>) before the value leaves the owner's API.

import (
	"fmt"
	"go/ast"
	"go/token"
	"go/types"
	"sort"
	"strings"

	"golang.org/x/tools/go/cfg"
)

type lockSet map[string]int // accessPath key -> 1 (read lock) | 2 (exclusive)

func (s lockSet) clone() lockSet {
	o := lockSet{}
	for k, v := range s {
		o[k] = v
	}
	return o
}

func (s lockSet) String() string {
	var ks []string
	for k, v := range s {
		name := k
		if i := strings.Index(k, "@"); i >= 0 {
			j := strings.Index(k[i:], ".")
			if j < 0 {
				name = k[:i]
			} else {
				name = k[:i] + k[i+j:]
			}
		}
		if v == 1 {
			name += "(r)"
		}
		ks = append(ks, name)
	}
	sort.Strings(ks)
	return "{" + strings.Join(ks, ",") + "}"
}

func meet(a, b lockSet) lockSet {
	o := lockSet{}
	for k, v := range a {
		if w, ok := b[k]; ok {
			if w < v {
				v = w
			}
			o[k] = v
		}
	}
	return o
}

func equalLS(a, b lockSet) bool {
	if len(a) != len(b) {
		return false
	}
	for k, v := range a {
		if b[k] != v {
			return false
		}
	}
	return true
}

// wrapperSpec: the function acquires/releases the mutex found at Path relative
// to its parameter Param (-1: the receiver).
type wrapperSpec struct {
	Param int
	Path  []*types.Var
}

// lockReq is a requirement "this mutex must be held": the mutex is identified
// by the access path Root.Path, or — when ByType — by its field object only.
type lockReq struct {
	Root   types.Object
	Path   []*types.Var
	Field  *types.Var // the mutex field (nil for a local mutex variable)
	ByType bool
	Write  bool
	Why    string // the first access that needs it
	WhyPos token.Pos
}

func (r lockReq) key() string {
	if r.ByType {
		return "type:" + r.Field.Name() + fmt.Sprint(r.Field.Pos())
	}
	return accessPath{r.Root, r.Path}.Key()
}

func (r lockReq) String() string {
	if r.ByType {
		return "any " + r.Field.Name()
	}
	return accessPath{r.Root, r.Path}.String()
}

type litKind int

const (
	litEscapes  litKind = iota // returned, stored, passed to an unknown callee
	litSync                    // invoked on the spot / handed to a synchronous caller
	litDeferred                // runs at function exit
	litAsync                   // runs on another goroutine
)

type funcLocks struct {
	fl     *flow
	entry  lockSet
	in     map[*cfg.Block]lockSet
	at     map[ast.Node]lockSet // state before each top-level CFG node
	exit   lockSet              // held at every normal exit (nil: no exit)
	defRel []deferredRelease    // deferred unlocks, in source order
	reqs   map[string]lockReq   // requirements imposed on whoever runs this body
	kind   litKind
	site   ast.Node // for literals: the CFG node of the parent that holds it
	result map[string]lockReq
}

type deferredRelease struct {
	Pos token.Pos
	Key string
}

type LockAnalysis struct {
	p          *Prog
	guards     map[FieldID]guardSpec
	localGuard map[string]map[string]string // func name -> guarded local -> mutex local
	acquireW   map[*types.Func]wrapperSpec
	releaseW   map[*types.Func]wrapperSpec
	syncParam  map[*types.Func]map[int]bool
	asyncParam map[*types.Func]map[int]bool
	res        map[*Func]*funcLocks
	keyPaths   map[string]accessPath
	// accesses records every guarded access with its verdict (for obligations)
	accesses []guardedAccess
	escapes  []escapeReport
	unknown  []string
}

type guardedAccess struct {
	F      *Func
	Node   ast.Node
	Field  FieldID
	Lock   string
	Held   bool
	Write  bool
	Locks  string
	Exempt string
	// condition-variable operations (Signal/Broadcast/Wait) are recorded as
	// accesses too: they need the cond's locker
	CondOp   string
	Conds    []FieldID
	Deferred bool
}

type escapeReport struct {
	F      *Func
	Pos    token.Pos
	What   string
	Detail string
}

var lockFuncs = map[string]int{
	"sync.(*Mutex).Lock": 2, "sync.(*RWMutex).Lock": 2, "sync.Locker.Lock": 2, "sync.(*RWMutex).RLock": 1,
}
var unlockFuncs = map[string]bool{
	"sync.(*Mutex).Unlock": true, "sync.(*RWMutex).Unlock": true, "sync.Locker.Unlock": true, "sync.(*RWMutex).RUnlock": true,
}

func newLockAnalysis(p *Prog) *LockAnalysis {
	la := &LockAnalysis{p: p, guards: guardTable, localGuard: guardedLocals,
		acquireW: map[*types.Func]wrapperSpec{}, releaseW: map[*types.Func]wrapperSpec{},
		syncParam: map[*types.Func]map[int]bool{}, asyncParam: map[*types.Func]map[int]bool{}, res: map[*Func]*funcLocks{},
		keyPaths: map[string]accessPath{}}
	la.deriveWrappers()
	la.deriveSyncParams()
	la.run()
	return la
}

// ---------------------------------------------------------------- wrappers

// lockRef describes a reference to a Lock/Unlock method in a body: either a
// call m.Lock() or a method value m.Lock handed to a helper.
type lockRef struct {
	X    ast.Expr
	Mode int // 1,2 lock; 0 unlock
	Call bool
}

func lockRefs(info *types.Info, body ast.Node) (locks, unlocks []lockRef) {
	walkNoLit(body, func(n ast.Node) bool {
		sel, ok := n.(*ast.SelectorExpr)
		if !ok {
			return true
		}
		s := info.Selections[sel]
		if s == nil || (s.Kind() != types.MethodVal) {
			return true
		}
		fn, _ := s.Obj().(*types.Func)
		name := fname(fn.Origin())
		if m, ok := lockFuncs[name]; ok {
			locks = append(locks, lockRef{X: sel.X, Mode: m})
		} else if unlockFuncs[name] {
			unlocks = append(unlocks, lockRef{X: sel.X})
		}
		return true
	})
	return
}

func (la *LockAnalysis) deriveWrappers() {
	for _, f := range la.p.Funcs {
		if f.Decl == nil || f.Obj == nil || len(f.Body.List) > 4 {
			continue
		}
		info := f.Info()
		locks, unlocks := lockRefs(info, f.Body)
		var refs []lockRef
		acquire := false
		switch {
		case len(locks) > 0 && len(unlocks) == 0:
			refs, acquire = locks, true
		case len(unlocks) > 0 && len(locks) == 0:
			refs = unlocks
		default:
			continue
		}
		spec, ok := la.wrapperTarget(f, refs[0].X)
		if !ok {
			continue
		}
		if acquire {
			la.acquireW[f.Obj.Origin()] = spec
		} else {
			la.releaseW[f.Obj.Origin()] = spec
		}
	}
}

// wrapperTarget resolves the mutex expression of a wrapper body to a path
// relative to a parameter or the receiver.
func (la *LockAnalysis) wrapperTarget(f *Func, x ast.Expr) (wrapperSpec, bool) {
	info := f.Info()
	ap, ok := pathOf(info, x)
	if !ok {
		return wrapperSpec{}, false
	}
	if idx, ok := paramIndex(f, ap.Root); ok {
		return wrapperSpec{Param: idx, Path: ap.Fields}, true
	}
	// a local initialised from recv.f or recv.f.Get()
	if len(ap.Fields) == 0 {
		if rhs := singleDef(f, ap.Root); rhs != nil {
			e := ast.Unparen(rhs)
			if call, ok := e.(*ast.CallExpr); ok {
				if r := recvExpr(call); r != nil && len(call.Args) == 0 {
					e = r
				}
			}
			if ap2, ok := pathOf(info, e); ok {
				if idx, ok := paramIndex(f, ap2.Root); ok {
					return wrapperSpec{Param: idx, Path: ap2.Fields}, true
				}
			}
		}
	}
	return wrapperSpec{}, false
}

// paramIndex: -1 for the receiver, i for the i-th parameter.
func paramIndex(f *Func, obj types.Object) (int, bool) {
	if obj == nil {
		return 0, false
	}
	info := f.Info()
	if f.Decl != nil && f.Decl.Recv != nil {
		for _, fld := range f.Decl.Recv.List {
			for _, nm := range fld.Names {
				if info.Defs[nm] == obj {
					return -1, true
				}
			}
		}
	}
	i := 0
	for _, fld := range f.Type().Params.List {
		if len(fld.Names) == 0 {
			i++
			continue
		}
		for _, nm := range fld.Names {
			if info.Defs[nm] == obj {
				return i, true
			}
			i++
		}
	}
	return 0, false
}

// singleDef returns the initialiser of a local variable that is defined once
// (`v := rhs` / `var v = rhs`) and never reassigned in f, else nil.
func singleDef(f *Func, obj types.Object) ast.Expr {
	info := f.Info()
	var rhs ast.Expr
	n := 0
	ast.Inspect(f.Root().Body, func(x ast.Node) bool {
		switch s := x.(type) {
		case *ast.AssignStmt:
			for i, l := range s.Lhs {
				id, ok := l.(*ast.Ident)
				if !ok {
					continue
				}
				if info.Defs[id] == obj || info.Uses[id] == obj {
					n++
					if len(s.Rhs) == len(s.Lhs) {
						rhs = s.Rhs[i]
					} else {
						rhs = nil
					}
				}
			}
		case *ast.ValueSpec:
			for i, nm := range s.Names {
				if info.Defs[nm] == obj {
					n++
					if i < len(s.Values) {
						rhs = s.Values[i]
					}
				}
			}
		case *ast.UnaryExpr:
			if s.Op == token.AND {
				if id, ok := ast.Unparen(s.X).(*ast.Ident); ok && info.Uses[id] == obj {
					n += 2 // address taken: give up
				}
			}
		case *ast.IncDecStmt:
			if id, ok := s.X.(*ast.Ident); ok && info.Uses[id] == obj {
				n += 2
			}
		}
		return true
	})
	if n == 1 {
		return rhs
	}
	return nil
}

// ---------------------------------------------------------- sync parameters

// deriveSyncParams computes, for every module function, which func-typed
// parameters are only ever invoked synchronously by the body (directly, or by
// being handed to another synchronous position), and which are started on
// another goroutine.
func (la *LockAnalysis) deriveSyncParams() {
	// stdlib entries
	type use struct {
		f   *Func
		idx int
		obj types.Object
	}
	var params []use
	for _, f := range la.p.Funcs {
		if f.Decl == nil || f.Obj == nil {
			continue
		}
		i := 0
		info := f.Info()
		for _, fld := range f.Type().Params.List {
			names := fld.Names
			if len(names) == 0 {
				i++
				continue
			}
			for _, nm := range names {
				obj := info.Defs[nm]
				if obj != nil {
					if _, ok := obj.Type().Underlying().(*types.Signature); ok {
						params = append(params, use{f, i, obj})
					}
				}
				i++
			}
		}
		// function-typed receivers (fun.Operation etc.) are handled as index -1
		if f.Decl.Recv != nil {
			for _, fld := range f.Decl.Recv.List {
				for _, nm := range fld.Names {
					obj := info.Defs[nm]
					if obj != nil {
						if _, ok := obj.Type().Underlying().(*types.Signature); ok {
							params = append(params, use{f, -1, obj})
						}
					}
				}
			}
		}
	}
	// optimistic start: all sync, then remove
	for _, u := range params {
		o := u.f.Obj.Origin()
		if la.syncParam[o] == nil {
			la.syncParam[o] = map[int]bool{}
		}
		la.syncParam[o][u.idx] = true
	}
	for changed := true; changed; {
		changed = false
		for _, u := range params {
			o := u.f.Obj.Origin()
			if !la.syncParam[o][u.idx] {
				continue
			}
			if !la.paramOnlySync(u.f, u.obj) {
				la.syncParam[o][u.idx] = false
				changed = true
			}
		}
	}
}

// isSyncPosition reports whether argument i of call is invoked synchronously
// by the callee (module function by derivation, stdlib by table).
func (la *LockAnalysis) isSyncPosition(info *types.Info, call *ast.CallExpr, i int) bool {
	fn := calleeFunc(info, call)
	if fn == nil {
		return false
	}
	switch fname(fn) {
	case "sync.(*Once).Do":
		return i == 0
	case "sort.Slice", "sort.SliceStable":
		return i == 1
	}
	if m, ok := la.syncParam[fn]; ok {
		sig := fn.Type().(*types.Signature)
		if sig.Variadic() && i >= sig.Params().Len()-1 {
			i = sig.Params().Len() - 1
		}
		return m[i]
	}
	return false
}

// paramOnlySync: every mention of obj inside f is a direct synchronous call or
// an argument in a synchronous position; never under go, never stored.
func (la *LockAnalysis) paramOnlySync(f *Func, obj types.Object) bool {
	info := f.Info()
	p := la.p
	ok := true
	ast.Inspect(f.Body, func(n ast.Node) bool {
		id, isId := n.(*ast.Ident)
		if !isId || info.Uses[id] != obj {
			return ok
		}
		// the literal chain between the use and f's body must be synchronous
		for x := ast.Node(id); x != nil && x != f.Body; x = p.Parent(x) {
			if lit, isLit := x.(*ast.FuncLit); isLit {
				k, _ := la.classifyLit(p.byLit[lit])
				if k != litSync && k != litDeferred {
					ok = false
					return false
				}
			}
			if _, isGo := x.(*ast.GoStmt); isGo {
				ok = false
				return false
			}
		}
		par := p.Parent(id)
		switch pt := par.(type) {
		case *ast.CallExpr:
			if ast.Unparen(pt.Fun) == ast.Expr(id) {
				if _, isGo := p.Parent(pt).(*ast.GoStmt); isGo {
					ok = false
				}
				return ok
			}
			for i, a := range pt.Args {
				if ast.Unparen(a) == ast.Expr(id) {
					if !la.isSyncPosition(info, pt, i) {
						ok = false
					}
					if _, isGo := p.Parent(pt).(*ast.GoStmt); isGo {
						ok = false
					}
					return ok
				}
			}
			ok = false
		case *ast.BinaryExpr:
			// comparison with nil is harmless
			if !(isNilIdent(info, pt.X) || isNilIdent(info, pt.Y)) {
				ok = false
			}
		case *ast.SelectorExpr:
			// method call on a function-typed receiver: wf.Run(ctx) etc. —
			// treat as synchronous only when the method is itself known to
			// invoke its receiver synchronously
			if call, isCall := p.Parent(pt).(*ast.CallExpr); isCall && ast.Unparen(call.Fun) == ast.Expr(pt) {
				fn := calleeFunc(info, call)
				if fn != nil && la.syncParam[fn] != nil && la.syncParam[fn][-1] {
					if _, isGo := p.Parent(call).(*ast.GoStmt); !isGo {
						return ok
					}
				}
			}
			ok = false
		default:
			ok = false
		}
		return ok
	})
	return ok
}

// classifyLit decides how a function literal is executed relative to the
// statement that contains it, and returns the call that consumes it.
func (la *LockAnalysis) classifyLit(lf *Func) (litKind, ast.Node) {
	if lf == nil || lf.Lit == nil {
		return litEscapes, nil
	}
	p := la.p
	info := lf.Info()
	var n ast.Node = lf.Lit
	par := p.Parent(n)
	for {
		if pe, ok := par.(*ast.ParenExpr); ok {
			n, par = pe, p.Parent(pe)
			continue
		}
		break
	}
	call, ok := par.(*ast.CallExpr)
	if !ok {
		return litEscapes, nil
	}
	outer := p.Parent(call)
	if ast.Unparen(call.Fun) == n {
		switch outer.(type) {
		case *ast.GoStmt:
			return litAsync, call
		case *ast.DeferStmt:
			return litDeferred, call
		}
		return litSync, call
	}
	for i, a := range call.Args {
		if a == n {
			if la.isSyncPosition(info, call, i) {
				switch outer.(type) {
				case *ast.GoStmt:
					return litAsync, call
				case *ast.DeferStmt:
					return litDeferred, call
				}
				return litSync, call
			}
			if la.isAsyncPosition(info, call, i) {
				return litAsync, call
			}
		}
	}
	return litEscapes, call
}

func (la *LockAnalysis) isAsyncPosition(info *types.Info, call *ast.CallExpr, i int) bool {
	return false
}

// ------------------------------------------------------------- the analysis

func (la *LockAnalysis) run() {
	// iterate to a fixpoint on requirements (they flow from callees to callers
	// and from synchronous literals to their parents)
	for round := 0; round < 12; round++ {
		changed := false
		la.accesses = la.accesses[:0]
		la.escapes = la.escapes[:0]
		for _, f := range la.p.Funcs {
			if f.Parent != nil {
				continue // literals are analysed from their parent
			}
			if la.analyse(f, lockSet{}, litEscapes, nil) {
				changed = true
			}
		}
		if !changed {
			break
		}
	}
}

func reqsEqual(a, b map[string]lockReq) bool {
	if len(a) != len(b) {
		return false
	}
	for k := range a {
		if _, ok := b[k]; !ok {
			return false
		}
	}
	return true
}

// analyse runs the dataflow on f with the given entry state, then on its
// literals. It returns whether f's (or a literal's) requirement set changed.
func (la *LockAnalysis) analyse(f *Func, entry lockSet, kind litKind, site ast.Node) bool {
	prev := la.res[f]
	fl := newFlow(f)
	r := &funcLocks{fl: fl, entry: entry, in: map[*cfg.Block]lockSet{}, at: map[ast.Node]lockSet{}, reqs: map[string]lockReq{}, kind: kind, site: site, result: map[string]lockReq{}}
	if prev != nil {
		for k, v := range prev.result {
			r.result[k] = v
		}
	}
	la.res[f] = r
	g := fl.G
	info := f.Info()
	// worklist
	r.in[g.Blocks[0]] = entry.clone()
	work := []*cfg.Block{g.Blocks[0]}
	out := map[*cfg.Block]lockSet{}
	for len(work) > 0 {
		b := work[0]
		work = work[1:]
		st := r.in[b].clone()
		for _, n := range b.Nodes {
			la.transfer(f, info, n, st)
		}
		if o, ok := out[b]; ok && equalLS(o, st) {
			continue
		}
		out[b] = st
		for _, s := range b.Succs {
			if cur, ok := r.in[s]; !ok {
				r.in[s] = st.clone()
				work = append(work, s)
			} else {
				m := meet(cur, st)
				if !equalLS(m, cur) {
					r.in[s] = m
					work = append(work, s)
				}
			}
		}
	}
	// per-node states and exit state
	for _, b := range g.Blocks {
		in, ok := r.in[b]
		if !ok {
			continue
		}
		st := in.clone()
		for _, n := range b.Nodes {
			r.at[n] = st.clone()
			if ds, ok := n.(*ast.DeferStmt); ok {
				if k, ok := la.deferredReleaseKey(f, ds); ok {
					r.defRel = append(r.defRel, deferredRelease{ds.Pos(), k})
				}
			}
			la.transfer(f, info, n, st)
		}
		if len(b.Succs) == 0 && !isPanicExit(info, b) {
			if r.exit == nil {
				r.exit = st.clone()
			} else {
				r.exit = meet(r.exit, st)
			}
		}
	}
	if r.exit == nil {
		r.exit = lockSet{}
	}
	// checks on this body
	for _, b := range g.Blocks {
		if _, ok := r.in[b]; !ok {
			continue
		}
		for _, n := range b.Nodes {
			la.checkNode(f, r, n, r.at[n])
		}
	}
	changed := false
	// literals
	for _, lf := range f.Lits {
		k, _ := la.classifyLit(lf)
		var st lockSet
		var siteNode ast.Node
		if bn, ok := fl.At(lf.Lit); ok {
			siteNode = bn.B.Nodes[bn.I]
		}
		_, consumer := la.classifyLit(lf)
		switch k {
		case litSync:
			st = r.at[siteNode].clone()
			la.addCalleeHeld(f, lf, consumer, st)
		case litDeferred:
			st = la.deferredState(r, siteNode)
			la.addCalleeHeld(f, lf, consumer, st)
		default:
			st = lockSet{}
		}
		if st == nil {
			st = lockSet{}
		}
		if la.analyse(lf, st, k, siteNode) {
			changed = true
		}
		lr := la.res[lf]
		switch k {
		case litSync, litDeferred:
			// unmet requirements of a synchronous literal are requirements of the parent
			for key, q := range lr.reqs {
				if _, ok := r.reqs[key]; !ok {
					r.reqs[key] = q
				}
			}
		case litAsync:
			for _, q := range lr.reqs {
				la.escapes = append(la.escapes, escapeReport{F: lf, Pos: q.WhyPos, What: "async",
					Detail: fmt.Sprintf("goroutine body touches %s without holding %s (a goroutine cannot inherit its launcher's lock)", q.Why, q)})
			}
		}
	}
	if prev == nil || !reqsEqual(prev.reqs, r.reqs) || !reqsEqual(prev.result, r.result) {
		changed = true
	}
	return changed
}

// deferredState is the lock set a deferred call/literal registered at site
// runs with: what is held at the defer statement and at every normal exit,
// minus the mutexes whose deferred release was registered later (LIFO: those
// releases run first).
func (la *LockAnalysis) deferredState(r *funcLocks, site ast.Node) lockSet {
	st := meet(r.at[site], r.exit)
	for _, d := range r.defRel {
		if site != nil && d.Pos > site.Pos() {
			delete(st, d.Key)
		}
	}
	return st
}

// DeferredStateAt is deferredState for a defer statement of f.
func (la *LockAnalysis) DeferredStateAt(f *Func, ds *ast.DeferStmt) lockSet {
	r := la.res[f]
	if r == nil {
		return lockSet{}
	}
	return la.deferredState(r, ds)
}

// addCalleeHeld: a literal handed to a synchronous module function runs with
// whatever that function holds when it invokes the parameter
// (Synchronized.Using locks s.mtx around op()).
func (la *LockAnalysis) addCalleeHeld(f *Func, lf *Func, consumer ast.Node, st lockSet) {
	call, ok := consumer.(*ast.CallExpr)
	if !ok || ast.Unparen(call.Fun) == ast.Expr(lf.Lit) {
		return
	}
	info := f.Info()
	fn := calleeFunc(info, call)
	g := la.p.FuncOf(fn)
	if g == nil || la.res[g] == nil {
		return
	}
	argIdx := -2
	for i, a := range call.Args {
		if ast.Unparen(a) == ast.Expr(lf.Lit) {
			argIdx = i
		}
	}
	if argIdx == -2 {
		return
	}
	pobj := paramObj(g, argIdx)
	if pobj == nil {
		return
	}
	gi := g.Info()
	gr := la.res[g]
	var held lockSet
	walkNoLit(g.Body, func(x ast.Node) bool {
		c, ok := x.(*ast.CallExpr)
		if !ok {
			return true
		}
		uses := false
		if id, ok := ast.Unparen(c.Fun).(*ast.Ident); ok && gi.Uses[id] == pobj {
			uses = true
		}
		for _, a := range c.Args {
			if id, ok := ast.Unparen(a).(*ast.Ident); ok && gi.Uses[id] == pobj {
				uses = true
			}
		}
		if !uses {
			return true
		}
		if bn, ok := gr.fl.At(c); ok {
			here := gr.at[bn.B.Nodes[bn.I]]
			if held == nil {
				held = here.clone()
			} else {
				held = meet(held, here)
			}
		}
		return true
	})
	for k, mode := range held {
		ap, ok := la.keyPaths[k]
		if !ok {
			continue
		}
		idx, ok := paramIndex(g, ap.Root)
		if !ok {
			continue
		}
		var base ast.Expr
		if idx == -1 {
			base = recvExpr(call)
		} else if idx < len(call.Args) {
			base = call.Args[idx]
		}
		if base == nil {
			continue
		}
		if bp, ok := resolvePath(f, base); ok {
			np := accessPath{bp.Root, append(append([]*types.Var{}, bp.Fields...), ap.Fields...)}
			la.keyPaths[np.Key()] = np
			if st[np.Key()] < mode {
				st[np.Key()] = mode
			}
		}
	}
}

// paramObj returns the object of the idx-th parameter of g.
func paramObj(g *Func, idx int) types.Object {
	info := g.Info()
	i := 0
	for _, fld := range g.Type().Params.List {
		if len(fld.Names) == 0 {
			i++
			continue
		}
		for _, nm := range fld.Names {
			if i == idx {
				return info.Defs[nm]
			}
			i++
		}
	}
	return nil
}

// keyOfLockExpr resolves a mutex expression to its lock-set key.
func keyOfLockExpr(info *types.Info, x ast.Expr) (string, bool) {
	ap, ok := pathOf(info, x)
	if !ok {
		return "", false
	}
	return ap.Key(), true
}

// resolvePath is pathOf with one level of local aliasing resolved:
// `m := s.mtx.Get()` / `cond := q.nupdates` make m / cond stand for the path
// on the right-hand side (the local must be defined exactly once).
func resolvePath(f *Func, x ast.Expr) (accessPath, bool) {
	info := f.Info()
	ap, ok := pathOf(info, x)
	if !ok {
		return ap, false
	}
	for depth := 0; depth < 3; depth++ {
		if _, isParam := paramIndex(f.Root(), ap.Root); isParam {
			return ap, true
		}
		rhs := singleDef(f, ap.Root)
		if rhs == nil {
			return ap, true
		}
		e := ast.Unparen(rhs)
		if call, ok := e.(*ast.CallExpr); ok {
			// accessor of an atomic holder: s.mtx.Get()
			r := recvExpr(call)
			if r == nil || len(call.Args) != 0 || (selName(call) != "Get" && selName(call) != "Load") {
				return ap, true
			}
			e = r
		}
		ap2, ok := pathOf(info, e)
		if !ok {
			return ap, true
		}
		ap = accessPath{ap2.Root, append(append([]*types.Var{}, ap2.Fields...), ap.Fields...)}
	}
	return ap, true
}

func (la *LockAnalysis) lockKey(f *Func, x ast.Expr) (string, bool) {
	ap, ok := resolvePath(f, x)
	if !ok {
		return "", false
	}
	la.keyPaths[ap.Key()] = ap
	return ap.Key(), true
}

// transfer applies the effect of one CFG node to the lock set.
func (la *LockAnalysis) transfer(f *Func, info *types.Info, n ast.Node, st lockSet) {
	deferred := false
	if ds, ok := n.(*ast.DeferStmt); ok {
		deferred = true
		// the arguments of a deferred call are evaluated now
		for _, a := range ds.Call.Args {
			la.transferExpr(f, info, a, st)
		}
		if r := recvExpr(ds.Call); r != nil {
			la.transferExpr(f, info, r, st)
		}
		return
	}
	if _, ok := n.(*ast.GoStmt); ok {
		return
	}
	_ = deferred
	la.transferExpr(f, info, n, st)
}

func (la *LockAnalysis) transferExpr(f *Func, info *types.Info, n ast.Node, st lockSet) {
	// post-order over calls so that inner wrappers apply first
	var calls []*ast.CallExpr
	walkNoLit(n, func(x ast.Node) bool {
		if c, ok := x.(*ast.CallExpr); ok {
			calls = append(calls, c)
		}
		return true
	})
	for i := len(calls) - 1; i >= 0; i-- {
		call := calls[i]
		fn := calleeFunc(info, call)
		if fn == nil {
			continue
		}
		name := fname(fn)
		if mode, ok := lockFuncs[name]; ok {
			if k, ok := la.lockKey(f, recvExpr(call)); ok {
				st[k] = mode
			} else {
				la.noteUnknown(f, call, "lock on an expression that is not a variable/field path")
			}
			continue
		}
		if unlockFuncs[name] {
			if k, ok := la.lockKey(f, recvExpr(call)); ok {
				delete(st, k)
			}
			continue
		}
		// m.Lock / m.Unlock handed as a method value to a synchronous helper
		// (ft.WhenCall(m != nil, m.Lock)): the optional-mutex idiom of dt.Set
		for ai, a := range call.Args {
			sel, ok := ast.Unparen(a).(*ast.SelectorExpr)
			if !ok || !la.isSyncPosition(info, call, ai) {
				continue
			}
			if s := info.Selections[sel]; s != nil && s.Kind() == types.MethodVal {
				mn := fname(s.Obj().(*types.Func).Origin())
				if mode, ok := lockFuncs[mn]; ok {
					if k, ok := la.lockKey(f, sel.X); ok {
						st[k] = mode
					}
				} else if unlockFuncs[mn] {
					if k, ok := la.lockKey(f, sel.X); ok {
						delete(st, k)
					}
				}
			}
		}
		if spec, ok := la.acquireW[fn]; ok {
			if k, ok := la.wrapperKey(f, call, spec); ok {
				st[k] = 2
			} else {
				la.noteUnknown(f, call, "acquire wrapper on an unresolvable mutex expression")
			}
			continue
		}
		if spec, ok := la.releaseW[fn]; ok {
			if k, ok := la.wrapperKey(f, call, spec); ok {
				delete(st, k)
			}
			continue
		}
	}
}

// deferredReleaseKey: the mutex released by `defer m.Unlock()` or
// `defer W(A(m))`.
func (la *LockAnalysis) deferredReleaseKey(f *Func, ds *ast.DeferStmt) (string, bool) {
	info := f.Info()
	fn := calleeFunc(info, ds.Call)
	if fn == nil {
		return "", false
	}
	if unlockFuncs[fname(fn)] {
		return la.lockKey(f, recvExpr(ds.Call))
	}
	if spec, ok := la.releaseW[fn]; ok {
		var base ast.Expr
		if spec.Param == -1 {
			base = recvExpr(ds.Call)
		} else if spec.Param < len(ds.Call.Args) {
			base = ds.Call.Args[spec.Param]
		}
		if inner, ok := ast.Unparen(base).(*ast.CallExpr); ok {
			if ifn := calleeFunc(info, inner); ifn != nil {
				if ispec, ok := la.acquireW[ifn]; ok {
					return la.wrapperKey(f, inner, ispec)
				}
			}
		}
		return la.wrapperKey(f, ds.Call, spec)
	}
	return "", false
}

func (la *LockAnalysis) noteUnknown(f *Func, n ast.Node, what string) {
	la.unknown = append(la.unknown, fmt.Sprintf("%s at %s: %s", f.Name, la.p.Position(n.Pos()), what))
}

func (la *LockAnalysis) wrapperKey(f *Func, call *ast.CallExpr, spec wrapperSpec) (string, bool) {
	var base ast.Expr
	if spec.Param == -1 {
		base = recvExpr(call)
	} else if spec.Param < len(call.Args) {
		base = call.Args[spec.Param]
	}
	if base == nil {
		return "", false
	}
	ap, ok := resolvePath(f, base)
	if !ok {
		return "", false
	}
	ap.Fields = append(append([]*types.Var{}, ap.Fields...), spec.Path...)
	la.keyPaths[ap.Key()] = ap
	return ap.Key(), true
}

// isFresh: the variable holds an object allocated in this function (a
// constructor), which no other goroutine can see yet.
func (la *LockAnalysis) isFresh(f *Func, obj types.Object, depth int) bool {
	if obj == nil || depth > 3 {
		return false
	}
	if _, ok := paramIndex(f.Root(), obj); ok {
		return false
	}
	rhs := singleDef(f, obj)
	if rhs == nil {
		return false
	}
	return la.freshExpr(f, rhs, depth)
}

func (la *LockAnalysis) freshExpr(f *Func, e ast.Expr, depth int) bool {
	info := f.Info()
	e = ast.Unparen(e)
	switch t := e.(type) {
	case *ast.UnaryExpr:
		if t.Op == token.AND {
			_, ok := ast.Unparen(t.X).(*ast.CompositeLit)
			return ok
		}
	case *ast.CompositeLit:
		return true
	case *ast.CallExpr:
		if isBuiltinCall(info, t, "new") {
			return true
		}
		fn := calleeFunc(info, t)
		cf := la.p.FuncOf(fn)
		if cf == nil || depth > 3 {
			return false
		}
		// a constructor: every return yields a fresh local
		okAll, any := true, false
		walkNoLit(cf.Body, func(x ast.Node) bool {
			rs, ok := x.(*ast.ReturnStmt)
			if !ok || len(rs.Results) == 0 {
				return true
			}
			any = true
			r0 := ast.Unparen(rs.Results[0])
			if id, ok := r0.(*ast.Ident); ok {
				if !la.isFresh(cf, cf.Info().Uses[id], depth+1) {
					okAll = false
				}
			} else if !la.freshExpr(cf, r0, depth+1) {
				okAll = false
			}
			return true
		})
		return any && okAll
	}
	return false
}

// requiredLock computes which mutex guards the field access sel (nil: not
// guarded).
func (la *LockAnalysis) requiredLock(f *Func, sel *ast.SelectorExpr) (*lockReq, FieldID, bool) {
	info := f.Info()
	s := info.Selections[sel]
	if s == nil || s.Kind() != types.FieldVal {
		return nil, FieldID{}, false
	}
	fv := s.Obj().(*types.Var).Origin()
	id, ok := la.p.Field(fv)
	if !ok {
		return nil, FieldID{}, false
	}
	spec, ok := la.guards[id]
	if !ok {
		return nil, id, false
	}
	lockField := la.lookupField(spec.LockOwner, spec.Lock)
	if lockField == nil {
		return nil, id, false
	}
	req := &lockReq{Field: lockField, Why: id.String(), WhyPos: sel.Pos()}
	if spec.ByType {
		req.ByType = true
		return req, id, true
	}
	ap, ok := resolvePath(f, sel.X)
	if !ok || len(ap.Fields) > 0 {
		// owner reached through a call or through a back pointer (it.list):
		// identify the mutex by its field only
		req.ByType = true
		return req, id, true
	}
	req.Root = ap.Root
	req.Path = append(append([]*types.Var{}, ap.Fields...), lockField)
	return req, id, true
}

func (la *LockAnalysis) lookupField(owner FieldID, name string) *types.Var {
	for fv, id := range la.p.fields {
		if id.Pkg == owner.Pkg && id.Type == owner.Type && id.Name == name {
			return fv
		}
	}
	return nil
}

func (la *LockAnalysis) holds(st lockSet, q *lockReq, write bool) bool {
	need := 1
	if write {
		need = 2
	}
	if !q.ByType {
		if st[q.key()] >= need {
			return true
		}
		return false
	}
	suffix := "." + q.Field.Name()
	for k, v := range st {
		if v >= need && strings.HasSuffix(k, suffix) {
			return true
		}
	}
	return false
}

// isWrite reports whether sel is (part of) an assignment target.
func (la *LockAnalysis) isWrite(sel ast.Expr) bool {
	p := la.p
	var child ast.Node = sel
	for par := p.Parent(child); par != nil; child, par = par, p.Parent(par) {
		switch t := par.(type) {
		case *ast.AssignStmt:
			for _, l := range t.Lhs {
				if l == child {
					return true
				}
			}
			return false
		case *ast.IncDecStmt:
			return t.X == child
		case *ast.ParenExpr:
			continue
		case *ast.UnaryExpr:
			return t.Op == token.AND && false
		default:
			return false
		}
	}
	return false
}

func (la *LockAnalysis) checkNode(f *Func, r *funcLocks, n ast.Node, st lockSet) {
	info := f.Info()
	if _, ok := n.(*ast.GoStmt); ok {
		// arguments of the go call are evaluated here
	}
	walkNoLit(n, func(x ast.Node) bool {
		switch t := x.(type) {
		case *ast.SelectorExpr:
			la.checkAccess(f, r, t, st)
			la.checkFuncRef(f, r, t, t.Sel, st)
		case *ast.Ident:
			if _, isSel := la.p.Parent(t).(*ast.SelectorExpr); !isSel {
				la.checkFuncRef(f, r, t, t, st)
				la.checkLocalGuard(f, r, t, st)
			} else if se := la.p.Parent(t).(*ast.SelectorExpr); se.X == ast.Expr(t) {
				la.checkLocalGuard(f, r, t, st)
			}
		case *ast.CallExpr:
			la.checkCall(f, r, t, st)
		}
		return true
	})
	_ = info
}

func (la *LockAnalysis) checkLocalGuard(f *Func, r *funcLocks, id *ast.Ident, st lockSet) {
	root := f.Root()
	tab := la.localGuard[root.Name]
	if tab == nil {
		return
	}
	info := f.Info()
	obj, _ := info.Uses[id].(*types.Var)
	if obj == nil {
		return
	}
	lockName, ok := tab[obj.Name()]
	if !ok || f == root { // the declaration itself only declares the variables
		return
	}
	// find the mutex variable of that name in the root function
	var mobj types.Object
	ast.Inspect(root.Body, func(x ast.Node) bool {
		if d, ok := x.(*ast.Ident); ok && d.Name == lockName {
			if o := info.Defs[d]; o != nil {
				mobj = o
			}
		}
		return mobj == nil
	})
	if mobj == nil {
		return
	}
	q := &lockReq{Root: mobj, Why: root.Name + "/" + obj.Name(), WhyPos: id.Pos()}
	write := la.isWrite(id)
	held := la.holds(st, q, write)
	acc := guardedAccess{F: f, Node: id, Field: FieldID{"local", root.Name, obj.Name()}, Lock: lockName, Held: held, Write: write, Locks: st.String()}
	if !held {
		why, tabled := lockExceptions[root.Name+"/"+obj.Name()+"/"+accessCtx(la.p, id)]
		if tabled && !la.publishedByAtomic(f, obj) {
			tabled = false
			la.escapes = append(la.escapes, escapeReport{F: f, Pos: id.Pos(), What: "premise",
				Detail: fmt.Sprintf("%s reads %s on its lock-free fast path; that is safe only while the atomic counter is stored AFTER the guarded value was written under the mutex, and in this version an atomic store is not dominated by the write: a caller that takes the fast path can read the value while it is being written (data race) or before it exists", root.Name, obj.Name())})
		}
		if tabled {
			acc.Exempt = why
			acc.Held = true
		} else {
			q.Write = write
			r.reqs[q.key()] = *q
		}
	}
	la.accesses = append(la.accesses, acc)
}

// accessCtx names the syntactic context of an access for the exception table.
func accessCtx(p *Prog, n ast.Node) string {
	for x := p.Parent(n); x != nil; x = p.Parent(x) {
		switch t := x.(type) {
		case *ast.ReturnStmt:
			if ifs, ok := p.Parent(p.Parent(t)).(*ast.IfStmt); ok {
				return "return-under-if:" + exprStr(ifs.Cond)
			}
			return "return"
		case *ast.FuncLit, *ast.FuncDecl:
			return ""
		}
	}
	return ""
}

func (la *LockAnalysis) checkAccess(f *Func, r *funcLocks, sel *ast.SelectorExpr, st lockSet) {
	q, id, guarded := la.requiredLock(f, sel)
	if !guarded {
		return
	}
	info := f.Info()
	write := la.isWrite(sel)
	acc := guardedAccess{F: f, Node: sel, Field: id, Lock: q.String(), Write: write, Locks: st.String()}
	if ap, ok := pathOf(info, sel.X); ok && la.freshPath(f, ap) {
		acc.Held, acc.Exempt = true, "object under construction (allocated in this function)"
		la.accesses = append(la.accesses, acc)
		return
	}
	acc.Held = la.holds(st, q, write)
	if !acc.Held {
		q.Write = write
		q.Why = fmt.Sprintf("%s (%s)", id, exprStr(sel))
		r.reqs[q.key()] = *q
	}
	la.accesses = append(la.accesses, acc)
}

// translateReq re-expresses a callee's requirement in the caller's terms.
func (la *LockAnalysis) translateReq(callee *Func, q lockReq, info *types.Info, call *ast.CallExpr) lockReq {
	if q.ByType {
		return q
	}
	idx, ok := paramIndex(callee.Root(), q.Root)
	if !ok {
		if q.Field != nil {
			q.ByType = true
		}
		return q
	}
	var base ast.Expr
	if idx == -1 {
		base = recvExpr(call)
	} else if idx < len(call.Args) {
		base = call.Args[idx]
	}
	if base != nil {
		if ap, ok := pathOf(info, base); ok {
			q.Root = ap.Root
			q.Path = append(append([]*types.Var{}, ap.Fields...), q.Path...)
			return q
		}
	}
	if q.Field != nil {
		q.ByType = true
	}
	return q
}

// condOwnerLock: for a *sync.Cond held in field c of an owner struct that also
// owns a guarded field, the mutex the cond is tied to.
func (la *LockAnalysis) condOwnerLock(c FieldID) (*types.Var, bool) {
	for id, g := range la.guards {
		if g.LockOwner.Pkg == c.Pkg && g.LockOwner.Type == c.Type && id.Pkg == c.Pkg {
			if lf := la.lookupField(g.LockOwner, g.Lock); lf != nil {
				return lf, true
			}
		}
	}
	return nil, false
}

// condFields resolves a *sync.Cond expression to the set of cond fields it may
// denote (a local assigned in several branches yields several).
func (la *LockAnalysis) condFields(f *Func, x ast.Expr) []FieldID {
	info := f.Info()
	var out []FieldID
	add := func(e ast.Expr) {
		ap, ok := resolvePath(f, e)
		if !ok || len(ap.Fields) == 0 {
			return
		}
		if id, ok := la.p.Field(ap.Fields[len(ap.Fields)-1]); ok {
			for _, o := range out {
				if o == id {
					return
				}
			}
			out = append(out, id)
		}
	}
	if id, ok := ast.Unparen(x).(*ast.Ident); ok {
		obj := info.Uses[id]
		if singleDef(f, obj) == nil {
			// all assignments to the local
			ast.Inspect(f.Root().Body, func(n ast.Node) bool {
				if as, ok := n.(*ast.AssignStmt); ok && len(as.Lhs) == len(as.Rhs) {
					for i, l := range as.Lhs {
						if lid, ok := l.(*ast.Ident); ok && (info.Uses[lid] == obj || info.Defs[lid] == obj) {
							add(as.Rhs[i])
						}
					}
				}
				return true
			})
			return out
		}
	}
	add(x)
	return out
}

var condFuncs = map[string]string{"sync.(*Cond).Signal": "Signal", "sync.(*Cond).Broadcast": "Broadcast", "sync.(*Cond).Wait": "Wait"}

func (la *LockAnalysis) checkCondOp(f *Func, r *funcLocks, call *ast.CallExpr, st lockSet, deferred bool) {
	info := f.Info()
	op, ok := condFuncs[callName(info, call)]
	if !ok {
		return
	}
	conds := la.condFields(f, recvExpr(call))
	if len(conds) == 0 {
		la.noteUnknown(f, call, "sync.Cond operation on an expression that does not resolve to a cond field")
		return
	}
	lf, ok := la.condOwnerLock(conds[0])
	if !ok {
		return
	}
	q := &lockReq{Field: lf, ByType: true, Why: fmt.Sprintf("%s of %s", op, conds[0]), WhyPos: call.Pos(), Write: true}
	// per-variable identity when the cond is reached directly from a variable
	if ap, ok := resolvePath(f, recvExpr(call)); ok && len(ap.Fields) == 1 {
		q.ByType, q.Root, q.Path = false, ap.Root, []*types.Var{lf}
	}
	held := la.holds(st, q, true)
	acc := guardedAccess{F: f, Node: call, Field: conds[0], Lock: q.String(), Held: held, Write: true, Locks: st.String(), CondOp: op, Conds: conds, Deferred: deferred}
	if !held {
		r.reqs[q.key()] = *q
	}
	la.accesses = append(la.accesses, acc)
}

func (la *LockAnalysis) checkCall(f *Func, r *funcLocks, call *ast.CallExpr, st lockSet) {
	info := f.Info()
	if _, isDefer := la.p.Parent(call).(*ast.DeferStmt); isDefer {
		if ds := la.p.Parent(call).(*ast.DeferStmt); ds.Call == call {
			la.checkCondOp(f, r, call, la.deferredState(r, ds), true)
		}
	} else {
		la.checkCondOp(f, r, call, st, false)
	}
	fn := calleeFunc(info, call)
	cf := la.p.FuncOf(fn)
	if cf == nil {
		return
	}
	cr := la.res[cf]
	if cr == nil || cf.Exported() {
		// an exported function without its lock is reported there; callers
		// cannot be expected to hold a private mutex
		return
	}
	for _, q := range cr.reqs {
		tq := la.translateReq(cf, q, info, call)
		if la.holds(st, &tq, tq.Write) {
			continue
		}
		tq.Why = fmt.Sprintf("call of lock-required %s (needs it for %s)", cf.Name, q.Why)
		tq.WhyPos = call.Pos()
		r.reqs[tq.key()] = tq
	}
}

// checkFuncRef handles a *reference* (not a call) to a lock-required function:
// s.forceSetupOrdered handed to ft.WhenCall is a call in disguise; anywhere
// else the unlocked function value escapes.
func (la *LockAnalysis) checkFuncRef(f *Func, r *funcLocks, e ast.Expr, id *ast.Ident, st lockSet) {
	info := f.Info()
	fn, ok := info.Uses[id].(*types.Func)
	if !ok {
		return
	}
	cf := la.p.FuncOf(fn.Origin())
	if cf == nil {
		return
	}
	cr := la.res[cf]
	if cr == nil || len(cr.reqs) == 0 || cf.Exported() {
		return
	}
	par := la.p.Parent(e)
	if call, ok := par.(*ast.CallExpr); ok && ast.Unparen(call.Fun) == e {
		return // a plain call, handled by checkCall
	}
	// method value / function value
	if call, ok := par.(*ast.CallExpr); ok {
		for i, a := range call.Args {
			if a == e && la.isSyncPosition(info, call, i) {
				if _, isDefer := la.p.Parent(call).(*ast.DeferStmt); isDefer {
					break
				}
				if _, isGo := la.p.Parent(call).(*ast.GoStmt); isGo {
					break
				}
				for _, q := range cr.reqs {
					tq := q
					if !q.ByType {
						// receiver-relative requirement: resolve through the selector
						if se, ok := e.(*ast.SelectorExpr); ok {
							if idx, ok := paramIndex(cf.Root(), q.Root); ok && idx == -1 {
								if ap, ok := pathOf(info, se.X); ok {
									tq.Root = ap.Root
									tq.Path = append(append([]*types.Var{}, ap.Fields...), q.Path...)
								} else {
									tq.ByType = q.Field != nil
								}
							} else {
								tq.ByType = q.Field != nil
							}
						}
					}
					if !la.holds(st, &tq, tq.Write) {
						tq.Why = fmt.Sprintf("synchronous use of lock-required %s", cf.Name)
						tq.WhyPos = e.Pos()
						r.reqs[tq.key()] = tq
					}
				}
				return
			}
		}
	}
	la.escapes = append(la.escapes, escapeReport{F: f, Pos: e.Pos(), What: "funcvalue",
		Detail: fmt.Sprintf("function value %s is lock-required (%s) and is taken without being called under the lock", cf.Name, reqList(cr.reqs))})
}

func reqList(m map[string]lockReq) string {
	var s []string
	for _, q := range m {
		s = append(s, q.String())
	}
	sort.Strings(s)
	return strings.Join(s, ", ")
}

// StateAt returns the lock set held before the top-level CFG node holding n.
func (la *LockAnalysis) StateAt(f *Func, n ast.Node) (lockSet, bool) {
	r := la.res[f]
	if r == nil {
		return nil, false
	}
	bn, ok := r.fl.At(n)
	if !ok {
		return nil, false
	}
	st, ok := r.at[bn.B.Nodes[bn.I]]
	return st, ok
}

// HoldsField reports whether some mutex whose last path element is the field
// (pkg,type,name) is held at n.
func (la *LockAnalysis) HoldsFieldAt(f *Func, n ast.Node, fieldName string) bool {
	st, ok := la.StateAt(f, n)
	if !ok {
		return false
	}
	for k, v := range st {
		if v >= 1 && strings.HasSuffix(k, "."+fieldName) {
			return true
		}
	}
	return false
}

// valuePath: every intermediate field of the path is held by value (nested
// struct), so the path stays inside the root object.
func valuePath(ap accessPath) bool {
	for _, f := range ap.Fields {
		if _, ok := f.Type().Underlying().(*types.Struct); !ok {
			return false
		}
	}
	return true
}

// freshPath: the object reached by ap was allocated in this function: the
// root variable is fresh and every pointer hop on the way was assigned a fresh
// allocation here (q.root = &element{...}; q.root.next = ...).
func (la *LockAnalysis) freshPath(f *Func, ap accessPath) bool {
	fresh := la.isFresh(f, ap.Root, 0)
	info := f.Info()
	for i, fld := range ap.Fields {
		if _, ok := fld.Type().Underlying().(*types.Struct); ok {
			continue
		}
		want := accessPath{ap.Root, ap.Fields[:i+1]}.Key()
		assigned := false
		walkNoLit(f.Body, func(x ast.Node) bool {
			as, ok := x.(*ast.AssignStmt)
			if !ok || len(as.Lhs) != len(as.Rhs) {
				return true
			}
			for j, l := range as.Lhs {
				if lp, ok := pathOf(info, l); ok && lp.Key() == want && la.freshExpr(f, as.Rhs[j], 0) {
					assigned = true
				}
			}
			return true
		})
		fresh = assigned
	}
	return fresh
}

// publishedByAtomic validates the premise of the limitExec fast-path
// exception: inside the closure every atomic Store on the counter comes after
// (is dominated by) the last assignment of the guarded variable, so a reader
// that observes the stored counter also observes the value.
func (la *LockAnalysis) publishedByAtomic(f *Func, guarded types.Object) bool {
	info := f.Info()
	fl := newFlow(f)
	var writes, stores []ast.Node
	walkNoLit(f.Body, func(x ast.Node) bool {
		switch t := x.(type) {
		case *ast.AssignStmt:
			for _, l := range t.Lhs {
				if id, ok := l.(*ast.Ident); ok && info.Uses[id] == guarded {
					writes = append(writes, t)
				}
			}
		case *ast.CallExpr:
			switch callName(info, t) {
			case "sync/atomic.(*Int64).Store", "sync/atomic.(*Int64).Add", "sync/atomic.(*Int64).Swap", "sync/atomic.(*Int64).CompareAndSwap":
				if _, isCond := la.p.Parent(t).(*ast.IfStmt); !isCond {
					stores = append(stores, t)
				}
			}
		}
		return true
	})
	if len(writes) == 0 || len(stores) == 0 {
		return false
	}
	for _, st := range stores {
		for _, w := range writes {
			if !fl.Dominates(w, st) {
				return false
			}
		}
	}
	return true
}
