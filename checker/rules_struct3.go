package main

// Structural rules written after probing the rule set with plain one-edit
// mutants of the hand-off and container primitives (DESIGN §10, "probes"):
//
//	D10  unlinking the last entry of the Queue resets the tail pointer
//	D5p  popFront is only reached where the queue is known to be non-empty
//	D11  appending links the new entry from the old tail before the tail moves
//	X5b  ChanSend.Write / ChanReceive.Read never report success for an operation that did not happen
//	X1b  a worker loop hands a value to the processor only when the producer returned no error
//	D3k  Stack.Pop moves the head, decrements the length and clears the popped item's owner together

import (
	"fmt"
	"go/ast"
	"go/token"
	"go/types"
)

func ruleQueueLinks(c *Ctx) {
	R := c.R
	p := c.P
	R.Rule("D10", "a Queue function that unlinks an entry (X.link = e.link) resets q.back under the test e == q.back: otherwise, after the queue drains, the tail points at a removed entry and the next Add links its item where no reader will find it", 1)
	R.Rule("D5p", "every call of popFront is dominated by an establishment of non-emptiness: the `tracker.len() == 0 → return` guard, or the error check of unsafeWaitWhileEmpty (which returns nil only for a non-empty queue)", 2)
	R.Rule("D11", "doAdd links the new entry from the old tail (q.back.link = e) before it moves the tail (q.back = e)", 1)
	pop := p.FuncNamed("pubsub.(*Queue).popFront")
	add := p.FuncNamed("pubsub.(*Queue).doAdd")
	if pop == nil || add == nil {
		R.Fail("D10", "anchors", "-", "pubsub.(*Queue).popFront / doAdd not found")
		return
	}
	// D10
	{
		info := pop.Info()
		var unlinked types.Object // e in `X.link = e.link`
		walkNoLit(pop.Body, func(x ast.Node) bool {
			as, ok := x.(*ast.AssignStmt)
			if !ok || len(as.Lhs) != 1 || len(as.Rhs) != 1 {
				return true
			}
			l, ok1 := ast.Unparen(as.Lhs[0]).(*ast.SelectorExpr)
			r, ok2 := ast.Unparen(as.Rhs[0]).(*ast.SelectorExpr)
			if ok1 && ok2 && l.Sel.Name == "link" && r.Sel.Name == "link" {
				if id, ok := ast.Unparen(r.X).(*ast.Ident); ok {
					unlinked = info.Uses[id]
				}
			}
			return true
		})
		ok := false
		if unlinked != nil {
			walkNoLit(pop.Body, func(x ast.Node) bool {
				ifs, isIf := x.(*ast.IfStmt)
				if !isIf {
					return true
				}
				be, isBin := ast.Unparen(ifs.Cond).(*ast.BinaryExpr)
				if !isBin || be.Op != token.EQL {
					return true
				}
				isBack := func(e ast.Expr) bool {
					se, ok := ast.Unparen(e).(*ast.SelectorExpr)
					return ok && se.Sel.Name == "back"
				}
				isE := func(e ast.Expr) bool {
					id, ok := ast.Unparen(e).(*ast.Ident)
					return ok && info.Uses[id] == unlinked
				}
				if !((isBack(be.X) && isE(be.Y)) || (isBack(be.Y) && isE(be.X))) {
					return true
				}
				for _, s := range ifs.Body.List {
					if as, isAs := s.(*ast.AssignStmt); isAs && len(as.Lhs) == 1 && isBack(as.Lhs[0]) {
						ok = true
					}
				}
				return true
			})
		}
		R.Check(unlinked != nil && ok, "D10", "pubsub.(*Queue).popFront/tail-reset", p.Position(pop.Pos()), "if e == q.back { q.back = … }",
			"popFront unlinks the front entry without resetting q.back when that entry was the last one: after a drain the tail refers to a removed entry, so the next Add is linked behind it and is never delivered (and the iterators' `next != q.back` test misfires)")
	}
	// D5p
	{
		la := c.Locks()
		for _, cs := range callSitesOf(la, pop) {
			f := cs.f
			info := f.Info()
			fl := newFlow(f)
			at := fmt.Sprintf("%s/call:popFront", f.Name)
			pos := p.Position(cs.call.Pos())
			why := ""
			walkNoLit(f.Body, func(x ast.Node) bool {
				ifs, ok := x.(*ast.IfStmt)
				if !ok || !containsReturn(ifs.Body) || p.inside(cs.call, ifs.Body) {
					return true
				}
				probe := ast.Node(ifs.Cond)
				if !fl.Dominates(probe, cs.call) {
					return true
				}
				// (i) q.tracker.len() == 0
				if be, ok := ast.Unparen(ifs.Cond).(*ast.BinaryExpr); ok && be.Op == token.EQL {
					if call, ok := ast.Unparen(be.X).(*ast.CallExpr); ok && selName(call) == "len" {
						if tv, ok := info.Types[be.Y]; ok && tv.Value != nil && tv.Value.String() == "0" {
							why = "guarded by `if q.tracker.len() == 0 { return }`"
						}
					}
				}
				// (ii) if err := q.unsafeWaitWhileEmpty(ctx); err != nil { return }
				if ifs.Init != nil && errNilCmp(info, ifs.Cond, token.NEQ) {
					if as, ok := ifs.Init.(*ast.AssignStmt); ok && len(as.Rhs) == 1 {
						if call, ok := ast.Unparen(as.Rhs[0]).(*ast.CallExpr); ok && callName(info, call) == "pubsub.(*Queue).unsafeWaitWhileEmpty" {
							why = "after unsafeWaitWhileEmpty returned nil"
						}
					}
				}
				return true
			})
			R.Check(why != "", "D5p", at, pos, why, fmt.Sprintf("%s calls popFront without establishing that the queue is not empty: on an empty queue front.link is nil and the dereference panics (or the sentinel is handed out as an item)", f.Name))
		}
	}
	// D11
	{
		var linkStore, tailStore ast.Node
		walkNoLit(add.Body, func(x ast.Node) bool {
			as, ok := x.(*ast.AssignStmt)
			if !ok || len(as.Lhs) != 1 {
				return true
			}
			l, ok := ast.Unparen(as.Lhs[0]).(*ast.SelectorExpr)
			if !ok {
				return true
			}
			if l.Sel.Name == "link" {
				if inner, ok := ast.Unparen(l.X).(*ast.SelectorExpr); ok && inner.Sel.Name == "back" {
					linkStore = as
				}
			}
			if l.Sel.Name == "back" {
				tailStore = as
			}
			return true
		})
		ok := linkStore != nil && tailStore != nil && linkStore.Pos() < tailStore.Pos() && newFlow(add).Dominates(linkStore, tailStore)
		R.Check(ok, "D11", "pubsub.(*Queue).doAdd/link-then-tail", p.Position(add.Pos()), "q.back.link = e precedes q.back = e",
			"doAdd moves the tail before linking the new entry from the old tail (or never links it): the entry links to itself and everything behind the old tail is cut off")
	}
}

// ruleX5b: the two hand-off primitives never report success for an operation
// that did not take place, and a closed channel is reported as io.EOF.
func ruleX5b(c *Ctx) {
	R := c.R
	p := c.P
	R.Rule("X5b", "in ChanSend.Write every select arm other than the send itself returns a non-nil error (a send that did not happen is never reported as success); in ChanReceive.Read the receive arms use the two-value form and answer io.EOF for a closed channel, and every other arm returns an error", 4)
	for _, name := range []string{"fun.ChanSend.Write", "fun.ChanReceive.Read"} {
		f := p.FuncNamed(name)
		if f == nil {
			R.Fail("X5b", name, "-", "not found")
			continue
		}
		info := f.Info()
		isWrite := name == "fun.ChanSend.Write"
		n := 0
		walkNoLit(f.Body, func(x ast.Node) bool {
			cc, ok := x.(*ast.CommClause)
			if !ok {
				return true
			}
			n++
			at := fmt.Sprintf("%s/arm#%d", name, n)
			pos := p.Position(cc.Pos())
			kind := "default"
			var recvOK bool
			switch cm := cc.Comm.(type) {
			case *ast.SendStmt:
				kind = "send"
			case *ast.ExprStmt:
				if isCtxDoneRecv(info, cm) {
					kind = "ctx"
				} else {
					kind = "recv"
				}
			case *ast.AssignStmt:
				kind = "recv"
				recvOK = len(cm.Lhs) == 2
			}
			// error results of the arm's returns
			var rets []*ast.ReturnStmt
			for _, s := range cc.Body {
				ast.Inspect(s, func(y ast.Node) bool {
					if rs, ok := y.(*ast.ReturnStmt); ok {
						rets = append(rets, rs)
					}
					return true
				})
			}
			errOf := func(rs *ast.ReturnStmt) ast.Expr {
				if len(rs.Results) == 0 {
					return nil
				}
				return rs.Results[len(rs.Results)-1]
			}
			switch {
			case kind == "send" && isWrite:
				R.OK("X5b", at, pos, "the send arm")
			case kind == "recv" && !isWrite:
				eof := false
				for _, rs := range rets {
					if e := errOf(rs); e != nil && exprStr(e) == "io.EOF" {
						eof = true
					}
				}
				R.Check(recvOK && eof, "X5b", at, pos, "two-value receive; closed → io.EOF", name+" receives without the ok flag (or does not answer io.EOF for a closed channel): after the sender closed the pipe the consumer receives an endless stream of zero values instead of the end of the sequence")
			default:
				bad := len(rets) == 0
				for _, rs := range rets {
					if e := errOf(rs); e == nil || isNilIdent(info, e) {
						bad = true
					}
				}
				R.Check(!bad, "X5b", at, pos, "the "+kind+" arm returns an error", fmt.Sprintf("the %s arm of %s returns nil: the caller is told the hand-off happened although the item was neither sent nor received (it is silently dropped / a zero value is invented)", kind, name))
			}
			return true
		})
	}
}

// ruleX1b: in the worker loops the processor is applied only to a value the
// producer returned without error.
func ruleX1b(c *Ctx) {
	R := c.R
	p := c.P
	R.Rule("X1b", "in Processor.ReadAll / ReadOne the processor is invoked only under `err == nil` of the producer's result: the zero value that accompanies io.EOF or a skip is never processed as an item", 1)
	for _, name := range []string{"fun.Processor.ReadAll", "fun.Processor.ReadOne"} {
		f := p.FuncNamed(name)
		if f == nil {
			continue
		}
		recv := recvObject(f)
		var visit func(g *Func)
		n := 0
		visit = func(g *Func) {
			info := g.Info()
			walkNoLit(g.Body, func(x ast.Node) bool {
				call, ok := x.(*ast.CallExpr)
				if !ok {
					return true
				}
				id, ok := ast.Unparen(call.Fun).(*ast.Ident)
				if !ok || info.Uses[id] != recv {
					return true
				}
				n++
				at := fmt.Sprintf("%s/apply#%d", g.Name, n)
				guarded := false
				var child ast.Node = call
				for par := p.Parent(call); par != nil; child, par = par, p.Parent(par) {
					if ifs, ok := par.(*ast.IfStmt); ok && ast.Node(ifs.Body) == child && errNilCmp(info, ifs.Cond, token.EQL) && ifs.Init == nil {
						guarded = true
					}
					if _, ok := par.(*ast.FuncLit); ok {
						break
					}
				}
				// or dominated by `if err != nil { return/continue }`
				if !guarded {
					fl := newFlow(g)
					walkNoLit(g.Body, func(y ast.Node) bool {
						ifs, ok := y.(*ast.IfStmt)
						if ok && errNilCmp(info, ifs.Cond, token.NEQ) && blockLeaves(ifs.Body) && fl.Dominates(ifs.Cond, call) && !p.inside(call, ifs.Body) {
							guarded = true
						}
						return true
					})
				}
				R.Check(guarded, "X1b", at, p.Position(call.Pos()), "applied under err == nil", fmt.Sprintf("%s applies the processor without the producer's `err == nil` guard: at the end of the input (or on a skipped element) the zero value is processed as if it were an item", g.Name))
				return true
			})
			for _, l := range g.Lits {
				visit(l)
			}
		}
		visit(f)
	}
}

// ruleD3k: Stack.Pop keeps head, length and ownership together.
func ruleD3k(c *Ctx) {
	R := c.R
	p := c.P
	R.Rule("D3k", "Stack.Pop, where it moves the head (s.head = s.head.next), also decrements the length and clears the popped item's stack pointer in the same block", 1)
	f := p.FuncNamed("dt.(*Stack).Pop")
	at := "dt.(*Stack).Pop/coupled"
	if f == nil {
		R.Fail("D3k", at, "-", "not found")
		return
	}
	var blk *ast.BlockStmt
	walkNoLit(f.Body, func(x ast.Node) bool {
		as, ok := x.(*ast.AssignStmt)
		if !ok || len(as.Lhs) != 1 || len(as.Rhs) != 1 {
			return true
		}
		l, ok1 := ast.Unparen(as.Lhs[0]).(*ast.SelectorExpr)
		r, ok2 := ast.Unparen(as.Rhs[0]).(*ast.SelectorExpr)
		if ok1 && ok2 && l.Sel.Name == "head" && r.Sel.Name == "next" {
			blk, _ = p.Parent(as).(*ast.BlockStmt)
		}
		return true
	})
	if blk == nil {
		R.Fail("D3k", at, p.Position(f.Pos()), "Pop never moves the head to head.next")
		return
	}
	dec, clear := false, false
	for _, s := range blk.List {
		switch t := s.(type) {
		case *ast.IncDecStmt:
			if se, ok := ast.Unparen(t.X).(*ast.SelectorExpr); ok && se.Sel.Name == "length" && t.Tok == token.DEC {
				dec = true
			}
		case *ast.AssignStmt:
			if len(t.Lhs) == 1 && len(t.Rhs) == 1 {
				if se, ok := ast.Unparen(t.Lhs[0]).(*ast.SelectorExpr); ok && se.Sel.Name == "stack" && isNilIdent(f.Info(), t.Rhs[0]) {
					clear = true
				}
			}
		}
	}
	R.Check(dec && clear, "D3k", at, p.Position(f.Pos()), "head moved, length decremented, owner cleared", fmt.Sprintf("Stack.Pop moves the head without %s: Len disagrees with the traversal / the popped item still claims membership (In(stack) true, re-push rejected)", map[bool]string{true: "clearing the popped item's stack pointer", false: "decrementing the length"}[dec]))
}
