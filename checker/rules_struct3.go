package main

// Structural rules written after probing the rule set with plain one-edit
// mutants of the hand-off and container primitives (DESIGN §10, "probes"):
//
//	D10  unlinking the last entry of the Queue resets the tail pointer
//	D5p  popFront is only reached where the queue is known to be non-empty
//	D11  appending links the new entry from the old tail before the tail moves
//	X5b  ChanSend.Write / ChanReceive.Read never report success for an operation that did not happen
//	X1b  a worker loop hands a value to the processor only when the producer returned no error
//	D3k  Stack.Pop moves the head, decrements the length and clears the popped item's owner together

import (
	"strings"
	"fmt"
	"go/ast"
	"go/token"
	"go/types"
)

func ruleQueueLinks(c *Ctx) {
	R := c.R
	p := c.P
	R.Rule("D10", "a Queue function that unlinks an entry (X.link = e.link) resets q.back under the test e == q.back: otherwise, after the queue drains, the tail points at a removed entry and the next Add links its item where no reader will find it", 1)
	R.Rule("D5p", "every call of popFront is dominated by an establishment of non-emptiness: the `tracker.len() == 0 → return` guard, or the error check of unsafeWaitWhileEmpty (which returns nil only for a non-empty queue)", 2)
	R.Rule("D11", "doAdd links the new entry from the old tail (q.back.link = e) before it moves the tail (q.back = e)", 1)
	pop := p.FuncNamed("pubsub.(*Queue).popFront")
	add := p.FuncNamed("pubsub.(*Queue).doAdd")
	if pop == nil || add == nil {
		R.Fail("D10", "anchors", "-", "pubsub.(*Queue).popFront / doAdd not found")
		return
	}
	// D10
	{
		info := pop.Info()
		var unlinked types.Object // e in `X.link = e.link`
		walkNoLit(pop.Body, func(x ast.Node) bool {
			as, ok := x.(*ast.AssignStmt)
			if !ok || len(as.Lhs) != 1 || len(as.Rhs) != 1 {
				return true
			}
			l, ok1 := ast.Unparen(as.Lhs[0]).(*ast.SelectorExpr)
			r, ok2 := ast.Unparen(as.Rhs[0]).(*ast.SelectorExpr)
			if ok1 && ok2 && l.Sel.Name == "link" && r.Sel.Name == "link" {
				if id, ok := ast.Unparen(r.X).(*ast.Ident); ok {
					unlinked = info.Uses[id]
				}
			}
			return true
		})
		ok := false
		if unlinked != nil {
			walkNoLit(pop.Body, func(x ast.Node) bool {
				ifs, isIf := x.(*ast.IfStmt)
				if !isIf {
					return true
				}
				be, isBin := ast.Unparen(ifs.Cond).(*ast.BinaryExpr)
				if !isBin || be.Op != token.EQL {
					return true
				}
				isBack := func(e ast.Expr) bool {
					se, ok := ast.Unparen(e).(*ast.SelectorExpr)
					return ok && se.Sel.Name == "back"
				}
				isE := func(e ast.Expr) bool {
					id, ok := ast.Unparen(e).(*ast.Ident)
					return ok && info.Uses[id] == unlinked
				}
				if !((isBack(be.X) && isE(be.Y)) || (isBack(be.Y) && isE(be.X))) {
					return true
				}
				for _, s := range ifs.Body.List {
					if as, isAs := s.(*ast.AssignStmt); isAs && len(as.Lhs) == 1 && isBack(as.Lhs[0]) {
						ok = true
					}
				}
				return true
			})
		}
		R.Check(unlinked != nil && ok, "D10", "pubsub.(*Queue).popFront/tail-reset", p.Position(pop.Pos()), "if e == q.back { q.back = … }",
			"popFront unlinks the front entry without resetting q.back when that entry was the last one: after a drain the tail refers to a removed entry, so the next Add is linked behind it and is never delivered (and the iterators' `next != q.back` test misfires)")
	}
	// D5p
	{
		la := c.Locks()
		for _, cs := range callSitesOf(la, pop) {
			f := cs.f
			info := f.Info()
			fl := newFlow(f)
			at := fmt.Sprintf("%s/call:popFront", f.Name)
			pos := p.Position(cs.call.Pos())
			why := ""
			walkNoLit(f.Body, func(x ast.Node) bool {
				ifs, ok := x.(*ast.IfStmt)
				if !ok || !containsReturn(ifs.Body) || p.inside(cs.call, ifs.Body) {
					return true
				}
				probe := ast.Node(ifs.Cond)
				if !fl.Dominates(probe, cs.call) {
					return true
				}
				// (i) q.tracker.len() == 0
				if be, ok := ast.Unparen(ifs.Cond).(*ast.BinaryExpr); ok && be.Op == token.EQL {
					if call, ok := ast.Unparen(be.X).(*ast.CallExpr); ok && selName(call) == "len" {
						if tv, ok := info.Types[be.Y]; ok && tv.Value != nil && tv.Value.String() == "0" {
							why = "guarded by `if q.tracker.len() == 0 { return }`"
						}
					}
				}
				// (ii) if err := q.unsafeWaitWhileEmpty(ctx); err != nil { return }
				if ifs.Init != nil && errNilCmp(info, ifs.Cond, token.NEQ) {
					if as, ok := ifs.Init.(*ast.AssignStmt); ok && len(as.Rhs) == 1 {
						if call, ok := ast.Unparen(as.Rhs[0]).(*ast.CallExpr); ok && callName(info, call) == "pubsub.(*Queue).unsafeWaitWhileEmpty" {
							why = "after unsafeWaitWhileEmpty returned nil"
						}
					}
				}
				return true
			})
			// (iii) the call sits in the body of `if q.tracker.len() > 0 { … }` (or != 0)
			if why == "" {
				var child ast.Node = cs.call
				for par := p.Parent(cs.call); par != nil; child, par = par, p.Parent(par) {
					if ifs, ok := par.(*ast.IfStmt); ok && p.inside(child, ifs.Body) {
						if be, ok := ast.Unparen(ifs.Cond).(*ast.BinaryExpr); ok && (be.Op == token.GTR || be.Op == token.NEQ) {
							if call, ok := ast.Unparen(be.X).(*ast.CallExpr); ok && selName(call) == "len" {
								if tv, ok := info.Types[be.Y]; ok && tv.Value != nil && tv.Value.String() == "0" {
									why = "inside `if q.tracker.len() > 0 { … }`"
								}
							}
						}
					}
					if _, ok := par.(*ast.FuncDecl); ok {
						break
					}
				}
			}
			R.Check(why != "", "D5p", at, pos, why, fmt.Sprintf("%s calls popFront without establishing that the queue is not empty: on an empty queue front.link is nil and the dereference panics (or the sentinel is handed out as an item)", f.Name))
		}
	}
	// D11
	{
		var linkStore, tailStore ast.Node
		walkNoLit(add.Body, func(x ast.Node) bool {
			as, ok := x.(*ast.AssignStmt)
			if !ok || len(as.Lhs) != 1 {
				return true
			}
			l, ok := ast.Unparen(as.Lhs[0]).(*ast.SelectorExpr)
			if !ok {
				return true
			}
			if l.Sel.Name == "link" {
				if inner, ok := ast.Unparen(resolveLocal(add, l.X)).(*ast.SelectorExpr); ok && inner.Sel.Name == "back" {
					linkStore = as
				}
			}
			if l.Sel.Name == "back" {
				tailStore = as
			}
			return true
		})
		ok := linkStore != nil && tailStore != nil && linkStore.Pos() < tailStore.Pos() && newFlow(add).Dominates(linkStore, tailStore)
		R.Check(ok, "D11", "pubsub.(*Queue).doAdd/link-then-tail", p.Position(add.Pos()), "q.back.link = e precedes q.back = e",
			"doAdd moves the tail before linking the new entry from the old tail (or never links it): the entry links to itself and everything behind the old tail is cut off")
	}
}

// ruleX5b: the two hand-off primitives never report success for an operation
// that did not take place, and a closed channel is reported as io.EOF.
func ruleX5b(c *Ctx) {
	R := c.R
	p := c.P
	R.Rule("X5b", "in ChanSend.Write every select arm other than the send itself returns a non-nil error (a send that did not happen is never reported as success); in ChanReceive.Read the receive arms use the two-value form and answer io.EOF for a closed channel, and every other arm returns an error", 4)
	for _, name := range []string{"fun.ChanSend.Write", "fun.ChanReceive.Read"} {
		f := p.FuncNamed(name)
		if f == nil {
			R.Fail("X5b", name, "-", "not found")
			continue
		}
		info := f.Info()
		isWrite := name == "fun.ChanSend.Write"
		n := 0
		walkNoLit(f.Body, func(x ast.Node) bool {
			cc, ok := x.(*ast.CommClause)
			if !ok {
				return true
			}
			n++
			at := fmt.Sprintf("%s/arm#%d", name, n)
			pos := p.Position(cc.Pos())
			kind := "default"
			var recvOK bool
			switch cm := cc.Comm.(type) {
			case *ast.SendStmt:
				kind = "send"
			case *ast.ExprStmt:
				if isCtxDoneRecv(info, cm) {
					kind = "ctx"
				} else {
					kind = "recv"
				}
			case *ast.AssignStmt:
				kind = "recv"
				recvOK = len(cm.Lhs) == 2
			}
			// error results of the arm's returns
			var rets []*ast.ReturnStmt
			for _, s := range cc.Body {
				ast.Inspect(s, func(y ast.Node) bool {
					if rs, ok := y.(*ast.ReturnStmt); ok {
						rets = append(rets, rs)
					}
					return true
				})
			}
			errOf := func(rs *ast.ReturnStmt) ast.Expr {
				if len(rs.Results) == 0 {
					return nil
				}
				return rs.Results[len(rs.Results)-1]
			}
			switch {
			case kind == "send" && isWrite:
				R.OK("X5b", at, pos, "the send arm")
			case kind == "recv" && !isWrite:
				eof := false
				for _, rs := range rets {
					if e := errOf(rs); e != nil && exprStr(e) == "io.EOF" {
						eof = true
					}
				}
				R.Check(recvOK && eof, "X5b", at, pos, "two-value receive; closed → io.EOF", name+" receives without the ok flag (or does not answer io.EOF for a closed channel): after the sender closed the pipe the consumer receives an endless stream of zero values instead of the end of the sequence")
			default:
				bad := len(rets) == 0
				for _, rs := range rets {
					e := errOf(rs)
					if e == nil {
						// bare return: the named error result must have been assigned a non-nil value in this arm
						assigned := false
						for _, st := range cc.Body {
							if as, ok := st.(*ast.AssignStmt); ok && len(as.Lhs) == 1 && len(as.Rhs) == 1 {
								if tv, ok := info.Types[as.Lhs[0]]; ok && types.Identical(tv.Type, types.Universe.Lookup("error").Type()) && !isNilIdent(info, as.Rhs[0]) {
									assigned = true
								}
							}
						}
						if !assigned {
							bad = true
						}
						continue
					}
					if isNilIdent(info, e) {
						bad = true
					}
				}
				R.Check(!bad, "X5b", at, pos, "the "+kind+" arm returns an error", fmt.Sprintf("the %s arm of %s returns nil: the caller is told the hand-off happened although the item was neither sent nor received (it is silently dropped / a zero value is invented)", kind, name))
			}
			return true
		})
	}
}

// ruleX1b: in the worker loops the processor is applied only to a value the
// producer returned without error.
func ruleX1b(c *Ctx) {
	R := c.R
	p := c.P
	R.Rule("X1b", "in Processor.ReadAll / ReadOne the processor is invoked only under `err == nil` of the producer's result: the zero value that accompanies io.EOF or a skip is never processed as an item", 1)
	for _, name := range []string{"fun.Processor.ReadAll", "fun.Processor.ReadOne"} {
		f := p.FuncNamed(name)
		if f == nil {
			continue
		}
		recv := recvObject(f)
		var visit func(g *Func)
		n := 0
		visit = func(g *Func) {
			info := g.Info()
			walkNoLit(g.Body, func(x ast.Node) bool {
				call, ok := x.(*ast.CallExpr)
				if !ok {
					return true
				}
				id, ok := ast.Unparen(call.Fun).(*ast.Ident)
				if !ok || info.Uses[id] != recv {
					return true
				}
				n++
				at := fmt.Sprintf("%s/apply#%d", g.Name, n)
				guarded := false
				var child ast.Node = call
				for par := p.Parent(call); par != nil; child, par = par, p.Parent(par) {
					if ifs, ok := par.(*ast.IfStmt); ok && ast.Node(ifs.Body) == child && errNilCmp(info, ifs.Cond, token.EQL) && ifs.Init == nil {
						guarded = true
					}
					if _, ok := par.(*ast.FuncLit); ok {
						break
					}
				}
				// or dominated by `if err != nil { return/continue }`
				if !guarded {
					fl := newFlow(g)
					walkNoLit(g.Body, func(y ast.Node) bool {
						ifs, ok := y.(*ast.IfStmt)
						if ok && errNilCmp(info, ifs.Cond, token.NEQ) && blockLeaves(ifs.Body) && fl.Dominates(ifs.Cond, call) && !p.inside(call, ifs.Body) {
							guarded = true
						}
						return true
					})
				}
				R.Check(guarded, "X1b", at, p.Position(call.Pos()), "applied under err == nil", fmt.Sprintf("%s applies the processor without the producer's `err == nil` guard: at the end of the input (or on a skipped element) the zero value is processed as if it were an item", g.Name))
				return true
			})
			for _, l := range g.Lits {
				visit(l)
			}
		}
		visit(f)
	}
}

// ruleD3k: Stack.Pop keeps head, length and ownership together.
func ruleD3k(c *Ctx) {
	R := c.R
	p := c.P
	R.Rule("D3k", "Stack.Pop, where it moves the head (s.head = s.head.next), also decrements the length and clears the popped item's stack pointer in the same block", 1)
	f := p.FuncNamed("dt.(*Stack).Pop")
	at := "dt.(*Stack).Pop/coupled"
	if f == nil {
		R.Fail("D3k", at, "-", "not found")
		return
	}
	var blk *ast.BlockStmt
	walkNoLit(f.Body, func(x ast.Node) bool {
		as, ok := x.(*ast.AssignStmt)
		if !ok || len(as.Lhs) != 1 || len(as.Rhs) != 1 {
			return true
		}
		l, ok1 := ast.Unparen(as.Lhs[0]).(*ast.SelectorExpr)
		r, ok2 := ast.Unparen(as.Rhs[0]).(*ast.SelectorExpr)
		if ok1 && ok2 && l.Sel.Name == "head" && r.Sel.Name == "next" {
			blk, _ = p.Parent(as).(*ast.BlockStmt)
		}
		return true
	})
	if blk == nil {
		R.Fail("D3k", at, p.Position(f.Pos()), "Pop never moves the head to head.next")
		return
	}
	dec, clear := false, false
	for _, s := range blk.List {
		switch t := s.(type) {
		case *ast.IncDecStmt:
			if se, ok := ast.Unparen(t.X).(*ast.SelectorExpr); ok && se.Sel.Name == "length" && t.Tok == token.DEC {
				dec = true
			}
		case *ast.AssignStmt:
			if len(t.Lhs) == 1 && len(t.Rhs) == 1 {
				if se, ok := ast.Unparen(t.Lhs[0]).(*ast.SelectorExpr); ok && se.Sel.Name == "stack" && isNilIdent(f.Info(), t.Rhs[0]) {
					clear = true
				}
			}
		}
	}
	R.Check(dec && clear, "D3k", at, p.Position(f.Pos()), "head moved, length decremented, owner cleared", fmt.Sprintf("Stack.Pop moves the head without %s: Len disagrees with the traversal / the popped item still claims membership (In(stack) true, re-push rejected)", map[bool]string{true: "clearing the popped item's stack pointer", false: "decrementing the length"}[dec]))
}

// ---------------------------------------------------------------- X10 end roles

// ruleX10: the Front/Back methods of the two ring containers use the end of the
// ring their name says: Front = root (insert after) / root.next (read, pop) /
// dqNext; Back = root.prev / dqPrev.
func ruleX10(c *Ctx, pkg, typ string, floor int) {
	R := c.R
	p := c.P
	R.Rule("X10", "a *Front method of a ring container touches the ring only through root / root.next (direction dqNext), a *Back method only through root.prev (direction dqPrev); ForcePush's eviction of the opposite end is D7's business", floor)
	for _, f := range p.FuncsIn(pkg) {
		if f.Decl == nil || f.Decl.Recv == nil || recvNamed(f) != typ {
			continue
		}
		name := f.Decl.Name.Name
		var want string
		switch {
		case len(name) >= 5 && name[len(name)-5:] == "Front":
			want = "front"
		case len(name) >= 4 && name[len(name)-4:] == "Back":
			want = "back"
		default:
			continue
		}
		force := len(name) > 9 && name[:9] == "ForcePush"
		recv := recvObject(f)
		var uses []string
		bad := ""
		var visit func(g *Func)
		visit = func(g *Func) {
			info := g.Info()
			walkNoLit(g.Body, func(x ast.Node) bool {
				switch t := x.(type) {
				case *ast.SelectorExpr:
					// <recv>.root[.next|.prev]
					if t.Sel.Name == "root" {
						if id, ok := ast.Unparen(t.X).(*ast.Ident); ok && info.Uses[id] == recv {
							side := "front" // bare root: insert after the root = front
							if par, ok := p.Parent(t).(*ast.SelectorExpr); ok && par.X == ast.Expr(t) {
								switch par.Sel.Name {
								case "prev":
									side = "back"
								case "next":
									side = "front"
								default:
									return true // root.Append(…) etc: bare root
								}
							}
							uses = append(uses, side)
							if side != want {
								// the eviction inside ForcePush: pop(<opposite end>)
								if call, ok := p.Parent(p.Parent(t)).(*ast.CallExpr); ok && force && selName(call) == "pop" {
									return true
								}
								bad = fmt.Sprintf("%s at %s", exprStr(p.Parent(t).(ast.Expr)), p.Position(t.Pos()))
							}
						}
					}
				case *ast.Ident:
					if t.Name == "dqNext" || t.Name == "dqPrev" {
						if _, isConst := info.Uses[t].(*types.Const); isConst {
							side := map[string]string{"dqNext": "front", "dqPrev": "back"}[t.Name]
							uses = append(uses, side)
							if side != want {
								bad = fmt.Sprintf("%s at %s", t.Name, p.Position(t.Pos()))
							}
						}
					}
				}
				return true
			})
			for _, l := range g.Lits {
				visit(l)
			}
		}
		visit(f)
		if len(uses) == 0 {
			continue // delegates to another method; nothing to decide here
		}
		R.Check(bad == "", "X10", f.Name+"/end", p.Position(f.Pos()), "uses the "+want+" end only",
			fmt.Sprintf("%s operates on the %s end of the ring through %s: the operation acts on the wrong end (FIFO/LIFO order and the documented position are broken)", f.Name, map[string]string{"front": "back", "back": "front"}[want], bad))
	}
}

// ---------------------------------------------------------------- K6 / K7

func ruleBroker3(c *Ctx) {
	R := c.R
	p := c.P
	R.Rule("K6", "channel roles agree on both sides: Subscribe sends the new channel on subCh and the event loop adds what it receives from subCh; Unsubscribe sends on unsubCh and the event loop deletes what it receives from unsubCh", 4)
	R.Rule("K7", "sendMsg is a two-arm select (ctx.Done, the send) without default: a slow subscriber delays the worker, it is never skipped", 1)
	sentOn := func(fname string) map[string]bool {
		out := map[string]bool{}
		f := p.FuncNamed(fname)
		if f == nil {
			return out
		}
		ast.Inspect(f.Body, func(x ast.Node) bool {
			if ss, ok := x.(*ast.SendStmt); ok {
				if se, ok := ast.Unparen(ss.Chan).(*ast.SelectorExpr); ok {
					out[se.Sel.Name] = true
				}
			}
			return true
		})
		return out
	}
	sub, unsub := sentOn("pubsub.(*Broker).Subscribe"), sentOn("pubsub.(*Broker).Unsubscribe")
	R.Check(len(sub) == 1 && sub["subCh"], "K6", "pubsub.(*Broker).Subscribe/channel", "-", "sends on subCh only", fmt.Sprintf("Subscribe sends its channel on %v, not (only) on subCh: the subscription is never registered (or is registered as a removal)", keysOf(sub)))
	R.Check(len(unsub) == 1 && unsub["unsubCh"], "K6", "pubsub.(*Broker).Unsubscribe/channel", "-", "sends on unsubCh only", fmt.Sprintf("Unsubscribe sends its channel on %v, not (only) on unsubCh: the subscriber is never removed and keeps receiving (a full, unread channel then blocks the dispatch worker)", keysOf(unsub)))
	if f := p.FuncNamed("pubsub.(*Broker).startQueueWorkers"); f != nil {
		found := map[string]string{}
		var visit func(g *Func)
		visit = func(g *Func) {
			info := g.Info()
			walkNoLit(g.Body, func(x ast.Node) bool {
				cc, ok := x.(*ast.CommClause)
				if !ok {
					return true
				}
				as, ok := cc.Comm.(*ast.AssignStmt)
				if !ok || len(as.Lhs) != 1 || len(as.Rhs) != 1 {
					return true
				}
				ue, ok := ast.Unparen(as.Rhs[0]).(*ast.UnaryExpr)
				if !ok || ue.Op != token.ARROW {
					return true
				}
				se, ok := ast.Unparen(ue.X).(*ast.SelectorExpr)
				if !ok || (se.Sel.Name != "subCh" && se.Sel.Name != "unsubCh") {
					return true
				}
				v := info.Defs[as.Lhs[0].(*ast.Ident)]
				for _, s := range cc.Body {
					ast.Inspect(s, func(y ast.Node) bool {
						if call, ok := y.(*ast.CallExpr); ok && len(call.Args) >= 1 {
							if id, ok := ast.Unparen(call.Args[0]).(*ast.Ident); ok && info.Uses[id] == v {
								found[se.Sel.Name] = selName(call)
							}
						}
						return true
					})
				}
				return true
			})
			for _, l := range g.Lits {
				visit(l)
			}
		}
		visit(f)
		adders := map[string]bool{"Ensure": true, "Store": true, "Set": true, "Add": true, "EnsureStore": true}
		R.Check(adders[found["subCh"]], "K6", "pubsub.(*Broker).startQueueWorkers/subCh", p.Position(f.Pos()), "received channel is added ("+found["subCh"]+")", "what the event loop receives from subCh is not added to the subscriber set ("+found["subCh"]+")")
		R.Check(found["unsubCh"] == "Delete", "K6", "pubsub.(*Broker).startQueueWorkers/unsubCh", p.Position(f.Pos()), "received channel is deleted", "what the event loop receives from unsubCh is not deleted from the subscriber set ("+found["unsubCh"]+")")
	}
	if f := p.FuncNamed("pubsub.(*Broker).sendMsg"); f != nil {
		info := f.Info()
		arms, hasDefault, hasCtx, hasSend := 0, false, false, false
		walkNoLit(f.Body, func(x ast.Node) bool {
			cc, ok := x.(*ast.CommClause)
			if !ok {
				return true
			}
			arms++
			switch cm := cc.Comm.(type) {
			case nil:
				hasDefault = true
			case *ast.SendStmt:
				hasSend = true
			case *ast.ExprStmt:
				if isCtxDoneRecv(info, cm) {
					hasCtx = true
				}
			}
			return true
		})
		R.Check(arms == 2 && hasCtx && hasSend && !hasDefault, "K7", "pubsub.(*Broker).sendMsg/select", p.Position(f.Pos()), "select { <-ctx.Done(); ch <- m }", "sendMsg's select is not exactly {ctx.Done, send}: with a default (or another) arm a subscriber that is momentarily busy silently misses the message")
	} else {
		R.Fail("K7", "pubsub.(*Broker).sendMsg/select", "-", "sendMsg not found")
	}
}

func keysOf(m map[string]bool) []string {
	var out []string
	for k := range m {
		out = append(out, k)
	}
	return out
}

// ---------------------------------------------------------------- T1c

func ruleT1c(c *Ctx) {
	R := c.R
	p := c.P
	R.Rule("T1c", "Iterator.Close passes through doClose on every path, and Iterator.Next stores the value it read into the iterator before it reports true", 2)
	if f := p.FuncNamed("fun.(*Iterator).Close"); f != nil {
		info := f.Info()
		fl := newFlow(f)
		entry := blockNode{fl.G.Blocks[0], -1}
		_, skips := fl.pathToExitAvoiding(entry, func(n ast.Node) bool {
			hit := false
			ast.Inspect(n, func(y ast.Node) bool {
				if call, ok := y.(*ast.CallExpr); ok && callName(info, call) == "fun.(*Iterator).doClose" {
					hit = true
				}
				return !hit
			})
			return hit
		})
		R.Check(!skips, "T1c", "fun.(*Iterator).Close/doClose", p.Position(f.Pos()), "doClose on every path", "Iterator.Close can return without doClose: the iterator is not marked closed and its context is not cancelled, so background readers/workers keep running and later reads still yield items")
	} else {
		R.Fail("T1c", "fun.(*Iterator).Close/doClose", "-", "not found")
	}
	if f := p.FuncNamed("fun.(*Iterator).Next"); f != nil {
		info := f.Info()
		recv := recvObject(f)
		fl := newFlow(f)
		var store ast.Node
		walkNoLit(f.Body, func(x ast.Node) bool {
			if as, ok := x.(*ast.AssignStmt); ok && len(as.Lhs) == 1 {
				if se, ok := ast.Unparen(as.Lhs[0]).(*ast.SelectorExpr); ok && se.Sel.Name == "value" {
					if id, ok := ast.Unparen(se.X).(*ast.Ident); ok && info.Uses[id] == recv {
						store = as
					}
				}
			}
			return true
		})
		ok := store != nil
		walkNoLit(f.Body, func(x ast.Node) bool {
			if rs, isRet := x.(*ast.ReturnStmt); isRet && len(rs.Results) == 1 {
				if tv, has := info.Types[rs.Results[0]]; has && tv.Value != nil && tv.Value.String() == "true" {
					if store == nil || !fl.Dominates(store, rs) {
						ok = false
					}
				}
			}
			return true
		})
		R.Check(ok, "T1c", "fun.(*Iterator).Next/stores-value", p.Position(f.Pos()), "i.value = val dominates `return true`", "Iterator.Next reports true without having stored the value it read: Value() returns the previous (or zero) element — every element is lost and the last one repeated")
	} else {
		R.Fail("T1c", "fun.(*Iterator).Next/stores-value", "-", "not found")
	}
}

// ---------------------------------------------------------------- H1b

func ruleH1b(c *Ctx) {
	R := c.R
	p := c.P
	R.Rule("H1b", "where hdrhist adds a delta to one bucket (counts[i] += d) the same delta is added to totalCount in the same block", 1)
	n := 0
	for _, f := range p.FuncsIn("dt/hdrhist") {
		walkNoLit(f.Body, func(x ast.Node) bool {
			as, ok := x.(*ast.AssignStmt)
			if !ok || as.Tok != token.ADD_ASSIGN || len(as.Lhs) != 1 {
				return true
			}
			ix, ok := ast.Unparen(as.Lhs[0]).(*ast.IndexExpr)
			if !ok {
				return true
			}
			se, ok := ast.Unparen(ix.X).(*ast.SelectorExpr)
			if !ok || se.Sel.Name != "counts" {
				return true
			}
			n++
			delta := exprStr(as.Rhs[0])
			same := false
			if blk, ok := p.Parent(as).(*ast.BlockStmt); ok {
				for _, s := range blk.List {
					if a2, ok := s.(*ast.AssignStmt); ok && a2.Tok == token.ADD_ASSIGN && len(a2.Lhs) == 1 {
						if t, ok := ast.Unparen(a2.Lhs[0]).(*ast.SelectorExpr); ok && t.Sel.Name == "totalCount" && exprStr(a2.Rhs[0]) == delta {
							same = true
						}
					}
				}
			}
			R.Check(same, "H1b", fmt.Sprintf("%s/delta(%s)", f.Name, delta), p.Position(as.Pos()), "totalCount += "+delta+" in the same block",
				fmt.Sprintf("%s adds %s to a bucket but not the same amount to totalCount: TotalCount() drifts from the number of recorded occurrences and the quantile walk stops early or runs past the data", f.Name, delta))
			return true
		})
	}
	if n == 0 {
		R.Fail("H1b", "hdrhist/record", "-", "no `counts[i] += d` store found: the recording primitive moved")
	}
}

// ---------------------------------------------------------------- V3

func ruleV3(c *Ctx) {
	R := c.R
	p := c.P
	R.Rule("V3", "WaitGroup.Done is Add(-1) and WaitGroup.Inc is Add(1) (constant arguments)", 2)
	for name, want := range map[string]string{"fun.(*WaitGroup).Done": "-1", "fun.(*WaitGroup).Inc": "1"} {
		f := p.FuncNamed(name)
		if f == nil {
			R.Fail("V3", name, "-", "not found")
			continue
		}
		info := f.Info()
		got := ""
		walkNoLit(f.Body, func(x ast.Node) bool {
			if call, ok := x.(*ast.CallExpr); ok && callName(info, call) == "fun.(*WaitGroup).Add" && len(call.Args) == 1 {
				if tv, ok := info.Types[call.Args[0]]; ok && tv.Value != nil {
					got = tv.Value.String()
				}
			}
			return true
		})
		R.Check(got == want, "V3", name+"/delta", p.Position(f.Pos()), "Add("+want+")", fmt.Sprintf("%s calls Add(%s), not Add(%s): every Launch/Done pair moves the counter the wrong way (Wait returns early or never)", name, got, want))
	}
}

// ---------------------------------------------------------------- D6e

func ruleD6e(c *Ctx) {
	R := c.R
	p := c.P
	R.Rule("D6e", "Set.AddCheck inserts (into the order list or the index) only after the presence test returned for a present value (re-adding does not move or duplicate a member); Set.DeleteCheck removes the value from the index on every path (a deleted value is not found again)", 2)
	if f := p.FuncNamed("dt.(*Set).AddCheck"); f != nil {
		info := f.Info()
		fl := newFlow(f)
		// presence variable: ok = s.hash.Check(in)
		var pres types.Object
		walkNoLit(f.Body, func(x ast.Node) bool {
			if as, ok := x.(*ast.AssignStmt); ok && len(as.Lhs) == 1 && len(as.Rhs) == 1 {
				if call, ok := ast.Unparen(as.Rhs[0]).(*ast.CallExpr); ok && selName(call) == "Check" {
					if id, ok := as.Lhs[0].(*ast.Ident); ok {
						pres = info.Uses[id]
						if pres == nil {
							pres = info.Defs[id]
						}
					}
				}
			}
			return true
		})
		var guard ast.Node
		walkNoLit(f.Body, func(x ast.Node) bool {
			if ifs, ok := x.(*ast.IfStmt); ok && containsReturn(ifs.Body) {
				if id, ok := ast.Unparen(ifs.Cond).(*ast.Ident); ok && pres != nil && info.Uses[id] == pres {
					guard = ifs.Cond
				}
				if call, ok := ast.Unparen(ifs.Cond).(*ast.CallExpr); ok && selName(call) == "Check" {
					guard = ifs.Cond
				}
			}
			return true
		})
		ok := guard != nil
		n := 0
		walkNoLit(f.Body, func(x ast.Node) bool {
			call, isCall := x.(*ast.CallExpr)
			if !isCall {
				return true
			}
			switch selName(call) {
			case "Append", "PushBack", "PushFront", "Add", "SetDefault", "Store", "Set":
				n++
				if guard == nil || !fl.Dominates(guard, call) {
					ok = false
				}
			}
			return true
		})
		R.Check(ok && n > 0, "D6e", "dt.(*Set).AddCheck/insert-once", p.Position(f.Pos()), fmt.Sprintf("%d insertions, all behind `if present { return }`", n),
			"Set.AddCheck inserts without (or before) the presence test: re-adding a member appends a second element for it — the iterator yields it twice, it moves to the back of an ordered set, and the index keeps only the newer element")
	} else {
		R.Fail("D6e", "dt.(*Set).AddCheck/insert-once", "-", "not found")
	}
	if f := p.FuncNamed("dt.(*Set).DeleteCheck"); f != nil {
		info := f.Info()
		fl := newFlow(f)
		deferred := false
		var del ast.Node
		walkNoLit(f.Body, func(x ast.Node) bool {
			call, ok := x.(*ast.CallExpr)
			if !ok {
				return true
			}
			if isBuiltinCall(info, call, "delete") || selName(call) == "Delete" {
				del = call
				if ds, ok := p.Parent(call).(*ast.DeferStmt); ok && p.Parent(ds) == ast.Node(f.Body) {
					deferred = true
				}
			}
			return true
		})
		ok := del != nil
		if ok && !deferred {
			// every `return true` is dominated by the delete
			walkNoLit(f.Body, func(x ast.Node) bool {
				if rs, isRet := x.(*ast.ReturnStmt); isRet && len(rs.Results) == 1 {
					if tv, has := info.Types[rs.Results[0]]; has && tv.Value != nil && tv.Value.String() == "true" && !fl.Dominates(del, rs) {
						ok = false
					}
				}
				return true
			})
		}
		R.Check(ok, "D6e", "dt.(*Set).DeleteCheck/unindexed", p.Position(f.Pos()), "the value leaves the index on every successful path", "Set.DeleteCheck does not delete the value from the index: Check/Len still report it and a second Delete returns true again although the element is gone from the order list")
	} else {
		R.Fail("D6e", "dt.(*Set).DeleteCheck/unindexed", "-", "not found")
	}
}

// ---------------------------------------------------------------- L7 / U2b  (adt.Once)

// ruleOnce: adt.Once has no mutex. Its plain fields are safe only because they
// are written inside the sync.Once body (and read after Do returned); any field
// written elsewhere must be of an atomic type. And the only way out of Do /
// Resolve is through once.Do, which blocks late callers until the first
// execution has finished.
func ruleOnce(c *Ctx) {
	R := c.R
	p := c.P
	R.Rule("L7", "every field of adt.Once that is written outside the sync.Once body (directly, or in a helper that is only ever run by once.Do) and outside the constructor is of an atomic type", 1)
	R.Rule("U2b", "adt.Once.Do and Resolve reach every exit through once.Do (no fast path around it: `called` is set before the constructor has finished)", 2)
	var methods []*Func
	for _, f := range p.FuncsIn("adt") {
		if f.Decl != nil && f.Decl.Recv != nil && recvNamed(f) == "Once" {
			methods = append(methods, f)
		}
	}
	if len(methods) == 0 {
		R.Fail("L7", "adt.Once", "-", "adt.Once not found")
		return
	}
	// helpers that are only run by once.Do: referenced only as `o.once.Do(o.helper)` or called inside a once.Do literal
	onceOnly := map[*types.Func]bool{}
	for _, g := range methods {
		if g.Obj == nil {
			continue
		}
		refs, guarded := 0, 0
		for _, f := range methods {
			info := f.Info()
			ast.Inspect(f.Body, func(x ast.Node) bool {
				se, ok := x.(*ast.SelectorExpr)
				if !ok {
					return true
				}
				s := info.Selections[se]
				if s == nil || s.Kind() != types.MethodVal {
					return true
				}
				if fn, ok := s.Obj().(*types.Func); !ok || fn.Origin() != g.Obj.Origin() {
					return true
				}
				refs++
				for par := p.Parent(se); par != nil; par = p.Parent(par) {
					if call, ok := par.(*ast.CallExpr); ok && callName(info, call) == "sync.(*Once).Do" {
						guarded++
						break
					}
					if lit, ok := par.(*ast.FuncLit); ok && literalOnlyRunByOnce(p, lit) {
						guarded++
						break
					}
					if _, ok := par.(*ast.FuncDecl); ok {
						break
					}
				}
				return true
			})
		}
		if refs > 0 && refs == guarded {
			onceOnly[g.Obj.Origin()] = true
		}
	}
	n := 0
	for _, f := range methods {
		info := f.Info()
		if f.Obj != nil && onceOnly[f.Obj.Origin()] {
			continue
		}
		recv := recvObject(f)
		ast.Inspect(f.Body, func(x ast.Node) bool {
			as, ok := x.(*ast.AssignStmt)
			if !ok {
				return true
			}
			for _, l := range as.Lhs {
				se, ok := ast.Unparen(l).(*ast.SelectorExpr)
				if !ok {
					continue
				}
				if id, ok := ast.Unparen(se.X).(*ast.Ident); !ok || info.Uses[id] != recv {
					continue
				}
				// inside a once.Do literal?
				inOnce := false
				for par := p.Parent(as); par != nil; par = p.Parent(par) {
					if call, ok := par.(*ast.CallExpr); ok && callName(info, call) == "sync.(*Once).Do" {
						inOnce = true
					}
					if lit, ok := par.(*ast.FuncLit); ok && literalOnlyRunByOnce(p, lit) {
						inOnce = true
					}
					if _, ok := par.(*ast.FuncDecl); ok {
						break
					}
				}
				if inOnce {
					continue
				}
				n++
				tv := info.Types[se]
				safe := false
				if nt := namedOf(tv.Type); nt != nil {
					switch typeName(nt) {
					case "adt.Atomic", "atomic.Bool", "atomic.Int32", "atomic.Int64", "atomic.Uint32", "atomic.Uint64", "atomic.Value", "atomic.Pointer", "sync.Once", "sync.Mutex", "sync.RWMutex":
						safe = true
					}
				}
				R.Check(safe, "L7", fmt.Sprintf("%s/store(%s)", f.Name, se.Sel.Name), p.Position(as.Pos()), "atomic field",
					fmt.Sprintf("%s assigns the plain field %s outside the sync.Once body: it races with the execution that reads (and clears) it inside once.Do", f.Name, se.Sel.Name))
			}
			return true
		})
	}
	if n == 0 {
		R.OK("L7", "adt.Once/no-plain-store-outside-once", "-", "no plain field of adt.Once is assigned outside the sync.Once body")
	}
	for _, name := range []string{"adt.(*Once).Do", "adt.(*Once).Resolve"} {
		f := p.FuncNamed(name)
		if f == nil {
			R.Fail("U2b", name, "-", "not found")
			continue
		}
		info := f.Info()
		fl := newFlow(f)
		entry := blockNode{fl.G.Blocks[0], -1}
		_, skips := fl.pathToExitAvoiding(entry, func(n ast.Node) bool {
			hit := false
			ast.Inspect(n, func(y ast.Node) bool {
				if call, ok := y.(*ast.CallExpr); ok && callName(info, call) == "sync.(*Once).Do" {
					hit = true
				}
				return !hit
			})
			return hit
		})
		R.Check(!skips, "U2b", name+"/through-once", p.Position(f.Pos()), "every path passes once.Do", name+" has a path that returns without once.Do: a caller that arrives while the first execution is still running returns at once, before the value exists")
	}
}

// ---------------------------------------------------------------- L4p

// ruleL4p: a critical section that contains a call which panics by design
// releases its mutex with defer.
func ruleL4p(c *Ctx, owners map[string]bool, floor int) {
	R := c.R
	p := c.P
	R.Rule("L4p", "a method of a guarded type whose critical section contains a call that panics by design (fun.Invariant.*, panic) releases the mutex with defer: an explicit Unlock after the call leaves the mutex locked for ever once the panic is recovered upstream", floor)
	for _, f := range p.Funcs {
		if f.Decl == nil || f.Decl.Recv == nil {
			continue
		}
		key := shortPkg(f.Pkg.PkgPath) + "." + recvNamed(f)
		if !owners[key] {
			continue
		}
		info := f.Info()
		var lock, explicitUnlock, panicky ast.Node
		deferred := false
		walkNoLit(f.Body, func(x ast.Node) bool {
			switch t := x.(type) {
			case *ast.DeferStmt:
				if strings.HasSuffix(callName(info, t.Call), ".Unlock") {
					deferred = true
				}
				// defer adt.With(adt.Lock(m)) and friends
				if len(t.Call.Args) == 1 {
					if inner, ok := ast.Unparen(t.Call.Args[0]).(*ast.CallExpr); ok && (selName(inner) == "lock" || selName(inner) == "Lock" || callName(info, inner) == "adt.Lock") {
						deferred = true
					}
				}
				return false
			case *ast.CallExpr:
				cn := callName(info, t)
				switch {
				case strings.HasSuffix(cn, "Mutex).Lock") || strings.HasSuffix(cn, "Locker.Lock"):
					if lock == nil {
						lock = t
					}
				case strings.HasSuffix(cn, "Mutex).Unlock") || strings.HasSuffix(cn, "Locker.Unlock"):
					explicitUnlock = t
				case strings.HasPrefix(cn, "fun.RuntimeInvariant.") || isBuiltinCall(info, t, "panic"):
					panicky = t
				}
			}
			return true
		})
		if lock == nil || panicky == nil {
			continue
		}
		at := f.Name + "/panic-safe-unlock"
		R.Check(deferred && explicitUnlock == nil || deferred, "L4p", at, p.Position(f.Pos()), "the mutex is released by defer",
			fmt.Sprintf("%s can panic at %s while holding its mutex and releases it with an explicit Unlock: after the (recovered) panic every later call on the object blocks for ever — also a Wait whose context is cancelled", f.Name, p.Position(panicky.Pos())))
	}
}

// ---------------------------------------------------------------- D6f

// ruleD6f: the membership index of a dt.Set only ever holds nil or an element
// the set made itself, and never leaves the set. Every mention of the field
// Set.hash is classified; anything but the enumerated read forms and the two
// write forms (a fresh NewElement, the zero value) is reported.
func ruleD6f(c *Ctx) {
	R := c.R
	p := c.P
	R.Rule("D6f", "Set.hash is written only with the zero value (SetDefault) or with an element made by NewElement in the same function, is replaced only by an empty map, and is never passed on, returned, copied from or bulk-merged: the element pointers in the index always belong to this set's own order list (the bijection between index and list cannot be broken from another set)", 8)
	readMethods := map[string]bool{"Check": true, "Get": true, "Load": true, "Len": true, "Delete": true}
	n := 0
	perFunc := map[*Func]int{}
	for _, f := range p.FuncsIn("dt") {
		info := f.Info()
		walkNoLit(f.Body, func(x ast.Node) bool {
			se, ok := x.(*ast.SelectorExpr)
			if !ok || se.Sel.Name != "hash" {
				return true
			}
			s := info.Selections[se]
			if s == nil || s.Kind() != types.FieldVal || !typeIs(s.Recv(), "dt", "Set") {
				return true
			}
			n++
			perFunc[f]++
			at := fmt.Sprintf("%s/hash-use#%d", f.Name, perFunc[f])
			pos := p.Position(se.Pos())
			par := p.Parent(se)
			fresh := func(e ast.Expr) bool {
				call, ok := ast.Unparen(resolveLocal(f, e)).(*ast.CallExpr)
				return ok && callName(info, call) == "dt.NewElement"
			}
			bad := ""
			switch t := par.(type) {
			case *ast.CallExpr:
				// len(s.hash), delete(s.hash, k), or an argument to something else
				if isBuiltinCall(info, t, "len") || isBuiltinCall(info, t, "delete") {
					break
				}
				bad = "is passed to " + exprStr(t.Fun)
			case *ast.SelectorExpr:
				// s.hash.M(...)
				call, isCall := p.Parent(t).(*ast.CallExpr)
				if !isCall || call.Fun != ast.Expr(t) {
					bad = "has a method value taken (" + exprStr(t) + ")"
					break
				}
				switch {
				case readMethods[t.Sel.Name]:
				case t.Sel.Name == "SetDefault":
				case t.Sel.Name == "Add" && len(call.Args) == 2:
					if !fresh(call.Args[1]) {
						bad = "receives " + exprStr(call.Args[1]) + ", which is not an element made here by NewElement"
					}
				default:
					bad = "is used through " + t.Sel.Name + ", which is neither a read nor a single store of a fresh element"
				}
			case *ast.IndexExpr:
				// s.hash[k] read, or s.hash[k] = v
				if as, isAs := p.Parent(t).(*ast.AssignStmt); isAs {
					for i, l := range as.Lhs {
						if l == ast.Expr(t) && i < len(as.Rhs) && !fresh(as.Rhs[i]) {
							bad = "receives " + exprStr(as.Rhs[i]) + ", which is not an element made here by NewElement"
						}
					}
				}
			case *ast.RangeStmt:
				if t.X != ast.Expr(se) {
					bad = "is assigned in a range clause"
				}
			case *ast.BinaryExpr:
				// s.hash == nil
			case *ast.AssignStmt:
				for i, l := range t.Lhs {
					if l == ast.Expr(se) {
						ok := false
						if i < len(t.Rhs) {
							switch r := ast.Unparen(t.Rhs[i]).(type) {
							case *ast.CompositeLit:
								ok = len(r.Elts) == 0
							case *ast.CallExpr:
								ok = isBuiltinCall(info, r, "make")
							}
						}
						if !ok {
							bad = "is replaced by something other than an empty map"
						}
					}
				}
				for _, r := range t.Rhs {
					if r == ast.Expr(se) {
						bad = "is copied to " + exprStr(t.Lhs[0])
					}
				}
			default:
				bad = fmt.Sprintf("is used in a %T", par)
			}
			R.Check(bad == "", "D6f", at, pos, "read, or a store of nil / a fresh element", fmt.Sprintf("%s: the set's index %s (%s): elements of another set's order list can get into (or out of) this index, after which a Delete here unlinks a member of the other set behind its back", f.Name, bad, pos))
			return true
		})
	}
}

// ---------------------------------------------------------------- L5c

// ruleL5c: the Set's mutex holder is write-once.
func ruleL5c(c *Ctx) {
	R := c.R
	p := c.P
	R.Rule("L5c", "dt.atomic (the holder of a Set's mutex) is write-once: its value is only loaded, or stored by CompareAndSwap(nil, x) / CompareAndSwap(x, x); there is no Store or Swap (a second WithLock with another mutex must leave the first in place — two callers locking different mutexes exclude nobody)", 2)
	n := 0
	for _, f := range p.FuncsIn("dt") {
		info := f.Info()
		walkNoLit(f.Body, func(x ast.Node) bool {
			se, ok := x.(*ast.SelectorExpr)
			if !ok || se.Sel.Name != "val" {
				return true
			}
			s := info.Selections[se]
			if s == nil || s.Kind() != types.FieldVal || !typeIs(s.Recv(), "dt", "atomic") {
				return true
			}
			n++
			at := fmt.Sprintf("%s/val#%d", f.Name, n)
			pos := p.Position(se.Pos())
			msel, ok := p.Parent(se).(*ast.SelectorExpr)
			call, isCall := p.Parent(msel).(*ast.CallExpr)
			if !ok || !isCall || call.Fun != ast.Expr(msel) {
				R.Fail("L5c", at, pos, f.Name+": the holder's value is used other than through Load / CompareAndSwap ("+nodeStr(p.Parent(se))+")")
				return true
			}
			switch msel.Sel.Name {
			case "Load":
				R.OK("L5c", at, pos, "Load")
			case "CompareAndSwap":
				okForm := false
				if len(call.Args) == 2 {
					if id, isId := ast.Unparen(call.Args[0]).(*ast.Ident); isId {
						if _, isNil := info.Uses[id].(*types.Nil); isNil {
							okForm = true
						}
					}
					if exprStr(call.Args[0]) == exprStr(call.Args[1]) {
						okForm = true
					}
				}
				R.Check(okForm, "L5c", at, pos, exprStr(call), f.Name+": "+exprStr(call)+" replaces a value that is set by a different one: the holder is no longer write-once")
			default:
				R.Fail("L5c", at, pos, fmt.Sprintf("%s: %s overwrites the holder unconditionally: a second WithLock (which reports failure) has already replaced the mutex, so goroutines that read the holder before and after it lock different mutexes", f.Name, exprStr(call)))
			}
			return true
		})
	}
}

// ---------------------------------------------------------------- D12

// ruleD12: Queue entries are immutable once linked, and never reused.
func ruleD12(c *Ctx) {
	R := c.R
	p := c.P
	R.Rule("D12", "a Queue entry is written once: entry.item only in the composite literal that makes the entry; entry.link only through the queue's own ends (q.back.link = <entry made here by &entry{…}>, q.front.link = <x>.link) — never through a local entry variable, so a removed entry keeps its item and its link (an iterator parked on it walks on from there) and no entry is linked twice", 2)
	for _, f := range p.FuncsIn("pubsub") {
		info := f.Info()
		n := 0
		walkNoLit(f.Body, func(x ast.Node) bool {
			as, ok := x.(*ast.AssignStmt)
			if !ok {
				return true
			}
			for i, l := range as.Lhs {
				se, ok := ast.Unparen(l).(*ast.SelectorExpr)
				if !ok {
					continue
				}
				s := info.Selections[se]
				if s == nil || s.Kind() != types.FieldVal || !typeIs(s.Recv(), "pubsub", "entry") {
					continue
				}
				n++
				at := fmt.Sprintf("%s/entry.%s#%d", f.Name, se.Sel.Name, n)
				pos := p.Position(as.Pos())
				// a store into an entry that this function made and has not linked yet: still private
				if id, isId := ast.Unparen(se.X).(*ast.Ident); isId {
					if v, isVar := info.Uses[id].(*types.Var); isVar && !v.IsField() {
						if rhs := singleDef(f, v); rhs != nil {
							if u, isU := ast.Unparen(rhs).(*ast.UnaryExpr); isU && u.Op == token.AND {
								if _, isLit := ast.Unparen(u.X).(*ast.CompositeLit); isLit {
									linkedBefore := false
									walkNoLit(f.Body, func(y ast.Node) bool {
										if as2, ok := y.(*ast.AssignStmt); ok && as2.Pos() < as.Pos() {
											for _, r := range as2.Rhs {
												if rid, ok := ast.Unparen(r).(*ast.Ident); ok && info.Uses[rid] == types.Object(v) {
													linkedBefore = true
												}
											}
										}
										return true
									})
									if !linkedBefore {
										R.OK("D12", at, pos, exprStr(l)+" on an entry made here and not yet linked")
										continue
									}
								}
							}
						}
					}
				}
				if se.Sel.Name != "link" {
					R.Fail("D12", at, pos, fmt.Sprintf("%s assigns %s after the entry was made: an entry that an iterator may still be standing on changes its value", f.Name, exprStr(l)))
					continue
				}
				// the base is one of the queue's ends
				base, isSel := ast.Unparen(se.X).(*ast.SelectorExpr)
				baseOK := false
				if isSel {
					if bs := info.Selections[base]; bs != nil && bs.Kind() == types.FieldVal && typeIs(bs.Recv(), "pubsub", "Queue") && (base.Sel.Name == "back" || base.Sel.Name == "front") {
						baseOK = true
					}
				}
				if !baseOK {
					R.Fail("D12", at, pos, fmt.Sprintf("%s writes %s: the link of an entry reached through a local, i.e. possibly a removed one — an iterator parked on it loses its way to the rest of the queue (or is sent round again)", f.Name, exprStr(l)))
					continue
				}
				valOK := false
				why := ""
				if i < len(as.Rhs) && len(as.Lhs) == len(as.Rhs) {
					r := ast.Unparen(resolveLocal(f, as.Rhs[i]))
					switch t := r.(type) {
					case *ast.UnaryExpr:
						if _, isLit := ast.Unparen(t.X).(*ast.CompositeLit); isLit && t.Op == token.AND {
							valOK = true
						}
					case *ast.SelectorExpr:
						if rs := info.Selections[t]; rs != nil && rs.Kind() == types.FieldVal && typeIs(rs.Recv(), "pubsub", "entry") && t.Sel.Name == "link" && base.Sel.Name == "front" {
							valOK = true
						}
					}
					// a variable with more than one definition (e := q.spare; if e == nil { e = &entry{} }) is not fresh
					why = exprStr(as.Rhs[i])
				}
				R.Check(valOK, "D12", at, pos, nodeStr(as), fmt.Sprintf("%s links %s, which is not an entry made here by &entry{…} (nor the successor of the removed head): an entry that was in the queue before is linked again while an iterator may still stand on it", f.Name, why))
			}
			return true
		})
	}
}
