package main

// A small abstract interpreter for error-classification code (E8).
//
// The functions that decide what happens to an error (CanContinueOnError, the
// switch at the heart of every ReadOne/ReadAll/Process loop, Retry, ...) are
// straight-line decision code over a handful of predicates on the error:
// err == nil, errors.Is(err, <sentinel>), ers.IsTerminating(err), option
// booleans. The interpreter evaluates such code for EVERY assignment of those
// predicates (atoms) and yields the decision table, which a rule compares with
// the table written from the property. No repository code is executed; an
// expression or statement the interpreter does not understand makes the
// obligation undecided (reported, never guessed).

import (
	"fmt"
	"go/ast"
	"go/constant"
	"go/token"
	"go/types"
	"sort"
	"strings"
)

type outcomeKind int

const (
	oFall outcomeKind = iota
	oReturn
	oContinue
	oBreak
	oGoto
	oPanic
)

type outcome struct {
	Kind    outcomeKind
	Results []ast.Expr
	Label   string
}

type interp struct {
	f       *Func
	atoms   map[string]bool
	errObjs map[types.Object]bool // variables holding "the error"
	env     map[types.Object]any  // local bools / known values
	effects []string
	// effect classifies a call that is not a predicate: returns a label ("" = ignore) and whether it is understood
	effect  func(it *interp, call *ast.CallExpr) (string, bool)
	unknown []string
	used    map[string]bool // atoms actually consulted
	// free: boolean sub-expressions the interpreter cannot resolve become free
	// atoms ("?<expr>"): the enumeration then covers both outcomes
	free map[string]bool
}

func (it *interp) note(format string, args ...any) {
	it.unknown = append(it.unknown, fmt.Sprintf(format, args...))
}

func (it *interp) atom(name string) bool {
	it.used[name] = true
	v, ok := it.atoms[name]
	if !ok && it.free != nil && len(it.free) < 4 {
		// a predicate the caller did not list: enumerate it as well
		it.free[name] = true
	}
	return v
}

// sentinelName maps an error expression to the atom that stands for
// "errors.Is(err, <that sentinel>)".
func (it *interp) sentinelName(e ast.Expr) (string, bool) {
	info := it.f.Info()
	e = ast.Unparen(e)
	if tv, ok := info.Types[e]; ok && tv.Value != nil && tv.Value.Kind() == constant.String {
		switch constant.StringVal(tv.Value) {
		case "recovered panic":
			return "panic", true
		case "skip current operation":
			return "skip", true
		case "abort current operation":
			return "abort", true
		default:
			return "is:" + constant.StringVal(tv.Value), true
		}
	}
	var obj types.Object
	switch t := e.(type) {
	case *ast.SelectorExpr:
		obj = info.Uses[t.Sel]
	case *ast.Ident:
		obj = info.Uses[t]
	}
	if v, ok := obj.(*types.Var); ok && v.Pkg() != nil {
		switch v.Pkg().Path() + "." + v.Name() {
		case "io.EOF":
			return "eof", true
		case "context.Canceled", "context.DeadlineExceeded":
			return "ctx", true
		}
		if v.Parent() == v.Pkg().Scope() {
			return "is:" + v.Pkg().Name() + "." + v.Name(), true
		}
	}
	return "", false
}

func (it *interp) isErrExpr(e ast.Expr) bool {
	id, ok := ast.Unparen(e).(*ast.Ident)
	if !ok {
		return false
	}
	obj := it.f.Info().Uses[id]
	if it.errObjs[obj] {
		return true
	}
	return false
}

// evalBool evaluates a boolean expression under the current atom assignment.
func (it *interp) evalBool(e ast.Expr) (bool, bool) {
	info := it.f.Info()
	e = ast.Unparen(e)
	if tv, ok := info.Types[e]; ok && tv.Value != nil && tv.Value.Kind() == constant.Bool {
		return constant.BoolVal(tv.Value), true
	}
	switch t := e.(type) {
	case *ast.UnaryExpr:
		if t.Op == token.NOT {
			v, ok := it.evalBool(t.X)
			return !v, ok
		}
	case *ast.BinaryExpr:
		switch t.Op {
		case token.LAND:
			a, ok := it.evalBool(t.X)
			if !ok {
				return false, false
			}
			if !a {
				return false, true
			}
			return it.evalBool(t.Y)
		case token.LOR:
			a, ok := it.evalBool(t.X)
			if !ok {
				return false, false
			}
			if a {
				return true, true
			}
			return it.evalBool(t.Y)
		case token.EQL, token.NEQ:
			neg := t.Op == token.NEQ
			if it.isErrExpr(t.X) && isNilIdent(info, t.Y) || it.isErrExpr(t.Y) && isNilIdent(info, t.X) {
				return it.atom("nil") != neg, true
			}
			// bool == bool
			if a, ok := it.evalBool(t.X); ok {
				if b, ok := it.evalBool(t.Y); ok {
					return (a == b) != neg, true
				}
			}
		case token.GTR, token.NEQ + 100:
		}
		if t.Op == token.GTR || t.Op == token.NEQ {
			// len(o.X) > 0
			if call, ok := ast.Unparen(t.X).(*ast.CallExpr); ok && isBuiltinCall(info, call, "len") && len(call.Args) == 1 {
				if tv, ok := info.Types[t.Y]; ok && tv.Value != nil && constant.Sign(tv.Value) == 0 {
					if ap, ok := pathOf(info, call.Args[0]); ok && len(ap.Fields) == 1 {
						return it.atom("nonempty:" + ap.Fields[0].Name()), true
					}
				}
			}
		}
	case *ast.Ident:
		obj := info.Uses[t]
		if v, ok := it.env[obj]; ok {
			if b, ok := v.(bool); ok {
				return b, true
			}
		}
	case *ast.SelectorExpr:
		// option booleans: o.ContinueOnError
		if s := info.Selections[t]; s != nil && s.Kind() == types.FieldVal {
			if b, ok := s.Obj().Type().Underlying().(*types.Basic); ok && b.Kind() == types.Bool {
				return it.atom("opt:" + s.Obj().Name()), true
			}
		}
	case *ast.CallExpr:
		name := callName(info, t)
		switch name {
		case "errors.Is":
			if len(t.Args) == 2 && it.isErrExpr(t.Args[0]) {
				if s, ok := it.sentinelName(t.Args[1]); ok {
					return it.atom(s), true
				}
			}
		case "ers.Is":
			if len(t.Args) >= 2 && it.isErrExpr(t.Args[0]) {
				if t.Ellipsis.IsValid() && len(t.Args) == 2 {
					if ap, ok := pathOf(info, t.Args[1]); ok && len(ap.Fields) == 1 {
						return it.atom("in:" + ap.Fields[0].Name()), true
					}
				}
				res := false
				for _, a := range t.Args[1:] {
					s, ok := it.sentinelName(a)
					if !ok {
						it.note("unknown sentinel %s", exprStr(a))
						return false, false
					}
					if it.atom(s) {
						res = true
					}
				}
				return res, true
			}
		case "ers.IsExpiredContext":
			if len(t.Args) == 1 && it.isErrExpr(t.Args[0]) {
				return it.atom("ctx"), true
			}
		case "ers.IsTerminating":
			if len(t.Args) == 1 && it.isErrExpr(t.Args[0]) {
				a, b, c := it.atom("eof"), it.atom("abort"), it.atom("ctx")
				return a || b || c, true
			}
		case "sync/atomic.(*Bool).Load":
			if ap, ok := pathOf(info, recvExpr(t)); ok && len(ap.Fields) > 0 {
				return it.atom("flag:" + ap.Fields[len(ap.Fields)-1].Name()), true
			}
		case "ers.Ok":
			if len(t.Args) == 1 && it.isErrExpr(t.Args[0]) {
				return it.atom("nil"), true
			}
		case "ers.IsError":
			if len(t.Args) == 1 && it.isErrExpr(t.Args[0]) {
				return !it.atom("nil"), true
			}
		}
	}
	// an opaque boolean: treat it as a free atom
	key := "?" + exprStr(e)
	if v, ok := it.atoms[key]; ok {
		it.used[key] = true
		return v, true
	}
	if it.free != nil && len(it.free) < 4 {
		it.free[key] = true
	}
	it.note("cannot evaluate %s", exprStr(e))
	return false, false
}

// exec runs a statement list; ok=false when something is not understood.
func (it *interp) exec(list []ast.Stmt) (outcome, bool) {
	for _, s := range list {
		o, ok := it.execStmt(s)
		if !ok {
			return o, false
		}
		if o.Kind != oFall {
			return o, true
		}
	}
	return outcome{}, true
}

func (it *interp) execStmt(s ast.Stmt) (outcome, bool) {
	info := it.f.Info()
	switch t := s.(type) {
	case *ast.BlockStmt:
		return it.exec(t.List)
	case *ast.EmptyStmt:
		return outcome{}, true
	case *ast.LabeledStmt:
		return it.execStmt(t.Stmt)
	case *ast.ReturnStmt:
		return outcome{Kind: oReturn, Results: t.Results}, true
	case *ast.BranchStmt:
		lbl := ""
		if t.Label != nil {
			lbl = t.Label.Name
		}
		switch t.Tok {
		case token.CONTINUE:
			return outcome{Kind: oContinue, Label: lbl}, true
		case token.BREAK:
			return outcome{Kind: oBreak, Label: lbl}, true
		case token.GOTO:
			return outcome{Kind: oGoto, Label: lbl}, true
		}
	case *ast.IfStmt:
		if t.Init != nil {
			if o, ok := it.execStmt(t.Init); !ok || o.Kind != oFall {
				return o, ok
			}
		}
		c, ok := it.evalBool(t.Cond)
		if !ok {
			return outcome{}, false
		}
		if c {
			return it.exec(t.Body.List)
		}
		if t.Else != nil {
			return it.execStmt(t.Else)
		}
		return outcome{}, true
	case *ast.SwitchStmt:
		if t.Tag != nil || t.Init != nil {
			it.note("switch with tag/init at %s", it.f.Prog.Position(t.Pos()))
			return outcome{}, false
		}
		var def *ast.CaseClause
		for _, cl := range t.Body.List {
			cc := cl.(*ast.CaseClause)
			if cc.List == nil {
				def = cc
				continue
			}
			for _, ce := range cc.List {
				v, ok := it.evalBool(ce)
				if !ok {
					return outcome{}, false
				}
				if v {
					return it.caseBody(cc)
				}
			}
		}
		if def != nil {
			return it.caseBody(def)
		}
		return outcome{}, true
	case *ast.AssignStmt:
		// bool local := <bool expr>
		if len(t.Lhs) == 1 && len(t.Rhs) == 1 {
			if id, ok := t.Lhs[0].(*ast.Ident); ok {
				obj := info.Defs[id]
				if obj == nil {
					obj = info.Uses[id]
				}
				if obj != nil {
					if b, ok := obj.Type().Underlying().(*types.Basic); ok && b.Kind() == types.Bool {
						v, ok := it.evalBool(t.Rhs[0])
						if !ok {
							return outcome{}, false
						}
						it.env[obj] = v
						return outcome{}, true
					}
				}
			}
		}
		// other assignments: only effects through calls matter
		for _, r := range t.Rhs {
			if call, ok := ast.Unparen(r).(*ast.CallExpr); ok {
				if !it.doCall(call) {
					return outcome{}, false
				}
			}
		}
		// err reassigned from a call: the classification below talks about the new error
		return outcome{}, true
	case *ast.ExprStmt:
		if call, ok := t.X.(*ast.CallExpr); ok {
			if isBuiltinCall(info, call, "panic") {
				return outcome{Kind: oPanic}, true
			}
			if !it.doCall(call) {
				return outcome{}, false
			}
			return outcome{}, true
		}
	case *ast.DeclStmt:
		return outcome{}, true
	}
	it.note("statement %T at %s", s, it.f.Prog.Position(s.Pos()))
	return outcome{}, false
}

func (it *interp) caseBody(cc *ast.CaseClause) (outcome, bool) {
	o, ok := it.exec(cc.Body)
	if ok && o.Kind == oBreak && o.Label == "" {
		return outcome{}, true // break out of the switch
	}
	return o, ok
}

// doCall handles the repo's conditional helpers and records effects.
func (it *interp) doCall(call *ast.CallExpr) bool {
	info := it.f.Info()
	name := callName(info, call)
	switch name {
	case "ft.WhenCall", "ft.WhenDo":
		if len(call.Args) == 2 {
			c, ok := it.evalBool(call.Args[0])
			if !ok {
				return false
			}
			if c {
				return it.invoke(call.Args[1])
			}
			return true
		}
	case "ft.SafeCall", "ft.SafeDo":
		if len(call.Args) == 1 {
			return it.invoke(call.Args[0])
		}
	}
	if it.effect != nil {
		label, ok := it.effect(it, call)
		if !ok {
			it.note("call %s", exprStr(call))
			return false
		}
		if label != "" {
			it.effects = append(it.effects, label)
		}
		return true
	}
	it.note("call %s", exprStr(call))
	return false
}

// invoke runs a function-valued argument: a literal is interpreted, a named
// value becomes an effect "call:<expr>".
func (it *interp) invoke(fnExpr ast.Expr) bool {
	fnExpr = ast.Unparen(fnExpr)
	if lit, ok := fnExpr.(*ast.FuncLit); ok {
		o, ok := it.exec(lit.Body.List)
		_ = o
		return ok
	}
	// synthesize a call expression for the effect callback
	fake := &ast.CallExpr{Fun: fnExpr}
	if it.effect != nil {
		label, ok := it.effect(it, fake)
		if ok {
			if label != "" {
				it.effects = append(it.effects, label)
			}
			return true
		}
	}
	it.note("invoke %s", exprStr(fnExpr))
	return false
}

// --------------------------------------------------------------- tables

type row struct {
	Atoms   map[string]bool
	Outcome outcome
	Effects []string
}

func (r row) String() string {
	var on []string
	for k, v := range r.Atoms {
		if v {
			on = append(on, k)
		}
	}
	sort.Strings(on)
	if len(on) == 0 {
		return "{}"
	}
	return "{" + strings.Join(on, ",") + "}"
}

// enumerate runs body for every consistent assignment of the given atoms.
// consistent filters impossible rows (nil error that also Is something).
func enumerate(f *Func, body []ast.Stmt, errObjs map[types.Object]bool, atoms []string,
	consistent func(map[string]bool) bool,
	effect func(*interp, *ast.CallExpr) (string, bool)) (rows []row, unknown []string, used map[string]bool) {
	used = map[string]bool{}
	free := map[string]bool{}
	for attempt := 0; attempt < 5; attempt++ {
		rows, unknown = nil, nil
		n := len(atoms)
		grew := false
		for mask := 0; mask < 1<<n; mask++ {
			as := map[string]bool{}
			for i, a := range atoms {
				as[a] = mask&(1<<i) != 0
			}
			if consistent != nil && !consistent(as) {
				continue
			}
			it := &interp{f: f, atoms: as, errObjs: errObjs, env: map[types.Object]any{}, effect: effect, used: used, free: free}
			o, ok := it.exec(body)
			if !ok {
				unknown = append(unknown, it.unknown...)
				continue
			}
			rows = append(rows, row{Atoms: as, Outcome: o, Effects: it.effects})
		}
		// opaque conditions met on the way become atoms of their own and the table is rebuilt
		for k := range free {
			have := false
			for _, a := range atoms {
				if a == k {
					have = true
				}
			}
			if !have {
				atoms = append(atoms, k)
				grew = true
			}
		}
		if !grew {
			break
		}
	}
	return rows, unknown, used
}

// resultKind abstracts a returned expression: "nil", "true", "false", "err"
// (the classified error itself), "eof", "skip", "zero", or "expr:<text>".
func resultKind(it *Func, errObjs map[types.Object]bool, e ast.Expr, atoms map[string]bool, used map[string]bool) string {
	info := it.Info()
	e = ast.Unparen(e)
	if isNilIdent(info, e) {
		return "nil"
	}
	if tv, ok := info.Types[e]; ok && tv.Value != nil {
		if tv.Value.Kind() == constant.Bool {
			if constant.BoolVal(tv.Value) {
				return "true"
			}
			return "false"
		}
		if tv.Value.Kind() == constant.String {
			switch constant.StringVal(tv.Value) {
			case "skip current operation":
				return "skip"
			case "abort current operation":
				return "abort"
			}
		}
	}
	if id, ok := e.(*ast.Ident); ok && errObjs[info.Uses[id]] {
		return "err"
	}
	if se, ok := e.(*ast.SelectorExpr); ok {
		if v, ok := info.Uses[se.Sel].(*types.Var); ok && v.Pkg() != nil && v.Pkg().Path() == "io" && v.Name() == "EOF" {
			return "eof"
		}
		// option boolean returned directly
		if s := info.Selections[se]; s != nil && s.Kind() == types.FieldVal {
			if b, ok := s.Obj().Type().Underlying().(*types.Basic); ok && b.Kind() == types.Bool {
				if used != nil {
					used["opt:"+s.Obj().Name()] = true
				}
				if atoms["opt:"+s.Obj().Name()] {
					return "true"
				}
				return "false"
			}
		}
	}
	return "expr:" + exprStr(e)
}
