package main

// The independently written breaking changes archived under /verif/seeded are
// part of the thorough self-test: each patch is applied in memory (overlay) to
// the files it touches, as they are in /repo now, and the property's check must
// report a violation. Patches whose context no longer matches are "n/a".

import (
	"encoding/json"
	"fmt"
	"os"
	"path/filepath"
	"sort"
	"strconv"
	"strings"
)

// seededExpectedMiss: changes no sound static rule in reach can tell from a
// correct program (DESIGN §10); they stay in the matrix as documented misses.
var seededExpectedMiss = map[string]string{
	"C05-m3": "numeric: the burst credit is computed from the quota before instead of after its adjustment (same statements, other order; the admission rule differs only in the value of a float)",
	"C19-m1": "numeric: Floor vs Round of log2(min) — the bucket geometry differs only in a computed magnitude",
	"C05-m7": "numeric: `2*length < softQuota` for `length < softQuota/2` — the quota decays at a different length for odd quotas only",
	"C19-m4": "numeric: bitLen(min-1) (a ceiling) instead of floor(log2(min)) — the same kind of change as C19-m1",
}

type seededChange struct {
	ID       string
	Property string
	Dir      string
}

func listSeeded(verifDir, prop string) []seededChange {
	var out []seededChange
	ents, err := os.ReadDir(filepath.Join(verifDir, "seeded"))
	if err != nil {
		return nil
	}
	for _, e := range ents {
		if !e.IsDir() {
			continue
		}
		dir := filepath.Join(verifDir, "seeded", e.Name())
		raw, err := os.ReadFile(filepath.Join(dir, "meta.json"))
		if err != nil {
			continue
		}
		var meta struct {
			Property string `json:"property"`
		}
		if json.Unmarshal(raw, &meta) != nil {
			continue
		}
		if meta.Property == prop {
			out = append(out, seededChange{ID: e.Name(), Property: meta.Property, Dir: dir})
		}
	}
	sort.Slice(out, func(i, j int) bool { return out[i].ID < out[j].ID })
	return out
}

type hunk struct {
	oldStart int
	old, new []string
}

// parseUnifiedDiff returns, per file (path relative to the repository), its hunks.
func parseUnifiedDiff(text string) map[string][]hunk {
	out := map[string][]hunk{}
	var file string
	var cur *hunk
	flush := func() {
		if cur != nil && file != "" {
			out[file] = append(out[file], *cur)
		}
		cur = nil
	}
	for _, line := range strings.Split(text, "\n") {
		switch {
		case strings.HasPrefix(line, "diff --git "):
			flush()
			file = ""
		case strings.HasPrefix(line, "+++ "):
			flush()
			f := strings.TrimPrefix(line, "+++ ")
			f = strings.TrimPrefix(f, "b/")
			file = strings.TrimSpace(f)
		case strings.HasPrefix(line, "--- "), strings.HasPrefix(line, "index "), strings.HasPrefix(line, "new file"), strings.HasPrefix(line, "deleted file"), strings.HasPrefix(line, "similarity"), strings.HasPrefix(line, "rename"):
		case strings.HasPrefix(line, "@@"):
			flush()
			cur = &hunk{}
			// @@ -a,b +c,d @@
			parts := strings.Fields(line)
			if len(parts) >= 2 {
				a := strings.TrimPrefix(parts[1], "-")
				if i := strings.Index(a, ","); i >= 0 {
					a = a[:i]
				}
				cur.oldStart, _ = strconv.Atoi(a)
			}
		case cur != nil && strings.HasPrefix(line, "-"):
			cur.old = append(cur.old, line[1:])
		case cur != nil && strings.HasPrefix(line, "+"):
			cur.new = append(cur.new, line[1:])
		case cur != nil && strings.HasPrefix(line, " "):
			cur.old = append(cur.old, line[1:])
			cur.new = append(cur.new, line[1:])
		case cur != nil && line == "":
			// blank context line whose leading space was stripped, or the end of the patch
			cur.old = append(cur.old, "")
			cur.new = append(cur.new, "")
		case strings.HasPrefix(line, "\\"):
		}
	}
	flush()
	return out
}

func applyHunks(src string, hs []hunk) (string, bool) {
	lines := strings.Split(src, "\n")
	offset := 0
	for _, h := range hs {
		old := h.old
		// a trailing "" produced by the patch's final newline is not content
		for len(old) > 0 && old[len(old)-1] == "" && len(h.new) > 0 && h.new[len(h.new)-1] == "" {
			old = old[:len(old)-1]
			h.new = h.new[:len(h.new)-1]
		}
		match := func(at int) bool {
			if at < 0 || at+len(old) > len(lines) {
				return false
			}
			for i, l := range old {
				if lines[at+i] != l {
					return false
				}
			}
			return true
		}
		want := h.oldStart - 1 + offset
		pos := -1
		for d := 0; d <= len(lines) && pos < 0; d++ {
			if match(want + d) {
				pos = want + d
			} else if match(want - d) {
				pos = want - d
			}
		}
		if pos < 0 {
			return "", false
		}
		nl := append([]string{}, lines[:pos]...)
		nl = append(nl, h.new...)
		nl = append(nl, lines[pos+len(old):]...)
		offset += len(h.new) - len(old)
		lines = nl
	}
	return strings.Join(lines, "\n"), true
}

// seededOverlay builds the overlay for one archived change against the current tree.
func seededOverlay(repo, dir string) (map[string][]byte, string) {
	raw, err := os.ReadFile(filepath.Join(dir, "patch.diff"))
	if err != nil {
		return nil, "patch.diff missing"
	}
	files := parseUnifiedDiff(string(raw))
	if len(files) == 0 {
		return nil, "no hunks"
	}
	ov := map[string][]byte{}
	for f, hs := range files {
		if strings.HasSuffix(f, "_test.go") {
			continue
		}
		path := filepath.Join(repo, f)
		src, err := os.ReadFile(path)
		if err != nil {
			return nil, "file missing: " + f
		}
		out, ok := applyHunks(string(src), hs)
		if !ok {
			return nil, "context of " + f + " no longer matches"
		}
		ov[path] = []byte(out)
	}
	return ov, ""
}

func runSeededChild(prop, repo, verifDir, id string) int {
	dir := filepath.Join(verifDir, "seeded", id)
	ov, why := seededOverlay(repo, dir)
	if ov == nil {
		fmt.Println("MUT-NA", why)
		return 0
	}
	p, err := loadProg(repo, ov)
	if err != nil {
		fmt.Println("MUT-NOCOMPILE", strings.ReplaceAll(err.Error(), "\n", " "))
		return 0
	}
	check, ok := propChecks[prop]
	if !ok {
		fmt.Println("MUT-ERROR unknown property")
		return 2
	}
	c := &Ctx{P: p, R: newReport(prop, "selftest"), Tier: "selftest"}
	check(c)
	if extra := extraRules[prop]; extra != nil {
		extra(c)
	}
	counts := map[string]int{}
	for _, ob := range c.R.obs {
		counts[ob.Rule]++
	}
	for _, rn := range c.R.order {
		if rs := c.R.rules[rn]; counts[rn] < rs.Floor {
			fmt.Printf("MUT-HIT FLOOR|%s\n", rn)
		}
	}
	for _, ob := range c.R.obs {
		if ob.st != Discharged {
			fmt.Printf("MUT-HIT %s|%s\n", ob.Rule, ob.At)
		}
	}
	fmt.Println("MUT-DONE")
	return 0
}
