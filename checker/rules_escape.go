package main

// L3d / L3b — references derived from guarded fields must not leave the
// owner's methods (except wrapped in WithLock(<owner mutex>)), and must never
// be handed to a callee that uses them on another goroutine.

import (
	"fmt"
	"go/ast"
	"go/token"
	"go/types"
)

type taint struct {
	Field FieldID
	How   string
	Async bool
	Pos   token.Pos
}

type escapeAnalysis struct {
	c        *Ctx
	la       *LockAnalysis
	async    map[*types.Func]map[int]bool // callee -> param (-1 recv) captured by a goroutine
	resTaint map[*Func]*taint             // unexported functions returning derived references
}

func refType(t types.Type) bool {
	switch u := t.(type) {
	case *types.TypeParam:
		return false
	case *types.Named:
		if u.Obj().Pkg() == nil && u.Obj().Name() == "error" {
			return false // errors are immutable values
		}
		return refType(u.Underlying())
	case *types.Alias:
		return refType(types.Unalias(u))
	case *types.Pointer, *types.Map, *types.Slice, *types.Chan, *types.Signature, *types.Interface:
		return true
	case *types.Tuple:
		for i := 0; i < u.Len(); i++ {
			if refType(u.At(i).Type()) {
				return true
			}
		}
	}
	return false
}

// guardedIn returns the guarded field mentioned on the access path of e.
func (ea *escapeAnalysis) guardedIn(f *Func, e ast.Expr) (FieldID, bool) {
	info := f.Info()
	for {
		switch t := ast.Unparen(e).(type) {
		case *ast.SelectorExpr:
			if s := info.Selections[t]; s != nil && s.Kind() == types.FieldVal {
				if id, ok := ea.c.P.Field(s.Obj().(*types.Var)); ok {
					if _, g := ea.la.guards[id]; g {
						return id, true
					}
				}
				e = t.X
				continue
			}
			return FieldID{}, false
		case *ast.StarExpr:
			e = t.X
		case *ast.UnaryExpr:
			e = t.X
		default:
			return FieldID{}, false
		}
	}
}

func (ea *escapeAnalysis) isOwnerLock(f *Func, e ast.Expr) bool {
	ap, ok := resolvePath(f, e)
	if !ok || len(ap.Fields) == 0 {
		return false
	}
	last := ap.Fields[len(ap.Fields)-1]
	id, ok := ea.c.P.Field(last)
	if !ok {
		return false
	}
	for _, g := range ea.la.guards {
		if g.LockOwner.Pkg == id.Pkg && g.LockOwner.Type == id.Type && g.Lock == id.Name {
			return true
		}
	}
	return false
}

func (ea *escapeAnalysis) taintOf(f *Func, e ast.Expr, depth int) *taint {
	if depth > 8 || e == nil {
		return nil
	}
	info := f.Info()
	e = ast.Unparen(e)
	switch t := e.(type) {
	case *ast.UnaryExpr:
		if t.Op == token.AND {
			if id, ok := ea.guardedIn(f, t.X); ok {
				return &taint{Field: id, How: "address of guarded field " + exprStr(t.X), Pos: t.Pos()}
			}
		}
		return ea.taintOf(f, t.X, depth+1)
	case *ast.SelectorExpr:
		s := info.Selections[t]
		if s == nil {
			return nil
		}
		switch s.Kind() {
		case types.FieldVal:
			tv := info.Types[e]
			if id, ok := ea.guardedIn(f, t); ok && refType(tv.Type) {
				return &taint{Field: id, How: "copy of the reference held in " + exprStr(t), Pos: t.Pos()}
			}
			if refType(tv.Type) {
				return ea.taintOf(f, t.X, depth+1)
			}
		case types.MethodVal:
			if id, ok := ea.guardedIn(f, t.X); ok {
				return &taint{Field: id, How: "method value " + exprStr(t) + " bound to a guarded field", Pos: t.Pos()}
			}
			if tt := ea.taintOf(f, t.X, depth+1); tt != nil {
				return tt
			}
		}
	case *ast.CallExpr:
		if tv, ok := info.Types[t.Fun]; ok && tv.IsType() && len(t.Args) == 1 {
			return ea.taintOf(f, t.Args[0], depth+1)
		}
		tv := info.Types[e]
		if tv.Type == nil || !refType(tv.Type) {
			return nil
		}
		fn := calleeFunc(info, t)
		var in *taint
		argTaint := func(x ast.Expr, idx int) {
			var tt *taint
			if id, ok := ea.guardedIn(f, x); ok {
				tt = &taint{Field: id, How: "value derived from " + exprStr(x) + " by " + exprStr(t.Fun), Pos: t.Pos()}
			} else {
				tt = ea.taintOf(f, x, depth+1)
			}
			if tt == nil {
				return
			}
			if fn != nil && ea.async[fn][idx] {
				cp := *tt
				cp.Async = true
				cp.How += fmt.Sprintf("; %s uses it on another goroutine", fname(fn))
				tt = &cp
			}
			if in == nil || (tt.Async && !in.Async) {
				in = tt
			}
		}
		if rx := recvExpr(t); rx != nil {
			if s := info.Selections[ast.Unparen(t.Fun).(*ast.SelectorExpr)]; s != nil && s.Kind() == types.MethodVal {
				argTaint(rx, -1)
			}
		}
		for i, a := range t.Args {
			argTaint(a, i)
		}
		if fn != nil && fn.Name() == "WithLock" && len(t.Args) == 1 && ea.isOwnerLock(f, t.Args[0]) {
			if in != nil && in.Async {
				return in
			}
			return nil
		}
		if in != nil {
			return in
		}
		if g := ea.c.P.FuncOf(fn); g != nil {
			if rt := ea.resTaint[g]; rt != nil {
				cp := *rt
				cp.How = "result of " + g.Name + " (" + rt.How + ")"
				cp.Pos = t.Pos()
				return &cp
			}
		}
	case *ast.Ident:
		if v, ok := info.Uses[t].(*types.Var); ok {
			if rhs := singleDef(f, v); rhs != nil {
				return ea.taintOf(f, rhs, depth+1)
			}
		}
	case *ast.CompositeLit:
		for _, el := range t.Elts {
			if kv, ok := el.(*ast.KeyValueExpr); ok {
				el = kv.Value
			}
			if tt := ea.taintOf(f, el, depth+1); tt != nil {
				return tt
			}
		}
	}
	return nil
}

// deriveAsync: parameter/receiver p of G is used on another goroutine when a
// function literal mentioning p is started with go / .Go() / .Background() /
// .Launch() / .Add(ctx, wg) / .StartGroup(), or p is passed on to such a
// position of another function.
func (ea *escapeAnalysis) deriveAsync() {
	p := ea.c.P
	launchers := map[string]bool{"Go": true, "Background": true, "Launch": true, "Add": true, "StartGroup": true, "Signal": true}
	litLaunched := func(f *Func, lit *ast.FuncLit) bool {
		var n ast.Node = lit
		for par := p.Parent(n); par != nil; n, par = par, p.Parent(par) {
			switch t := par.(type) {
			case *ast.ParenExpr:
			case *ast.CallExpr:
				if ast.Unparen(t.Fun) == n {
					if _, isGo := p.Parent(t).(*ast.GoStmt); isGo {
						return true
					}
					return false
				}
				// conversion keeps the chain going; a plain argument ends it
				if tv, ok := f.Info().Types[t.Fun]; ok && tv.IsType() {
					continue
				}
				if se, ok := ast.Unparen(t.Fun).(*ast.SelectorExpr); ok && se.X == n {
					continue
				}
				return false
			case *ast.SelectorExpr:
				if t.X != n {
					return false
				}
				if launchers[t.Sel.Name] {
					if fn, ok := f.Info().Uses[t.Sel].(*types.Func); ok && fn.Pkg() != nil && fn.Pkg().Path() == modulePath {
						return true
					}
				}
			default:
				return false
			}
		}
		return false
	}
	for changed := true; changed; {
		changed = false
		for _, f := range p.Funcs {
			if f.Decl == nil || f.Obj == nil {
				continue
			}
			info := f.Info()
			mark := func(obj types.Object) {
				idx, ok := paramIndex(f, obj)
				if !ok {
					return
				}
				o := f.Obj.Origin()
				if ea.async[o] == nil {
					ea.async[o] = map[int]bool{}
				}
				if !ea.async[o][idx] {
					ea.async[o][idx] = true
					changed = true
				}
			}
			ast.Inspect(f.Body, func(x ast.Node) bool {
				switch t := x.(type) {
				case *ast.FuncLit:
					if litLaunched(f, t) {
						ast.Inspect(t.Body, func(y ast.Node) bool {
							if id, ok := y.(*ast.Ident); ok {
								if obj := info.Uses[id]; obj != nil {
									mark(obj)
								}
							}
							return true
						})
					}
				case *ast.CallExpr:
					fn := calleeFunc(info, t)
					if fn == nil || ea.async[fn] == nil {
						return true
					}
					pass := func(a ast.Expr, idx int) {
						if !ea.async[fn][idx] {
							return
						}
						if ap, ok := pathOf(info, a); ok {
							mark(ap.Root)
						}
					}
					if rx := recvExpr(t); rx != nil {
						pass(rx, -1)
					}
					for i, a := range t.Args {
						pass(a, i)
					}
				}
				return true
			})
		}
	}
}

func ruleL3d(c *Ctx) { ruleL3dFor(c, nil, 20) }

// ruleL3dFor restricts the rule to the owner packages given (nil: all).
func ruleL3dFor(c *Ctx, only map[string]bool, floor int) {
	la := c.Locks()
	ea := &escapeAnalysis{c: c, la: la, async: map[*types.Func]map[int]bool{}, resTaint: map[*Func]*taint{}}
	ea.deriveAsync()
	R := c.R
	R.Rule("L3d", "a reference derived from a guarded field (its address, a method value bound to it, a pointer/func/iterator obtained from it) is never returned or stored in a returned value by the owner's methods, except as the receiver of .WithLock(<owner mutex>)", floor)
	R.Rule("L3b", "a guarded field is never handed to a callee that reads it on another goroutine (no WithLock wrapper can cover that goroutine)", 1)
	pkgs := map[string]bool{}
	for id := range la.guards {
		if only == nil || only[id.Pkg] {
			pkgs[id.Pkg] = true
		}
	}
	var funcs []*Func
	for _, f := range c.P.Funcs {
		if pkgs[shortPkg(f.Pkg.PkgPath)] {
			funcs = append(funcs, f)
		}
	}
	// returns of every function; unexported ones become summaries
	type ret struct {
		f  *Func
		rs *ast.ReturnStmt
		t  *taint
	}
	asyncSeen := 0
	for round := 0; round < 4; round++ {
		changed := false
		for _, f := range funcs {
			if f.Parent != nil || f.Exported() {
				continue
			}
			walkNoLit(f.Body, func(x ast.Node) bool {
				rs, ok := x.(*ast.ReturnStmt)
				if !ok {
					return true
				}
				for _, res := range rs.Results {
					if t := ea.taintOf(f, res, 0); t != nil && ea.resTaint[f] == nil {
						ea.resTaint[f] = t
						changed = true
					}
				}
				return true
			})
		}
		if !changed {
			break
		}
	}
	for _, f := range funcs {
		mentions := false
		walkNoLit(f.Body, func(x ast.Node) bool {
			if se, ok := x.(*ast.SelectorExpr); ok {
				if _, g := ea.guardedIn(f, se); g {
					mentions = true
				}
			}
			if call, ok := x.(*ast.CallExpr); ok {
				if g := c.P.FuncOf(calleeFunc(f.Info(), call)); g != nil && ea.resTaint[g] != nil {
					mentions = true
				}
			}
			return !mentions
		})
		if !mentions {
			continue
		}
		pos := c.P.Position(f.Pos())
		// L3b: async use anywhere in the body
		walkNoLit(f.Body, func(x ast.Node) bool {
			call, ok := x.(*ast.CallExpr)
			if !ok {
				return true
			}
			fn := calleeFunc(f.Info(), call)
			if fn == nil || ea.async[fn] == nil {
				return true
			}
			check := func(a ast.Expr, idx int) {
				if !ea.async[fn][idx] {
					return
				}
				if id, ok := ea.guardedIn(f, a); ok {
					asyncSeen++
					R.Fail("L3b", f.Name+"/"+fn.Name(), c.P.Position(call.Pos()),
						fmt.Sprintf("guarded %s is handed to %s, which reads it from a goroutine it starts: that goroutine runs without %s whatever the caller holds", id, fname(fn), f.Name+"'s lock"))
				}
			}
			if rx := recvExpr(call); rx != nil {
				check(rx, -1)
			}
			for i, a := range call.Args {
				check(a, i)
			}
			return true
		})
		if lr := la.res[f]; f.Parent != nil && lr != nil && (lr.kind == litSync || lr.kind == litDeferred) {
			continue // a literal run on the spot hands its result to the owner's own code
		}
		wrappedByDefer := ea.deferredWrap(f)
		var bad *taint
		nret := 0
		walkNoLit(f.Body, func(x ast.Node) bool {
			rs, ok := x.(*ast.ReturnStmt)
			if !ok {
				return true
			}
			nret++
			for _, res := range rs.Results {
				if t := ea.taintOf(f, res, 0); t != nil && bad == nil {
					if wrappedByDefer && !t.Async {
						continue
					}
					bad = t
				}
			}
			return true
		})
		switch {
		case bad != nil && (f.Exported() || f.Parent != nil):
			R.Fail("L3d", f.Name, pos, fmt.Sprintf("returns %s (at %s): the caller can use it without the mutex", bad.How, c.P.Position(bad.Pos)))
		case bad != nil:
			R.OK("L3d", f.Name, pos, "unexported: result is a derived reference, followed into its callers ("+bad.How+")")
		default:
			d := fmt.Sprintf("%d return statement(s), none yields a reference derived from guarded state", nret)
			if wrappedByDefer {
				d += " (result re-bound to result.WithLock(mutex) in a deferred assignment)"
			}
			R.OK("L3d", f.Name, pos, d)
		}
	}
	R.OK("L3b", "summary", "-", fmt.Sprintf("%d callee parameter positions are read on another goroutine; no guarded field reaches one", countAsync(ea.async)))
}

func countAsync(m map[*types.Func]map[int]bool) int {
	n := 0
	for _, mm := range m {
		n += len(mm)
	}
	return n
}

// deferredWrap: the function re-binds its named result to
// result.WithLock(<owner mutex>) in a deferred (synchronously invoked) literal.
func (ea *escapeAnalysis) deferredWrap(f *Func) bool {
	if f.Type().Results == nil {
		return false
	}
	info := f.Info()
	var results []types.Object
	for _, fld := range f.Type().Results.List {
		for _, nm := range fld.Names {
			results = append(results, info.Defs[nm])
		}
	}
	if len(results) == 0 {
		return false
	}
	found := false
	var visit func(g *Func)
	visit = func(g *Func) {
		for _, l := range g.Lits {
			lr := ea.la.res[l]
			if lr == nil || (lr.kind != litDeferred && !(lr.kind == litSync && g != f)) {
				continue
			}
			walkNoLit(l.Body, func(x ast.Node) bool {
				as, ok := x.(*ast.AssignStmt)
				if !ok || len(as.Lhs) != 1 || len(as.Rhs) != 1 {
					return true
				}
				lid, ok := as.Lhs[0].(*ast.Ident)
				if !ok {
					return true
				}
				isRes := false
				for _, r := range results {
					if info.Uses[lid] == r {
						isRes = true
					}
				}
				call, ok := ast.Unparen(as.Rhs[0]).(*ast.CallExpr)
				if !isRes || !ok || selName(call) != "WithLock" || len(call.Args) != 1 {
					return true
				}
				if rid, ok := ast.Unparen(recvExpr(call)).(*ast.Ident); ok && info.Uses[rid] == info.Uses[lid] && ea.isOwnerLock(l, call.Args[0]) {
					found = true
				}
				return true
			})
			visit(l)
		}
	}
	visit(f)
	return found
}
