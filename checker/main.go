package main

import (
	"flag"
	"fmt"
	"os"
	"sort"
	"strings"
	"time"

	_ "golang.org/x/tools/go/ast/astutil"
	_ "golang.org/x/tools/go/callgraph/cha"
	_ "golang.org/x/tools/go/callgraph/vta"
	_ "golang.org/x/tools/go/ssa"
	_ "golang.org/x/tools/go/ssa/ssautil"
)

// Ctx is what a property check works with.
type Ctx struct {
	P     *Prog
	R     *Report
	Tier  string
	locks *LockAnalysis
}

func (c *Ctx) Locks() *LockAnalysis {
	if c.locks == nil {
		c.locks = newLockAnalysis(c.P)
	}
	return c.locks
}

var propChecks = map[string]func(*Ctx){}

func main() {
	prop := flag.String("prop", "", "property id (C01..C20)")
	tier := flag.String("tier", "quick", "quick|thorough")
	repo := flag.String("repo", "/repo", "repository under analysis")
	verif := flag.String("verif", "/verif", "verification directory (evidence, known findings)")
	debug := flag.String("debug", "", "debug dump: locks")
	dump := flag.Bool("dump", false, "print every obligation")
	mutant := flag.String("mutant", "", "self-test child: apply the named overlay mutant and print the rules that fire")
	flag.Parse()
	start := time.Now()
	if t := os.Getenv("VERIF_TIER"); t != "" && *tier == "" {
		*tier = t
	}
	if strings.HasPrefix(*mutant, "seeded:") {
		os.Exit(runSeededChild(*prop, *repo, *verif, strings.TrimPrefix(*mutant, "seeded:")))
	}
	if *mutant != "" {
		os.Exit(runMutantChild(*prop, *repo, *mutant))
	}
	p, err := loadProg(*repo, nil)
	if err != nil {
		fmt.Println("ERROR", err)
		os.Exit(2)
	}
	if *debug != "" {
		debugDump(p, *debug)
		return
	}
	check, ok := propChecks[*prop]
	if !ok {
		fmt.Println("ERROR unknown property", *prop)
		os.Exit(2)
	}
	c := &Ctx{P: p, R: newReport(*prop, *tier), Tier: *tier}
	func() {
		defer func() {
			if r := recover(); r != nil {
				fmt.Println("ERROR checker panic:", r)
				panic(r)
			}
		}()
		check(c)
		if extra := extraRules[*prop]; extra != nil {
			extra(c)
		}
	}()
	c.R.Clauses = append(c.R.Clauses, extraClauses[*prop]...)
	if *tier == "thorough" {
		thoroughExtras(c, check, *prop, *repo, *verif)
	}
	if *dump {
		for _, ob := range c.R.obs {
			fmt.Printf("%-4s %-10s %s (%s) %s\n", ob.Rule, ob.Status, ob.At, ob.Pos, ob.Detail)
		}
	}
	cmd := "checker/funcheck " + strings.Join(os.Args[1:], " ")
	os.Exit(c.R.Finish(*verif, p, start, cmd))
}

func debugDump(p *Prog, what string) {
	switch what {
	case "locks":
		la := newLockAnalysis(p)
		fmt.Println("== acquire wrappers")
		for fn, s := range la.acquireW {
			fmt.Println("  ", fname(fn), s.Param, len(s.Path))
		}
		fmt.Println("== release wrappers")
		for fn, s := range la.releaseW {
			fmt.Println("  ", fname(fn), s.Param, len(s.Path))
		}
		fmt.Println("== sync params")
		var names []string
		for fn, m := range la.syncParam {
			for i, ok := range m {
				if ok {
					names = append(names, fmt.Sprintf("%s#%d", fname(fn), i))
				}
			}
		}
		sort.Strings(names)
		fmt.Println("  ", strings.Join(names, " "))
		fmt.Println("== lock-required functions")
		for _, f := range p.Funcs {
			r := la.res[f]
			if r != nil && len(r.reqs) > 0 {
				var why []string
				for _, q := range r.reqs {
					why = append(why, q.String()+" for "+q.Why+" @"+p.Position(q.WhyPos))
				}
				sort.Strings(why)
				fmt.Printf("  %s [kind=%d exported=%v]\n      %s\n", f.Name, r.kind, f.Exported(), strings.Join(why, "\n      "))
			}
		}
		fmt.Println("== escapes")
		for _, e := range la.escapes {
			fmt.Println("  ", e.F.Name, p.Position(e.Pos), e.What, e.Detail)
		}
		fmt.Println("== unknown idioms")
		for _, u := range la.unknown {
			fmt.Println("  ", u)
		}
		held, notheld, exempt := 0, 0, 0
		for _, a := range la.accesses {
			switch {
			case a.Exempt != "":
				exempt++
			case a.Held:
				held++
			default:
				notheld++
			}
		}
		fmt.Println("accesses held", held, "not-held", notheld, "exempt", exempt)
	}
}
