package main

// Frozen, hand-confirmed instance tables. Every line was confirmed by reading
// the code it names; exceptions carry one line of reason each and are never
// wider than one named construct.

// guardSpec: the field is guarded by the mutex field Lock of LockOwner.
// ByType: the guarded field lives in a node type that has no path to its
// owner (entry.link) or reaches it through a back pointer (element.next), so
// any held mutex of that field identity is accepted.
type guardSpec struct {
	LockOwner FieldID // Pkg, Type of the struct that owns the mutex
	Lock      string
	ByType    bool
	Reason    string
}

func own(pkg, typ string) FieldID { return FieldID{Pkg: pkg, Type: typ} }

var guardTable = map[FieldID]guardSpec{
	// pubsub.Queue — "mu protects the fields below" (queue.go)
	{"pubsub", "Queue", "tracker"}: {own("pubsub", "Queue"), "mu", false, "admission state; every tracker method call reads the field"},
	{"pubsub", "Queue", "closed"}:  {own("pubsub", "Queue"), "mu", false, "closed flag"},
	{"pubsub", "Queue", "front"}:   {own("pubsub", "Queue"), "mu", false, "sentinel pointer (reset in popFront)"},
	{"pubsub", "Queue", "back"}:    {own("pubsub", "Queue"), "mu", false, "newest entry"},
	{"pubsub", "entry", "link"}:    {own("pubsub", "Queue"), "mu", true, "list link; entries have no pointer to their queue"},
	// pubsub.Deque — all methods take dq.mtx
	{"pubsub", "Deque", "tracker"}: {own("pubsub", "Deque"), "mtx", false, "length/capacity accounting"},
	{"pubsub", "Deque", "closed"}:  {own("pubsub", "Deque"), "mtx", false, "closed flag"},
	{"pubsub", "element", "next"}:  {own("pubsub", "Deque"), "mtx", true, "list link, reached through element.list"},
	{"pubsub", "element", "prev"}:  {own("pubsub", "Deque"), "mtx", true, "list link, reached through element.list"},
	// fun.WaitGroup
	{"fun", "WaitGroup", "counter"}: {own("fun", "WaitGroup"), "mu", false, "outstanding work units"},
	{"fun", "WaitGroup", "cond"}:    {own("fun", "WaitGroup"), "mu", false, "lazily created under mu by init()"},
	// erc.Collector
	{"erc", "Collector", "stack"}: {own("erc", "Collector"), "mu", false, "the aggregated errors"},
	// adt.Synchronized
	{"adt", "Synchronized", "obj"}: {own("adt", "Synchronized"), "mtx", false, "the protected value"},
	// dt.Set (optional mutex held in an atomic; acquired through lock()/with())
	{"dt", "Set", "hash"}: {own("dt", "Set"), "mtx", false, "membership index"},
	{"dt", "Set", "list"}: {own("dt", "Set"), "mtx", false, "insertion order"},
}

// guardedLocals: closure-captured variables guarded by a captured mutex.
var guardedLocals = map[string]map[string]string{
	"fun.limitExec": {"output": "mtx"},
	"fun.ttlExec":   {"output": "mtx", "lastAt": "mtx"},
}

// lockExceptions: single accesses that are safe without the mutex.
var lockExceptions = map[string]string{
	"fun.limitExec/output/return-under-if:counter.CompareAndSwap(int64(in), int64(in))": "fast path after the limit is reached: the atomic CompareAndSwap(n,n) succeeds only after counter.Store(n), which follows the last write of output under the mutex (release/acquire through the atomic)",
}

// optionalLockOwners: types whose mutex may legitimately be absent (the set is
// then documented as not safe for concurrent use); lock()/with() no-op.
var optionalLockOwners = map[string]bool{"dt.Set": true}

// writeOnce: fields that are written only while the owner is under
// construction ("ctor") or only inside the owner's sync.Once body ("once"),
// and are therefore read without the mutex.
var writeOnce = map[FieldID]string{
	{"pubsub", "Broker", "close"}:     "ctor",
	{"pubsub", "Broker", "publishCh"}: "ctor",
	{"pubsub", "Broker", "subCh"}:     "ctor",
	{"pubsub", "Broker", "unsubCh"}:   "ctor",
	{"pubsub", "Broker", "stats"}:     "ctor",
	{"pubsub", "Broker", "opts"}:      "ctor",
	{"pubsub", "Deque", "root"}:       "ctor",
	{"pubsub", "Deque", "mtx"}:        "ctor",
	{"pubsub", "Deque", "nfront"}:     "ctor",
	{"pubsub", "Deque", "nback"}:      "ctor",
	{"pubsub", "Deque", "updates"}:    "ctor",
	{"pubsub", "Queue", "nempty"}:     "ctor",
	{"pubsub", "Queue", "nupdates"}:   "ctor",
	{"pubsub", "element", "list"}:     "ctor",
	{"pubsub", "element", "root"}:     "ctor",
	{"fun", "Iterator", "closer.op"}:  "ctor",
	{"adt", "Pool", "hook"}:           "once",
	{"adt", "Pool", "constructor"}:    "once",
	{"adt", "Pool", "pool"}:           "once",
	{"adt", "Pool", "typeIsPtr"}:      "once",
	{"adt", "Once", "comp"}:           "once",
}

// W3 exceptions (one construct each, keyed "<writer>/<cond>").
var w3NotRequired = map[string]string{
	"pubsub.(*Queue).popFront/nempty": "removing an item cannot make the predicate of nempty's waiters (queue non-empty) true",
}

// A notification under this guard is accepted for the keyed construct.
var w3GuardAllowed = map[string]string{
	"pubsub.(*Queue).doAdd/nempty": "q.tracker.len() == 1",
}

// Signal (instead of Broadcast) accepted for the keyed construct.
var w6SignalAllowed = map[string]string{
	"pubsub.(*Queue).doAdd/nempty": "empty→non-empty transition signal: one consumer is woken per transition, and every departing waiter re-broadcasts nempty through its context watcher (W2b), so later items reach the remaining consumers",
}

// B1 exceptions: documented context-less operations, keyed "<func>/<kind>:<chan>".
var b1Exceptions = map[string]string{
	"fun.ChanReceive.Ok/recv:ro.ch": "ChanReceive.Ok is documented as a context-less probe of the channel (blocking mode blocks like a plain receive); it is not used by any pipeline",
	"srv.Cmd$2/recv:started":        "Cmd's Shutdown waits for the `started` barrier, which Run closes on both of its paths before doing anything that can block",
}

// D1: self-referential types that are deliberately value-copied.
var d1Excluded = map[string]string{
	"ers.Stack": "persistent list: nodes are never modified once linked (Push allocates a new tail node), so a copy of the head is a consistent snapshot",
}

// D3: functions excluded from the link-balance rule.
var d3Excluded = map[string]string{
	"dt.(*Item).Detach": "splits one stack into two and recomputes both lengths explicitly (not a splice of one node)",
}

// D3: functions that legitimately touch `length` more than once.
var d3MultiAdjust = map[string]bool{
	"dt.(*Stack).lazyInit": true, // resets length and head together
	"dt.(*Item).Detach":    true,
}

// D2b: tabled detaches without the removable() guard.
var d2bExceptions = map[string]string{
	"dt.(*Element).Swap/detach(with)": "Swap has its own guard (both non-nil, same non-nil list, distinct); swapping with the root sentinel is documented behaviour",
	"dt.(*Element).Swap/detach(e)":    "as above",
}

// D5: functions whose link loads are safe by a documented precondition.
var d5Exceptions = map[string]string{
	"pubsub.(*Queue).popFront": "documented precondition 'q is not empty': both callers test tracker.len() / wait for non-empty under the same lock (checked by W-rules and L2)",
}

// P2: pipes that are deliberately never closed.
var p2NoClose = map[string]string{
	"fun.Transform.Pipe": "documented: the returned processor/producer pair is driven by the caller; the channel is never closed",
}

// O1: tabled discarded results in package srv.
var o1Exceptions = map[string]string{
	"srv.(*Service).Worker$1/Service.Start": "Service.Worker starts the service if it is not running yet and then waits for it; an ErrServiceAlreadyStarted/ErrServiceReturned answer is expected there and the outcome is taken from waitFor",
}

// D8: tabled assignments of an owner's node pointer.
var d8Exceptions = map[string]string{
	"dt.(*Stack).Pop/s.head=&Item[T]{}": "Pop on a never-initialised stack installs an empty sentinel so that callers get a non-nil, not-Ok item (pinned by the tests); the next Push re-initialises the stack",
}
