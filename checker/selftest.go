package main

import (
	"bytes"
	"fmt"
	"os"
	"os/exec"
	"path/filepath"
	"sort"
	"strings"
	"sync"
)

// runMutantChild: load the repository with one overlay mutant and run the
// property check; prints MUT-* lines for the parent. Never writes evidence.
func runMutantChild(prop, repo, name string) int {
	var m *selfMutant
	for i := range selfMutants {
		if selfMutants[i].Name == name {
			m = &selfMutants[i]
		}
	}
	if m == nil {
		fmt.Println("MUT-ERROR unknown mutant")
		return 2
	}
	file := filepath.Join(repo, m.File)
	src, err := os.ReadFile(file)
	if err != nil {
		fmt.Println("MUT-NA file missing")
		return 0
	}
	if bytes.Count(src, []byte(m.Old)) != 1 {
		fmt.Printf("MUT-NA anchor text occurs %d times\n", bytes.Count(src, []byte(m.Old)))
		return 0
	}
	mut := bytes.Replace(src, []byte(m.Old), []byte(m.New), 1)
	p, err := loadProg(repo, map[string][]byte{file: mut})
	if err != nil {
		fmt.Println("MUT-NOCOMPILE", strings.ReplaceAll(err.Error(), "\n", " "))
		return 0
	}
	check, ok := propChecks[prop]
	if !ok {
		fmt.Println("MUT-ERROR unknown property")
		return 2
	}
	c := &Ctx{P: p, R: newReport(prop, "selftest"), Tier: "selftest"}
	check(c)
	if extra := extraRules[prop]; extra != nil {
		extra(c)
	}
	// floors count too
	counts := map[string]int{}
	for _, ob := range c.R.obs {
		counts[ob.Rule]++
	}
	for _, rn := range c.R.order {
		if rs := c.R.rules[rn]; counts[rn] < rs.Floor {
			fmt.Printf("MUT-HIT FLOOR|%s\n", rn)
		}
	}
	for _, ob := range c.R.obs {
		if ob.st != Discharged {
			fmt.Printf("MUT-HIT %s|%s\n", ob.Rule, ob.At)
		}
	}
	fmt.Println("MUT-DONE")
	return 0
}

type mutantResult struct {
	Name    string   `json:"mutant"`
	Expect  string   `json:"expected_rule"`
	At      string   `json:"expected_construct"`
	Verdict string   `json:"verdict"` // killed | killed-by-other-rule | missed | n/a | no-compile
	Hits    []string `json:"fired,omitempty"`
}

// thoroughExtras: second build configuration and the overlay self-test.
func thoroughExtras(c *Ctx, check func(*Ctx), prop, repo, verifDir string) {
	// (a) second configuration: GOARCH=386 (covers build-tagged variants and 32-bit sizes)
	if p2, err := loadProg(repo, nil, "GOARCH=386"); err != nil {
		c.R.Undecided("CONFIG", "GOARCH=386", "-", "the repository does not load for GOARCH=386: "+err.Error())
	} else {
		c2 := &Ctx{P: p2, R: newReport(prop, "thorough-386"), Tier: "thorough"}
		check(c2)
		if extra := extraRules[prop]; extra != nil {
			extra(c2)
		}
		bad := 0
		for _, ob := range c2.R.obs {
			if ob.st != Discharged {
				// already reported by the primary configuration?
				if prev, ok := c.R.seen[ob.Rule+"|"+ob.At]; ok && prev.st == ob.st {
					continue
				}
				bad++
				c.R.add(ob.Rule, ob.At+"@GOARCH=386", ob.Pos, ob.st, ob.Detail, ob.Path)
			}
		}
		c.R.Extra["second_configuration"] = map[string]any{"GOARCH": "386", "obligations": len(c2.R.obs), "extra_violations": bad, "packages": len(p2.Pkgs)}
	}
	// (b) overlay self-test
	var todo []selfMutant
	for _, m := range selfMutants {
		for _, pp := range m.Props {
			if pp == prop {
				todo = append(todo, m)
			}
		}
	}
	// the independently written changes archived under seeded/ for this property
	for _, sc := range listSeeded(verifDir, prop) {
		todo = append(todo, selfMutant{Name: "seeded:" + sc.ID, Props: []string{prop}, Rule: "*", At: ""})
	}
	results := make([]mutantResult, len(todo))
	var wg sync.WaitGroup
	sem := make(chan struct{}, 8)
	for i, m := range todo {
		wg.Add(1)
		go func(i int, m selfMutant) {
			defer wg.Done()
			sem <- struct{}{}
			defer func() { <-sem }()
			cmd := exec.Command(os.Args[0], "-prop", prop, "-repo", repo, "-verif", verifDir, "-mutant", m.Name)
			out, _ := cmd.CombinedOutput()
			res := mutantResult{Name: m.Name, Expect: m.Rule, At: m.At}
			text := string(out)
			switch {
			case strings.Contains(text, "MUT-NA"):
				res.Verdict = "n/a"
			case strings.Contains(text, "MUT-NOCOMPILE"):
				res.Verdict = "no-compile"
			case !strings.Contains(text, "MUT-DONE"):
				res.Verdict = "error"
				res.Hits = []string{strings.TrimSpace(text)}
			case m.Rule == "none":
				// negative control: nothing new may be reported
				res.Verdict = "quiet"
				for _, line := range strings.Split(text, "\n") {
					if !strings.HasPrefix(line, "MUT-HIT ") {
						continue
					}
					hit := strings.TrimPrefix(line, "MUT-HIT ")
					parts := strings.SplitN(hit, "|", 2)
					if len(parts) == 2 {
						if prev, ok := c.R.seen[parts[0]+"|"+parts[1]]; ok && prev.st != Discharged {
							continue // reported on the unchanged tree as well (a known finding)
						}
					}
					res.Hits = append(res.Hits, hit)
					res.Verdict = "FALSE-ALARM"
				}
			default:
				res.Verdict = "missed"
				for _, line := range strings.Split(text, "\n") {
					if !strings.HasPrefix(line, "MUT-HIT ") {
						continue
					}
					hit := strings.TrimPrefix(line, "MUT-HIT ")
					res.Hits = append(res.Hits, hit)
					parts := strings.SplitN(hit, "|", 2)
					if len(parts) == 2 && (parts[0] == m.Rule || m.Rule == "*") && strings.Contains(parts[1], m.At) {
						// for the archived changes any report that the unchanged tree does not have counts
						if m.Rule == "*" {
							if prev, ok := c.R.seen[parts[0]+"|"+parts[1]]; ok && prev.st != Discharged {
								continue
							}
						}
						res.Verdict = "killed"
					} else if res.Verdict == "missed" {
						res.Verdict = "killed-by-other-rule"
					}
				}
				// hits that are known findings on the unchanged tree do not count
				if res.Verdict == "killed-by-other-rule" {
					real := false
					for _, h := range res.Hits {
						parts := strings.SplitN(h, "|", 2)
						if prev, ok := c.R.seen[parts[0]+"|"+parts[1]]; !ok || prev.st == Discharged {
							real = true
						}
					}
					if !real {
						res.Verdict = "missed"
					}
				}
			}
			results[i] = res
		}(i, m)
	}
	wg.Wait()
	sort.Slice(results, func(i, j int) bool { return results[i].Name < results[j].Name })
	killed, missed, na, documented, quiet, falseAlarms := 0, 0, 0, 0, 0, 0
	for _, r := range results {
		switch r.Verdict {
		case "killed", "killed-by-other-rule":
			killed++
		case "quiet":
			quiet++
		case "FALSE-ALARM":
			falseAlarms++
			fmt.Printf("SELFTEST-FALSE-ALARM property=%s benign rewrite %s is reported: %v\n", prop, r.Name, r.Hits)
		case "n/a", "no-compile":
			na++
		case "missed":
			if why, ok := seededExpectedMiss[strings.TrimPrefix(r.Name, "seeded:")]; ok {
				documented++
				results[idx(results, r.Name)].Verdict = "not-detectable (documented): " + why
				continue
			}
			fallthrough
		default:
			missed++
			fmt.Printf("SELFTEST-MISS property=%s mutant=%s expected %s at %s; fired: %v\n", prop, r.Name, r.Expect, r.At, r.Hits)
		}
	}
	c.R.Extra["self_test"] = map[string]any{"mutants": len(results), "killed": killed, "missed": missed, "not_applicable": na, "documented_undetectable": documented, "benign_rewrites_quiet": quiet, "benign_rewrites_reported": falseAlarms, "matrix": results,
		"note": "each mutant is a one-edit variant of the current sources applied in memory (packages overlay) and analysed in a child process; 'killed' = the named rule reported the named construct"}
	fmt.Printf("self-test: %d mutants (incl. the archived seeded changes), %d killed, %d missed, %d n/a, %d documented as not detectable; %d benign rewrites quiet, %d reported\n", len(results), killed, missed, na, documented, quiet, falseAlarms)
}

func idx(rs []mutantResult, name string) int {
	for i := range rs {
		if rs[i].Name == name {
			return i
		}
	}
	return 0
}
