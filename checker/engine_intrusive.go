package main

// E7 — intrusive linked structures: nodes are never copied, links change in
// balanced pairs together with the length, ownership follows a typestate.

import (
	"fmt"
	"go/ast"
	"go/token"
	"go/types"
	"sort"
	"strings"
)

// nodeTypes derives the struct types whose address is stored inside other
// objects of the same structure: T with a field *T, and the owner O of such a
// node (T has a field *O and O a field *T).
func nodeTypes(p *Prog) map[*types.TypeName]string {
	out := map[*types.TypeName]string{}
	var named []*types.TypeName
	for _, pk := range p.Pkgs {
		sc := pk.Types.Scope()
		for _, n := range sc.Names() {
			if tn, ok := sc.Lookup(n).(*types.TypeName); ok {
				if _, ok := tn.Type().Underlying().(*types.Struct); ok {
					named = append(named, tn)
				}
			}
		}
	}
	ptrTo := func(t types.Type) *types.TypeName {
		pt, ok := t.(*types.Pointer)
		if !ok {
			return nil
		}
		if n := namedOf(pt.Elem()); n != nil {
			return n.Origin().Obj()
		}
		return nil
	}
	for _, tn := range named {
		st := tn.Type().Underlying().(*types.Struct)
		for i := 0; i < st.NumFields(); i++ {
			if ptrTo(st.Field(i).Type()) == tn {
				out[tn] = "self-referential node (field " + st.Field(i).Name() + ")"
			}
		}
	}
	for _, tn := range named {
		if _, ok := out[tn]; ok {
			continue
		}
		st := tn.Type().Underlying().(*types.Struct)
		for i := 0; i < st.NumFields(); i++ {
			n := ptrTo(st.Field(i).Type())
			if n == nil {
				continue
			}
			if _, isNode := out[n]; !isNode {
				continue
			}
			// node must point back to the owner
			nst := n.Type().Underlying().(*types.Struct)
			for j := 0; j < nst.NumFields(); j++ {
				if ptrTo(nst.Field(j).Type()) == tn {
					out[tn] = "owner of " + n.Name() + " nodes, which point back at it (field " + nst.Field(j).Name() + ")"
				}
			}
		}
	}
	return out
}

func tnKey(tn *types.TypeName) string { return shortPkg(tn.Pkg().Path()) + "." + tn.Name() }

// ruleD1: no by-value copy of a node or owner.
func ruleD1(c *Ctx, pkgs map[string]bool, floor int) { ruleD1In(c, pkgs, floor, "") }

// ruleD1In restricts the rule to functions declared in the given source file
// (base name), "" for all.
func ruleD1In(c *Ctx, pkgs map[string]bool, floor int, file string) {
	p := c.P
	R := c.R
	R.Rule("D1", "values of node/owner types (their addresses are stored in neighbours / back pointers) are never copied: no `x := *p`, `*p = *q`, value parameter, result or receiver, or range copy", floor)
	nodes := nodeTypes(p)
	var names []string
	isNode := func(t types.Type) (*types.TypeName, bool) {
		if _, isPtr := t.(*types.Pointer); isPtr {
			return nil, false
		}
		n := namedOf(t)
		if n == nil {
			return nil, false
		}
		tn := n.Origin().Obj()
		if _, ok := nodes[tn]; !ok {
			return nil, false
		}
		if why, ok := d1Excluded[tnKey(tn)]; ok {
			_ = why
			return nil, false
		}
		return tn, true
	}
	for tn, why := range nodes {
		k := tnKey(tn)
		if ex, ok := d1Excluded[k]; ok {
			R.Exception("D1", k+": "+ex)
			continue
		}
		names = append(names, k+" ("+why+")")
	}
	sort.Strings(names)
	R.Extra["node_types"] = names
	for _, f := range p.Funcs {
		if !pkgs[shortPkg(f.Pkg.PkgPath)] {
			continue
		}
		if file != "" && !strings.HasSuffix(p.Fset.Position(f.Pos()).Filename, "/"+file) {
			continue
		}
		info := f.Info()
		copies := 0
		// signature
		if f.Decl != nil {
			check := func(fl *ast.FieldList, what string) {
				if fl == nil {
					return
				}
				for _, fld := range fl.List {
					if tv, ok := info.Types[fld.Type]; ok {
						if tn, ok := isNode(tv.Type); ok {
							copies++
							R.Fail("D1", f.Name+"/"+what, p.Position(fld.Pos()), fmt.Sprintf("%s of %s takes %s by value: every call copies the node, and the copy's neighbours still point at the original", what, f.Name, tnKey(tn)))
						}
					}
				}
			}
			check(f.Decl.Recv, "receiver")
			check(f.Decl.Type.Params, "parameter")
			check(f.Decl.Type.Results, "result")
		}
		walkNoLit(f.Body, func(x ast.Node) bool {
			switch t := x.(type) {
			case *ast.StarExpr:
				tv, ok := info.Types[t]
				if !ok || !tv.IsValue() {
					return true
				}
				tn, ok := isNode(tv.Type)
				if !ok {
					return true
				}
				switch par := p.Parent(t).(type) {
				case *ast.SelectorExpr:
					if par.X == ast.Expr(t) {
						return true // (*p).f
					}
				case *ast.UnaryExpr:
					if par.Op == token.AND {
						return true
					}
				case *ast.ParenExpr:
					if se, ok := p.Parent(par).(*ast.SelectorExpr); ok && se.X == ast.Expr(par) {
						return true
					}
				}
				copies++
				R.Fail("D1", fmt.Sprintf("%s/copy(%s)", f.Name, exprStr(t)), p.Position(t.Pos()),
					fmt.Sprintf("%s copies a %s by value: the copy has its own next/prev/owner fields while the neighbours (and the elements' back pointers) still refer to the original object, so later splices through the copy corrupt the structure", exprStr(t), tnKey(tn)))
			case *ast.RangeStmt:
				if t.Value != nil {
					if tv, ok := info.Types[t.Value]; ok {
						if tn, ok := isNode(tv.Type); ok {
							copies++
							R.Fail("D1", fmt.Sprintf("%s/range(%s)", f.Name, exprStr(t.X)), p.Position(t.Pos()), "range copies "+tnKey(tn)+" values")
						}
					}
				}
			}
			return true
		})
		if copies == 0 && mentionsNode(f, info, isNode) {
			R.OK("D1", f.Name, p.Position(f.Pos()), "handles nodes only through pointers")
		}
	}
}

func mentionsNode(f *Func, info *types.Info, isNode func(types.Type) (*types.TypeName, bool)) bool {
	found := false
	walkNoLit(f.Body, func(x ast.Node) bool {
		if e, ok := x.(ast.Expr); ok {
			if tv, ok := info.Types[e]; ok && tv.Type != nil {
				if pt, ok := tv.Type.(*types.Pointer); ok {
					if _, ok := isNode(pt.Elem()); ok {
						found = true
					}
				}
			}
		}
		return !found
	})
	return found
}

// linkFields: for a node type, its self-pointer fields.
func linkFieldsOf(p *Prog) map[*types.Var]*types.TypeName {
	out := map[*types.Var]*types.TypeName{}
	for tn := range nodeTypes(p) {
		st := tn.Type().Underlying().(*types.Struct)
		for i := 0; i < st.NumFields(); i++ {
			if pt, ok := st.Field(i).Type().(*types.Pointer); ok {
				if n := namedOf(pt.Elem()); n != nil && n.Origin().Obj() == tn {
					out[st.Field(i)] = tn
				}
			}
		}
	}
	return out
}

type linkStore struct {
	Node  *ast.AssignStmt
	Field *types.Var
	Fresh bool
}

// ruleD3: balanced link stores + length/tracker adjustment in one function.
func ruleD3(c *Ctx, pkgs map[string]bool, floor int) {
	p := c.P
	R := c.R
	la := c.Locks()
	R.Rule("D3", "a function that stores a link of an attached node keeps the structure consistent in the same function: for doubly linked nodes the number of forward-link stores equals the number of backward-link stores, and the owner's length (length field / tracker.add|remove) is adjusted exactly when nodes are attached or detached", floor)
	links := linkFieldsOf(p)
	for _, f := range p.Funcs {
		if !pkgs[shortPkg(f.Pkg.PkgPath)] || f.Parent != nil {
			continue
		}
		if _, ok := d3Excluded[f.Name]; ok {
			continue
		}
		info := f.Info()
		perField := map[*types.Var]int{}
		var tn *types.TypeName
		nonFresh := 0
		walkNoLit(f.Body, func(x ast.Node) bool {
			as, ok := x.(*ast.AssignStmt)
			if !ok {
				return true
			}
			for _, l := range as.Lhs {
				se, ok := ast.Unparen(l).(*ast.SelectorExpr)
				if !ok {
					continue
				}
				s := info.Selections[se]
				if s == nil || s.Kind() != types.FieldVal {
					continue
				}
				fv := s.Obj().(*types.Var).Origin()
				t, isLink := links[fv]
				if !isLink {
					continue
				}
				if _, ex := d1Excluded[tnKey(t)]; ex {
					continue
				}
				tn = t
				perField[fv]++
				if ap, ok := pathOf(info, se.X); !ok || !la.freshPath(f, ap) {
					nonFresh++
				}
			}
			return true
		})
		if tn == nil {
			continue
		}
		// length adjustments
		adjust := 0
		walkNoLit(f.Body, func(x ast.Node) bool {
			switch t := x.(type) {
			case *ast.IncDecStmt:
				if se, ok := ast.Unparen(t.X).(*ast.SelectorExpr); ok && se.Sel.Name == "length" {
					adjust++
				}
			case *ast.AssignStmt:
				for _, l := range t.Lhs {
					if se, ok := ast.Unparen(l).(*ast.SelectorExpr); ok && se.Sel.Name == "length" {
						adjust++
					}
				}
			case *ast.CallExpr:
				if se, ok := ast.Unparen(t.Fun).(*ast.SelectorExpr); ok && (se.Sel.Name == "add" || se.Sel.Name == "remove") {
					if rse, ok := ast.Unparen(se.X).(*ast.SelectorExpr); ok && rse.Sel.Name == "tracker" {
						adjust++
					}
				}
			}
			return true
		})
		// the node type's link fields
		var fields []*types.Var
		for fv, t := range links {
			if t == tn {
				fields = append(fields, fv)
			}
		}
		sort.Slice(fields, func(i, j int) bool { return fields[i].Name() < fields[j].Name() })
		pos := p.Position(f.Pos())
		var counts []string
		for _, fv := range fields {
			counts = append(counts, fmt.Sprintf("%s×%d", fv.Name(), perField[fv]))
		}
		desc := strings.Join(counts, " ")
		if len(fields) == 2 && perField[fields[0]] != perField[fields[1]] {
			R.Fail("D3", f.Name, pos, fmt.Sprintf("%s stores %s of %s: forward and backward links are not updated in pairs, so one direction of traversal sees a different sequence than the other", f.Name, desc, tnKey(tn)))
			continue
		}
		if nonFresh > 0 && adjust == 0 {
			R.Fail("D3", f.Name, pos, fmt.Sprintf("%s relinks attached %s nodes (%s) but never adjusts the owner's length/tracker: Len() no longer equals the number of linked elements", f.Name, tnKey(tn), desc))
			continue
		}
		if nonFresh > 0 && adjust > 1 && !d3MultiAdjust[f.Name] {
			R.Fail("D3", f.Name, pos, fmt.Sprintf("%s adjusts the length %d times around one splice (%s)", f.Name, adjust, desc))
			continue
		}
		R.OK("D3", f.Name, pos, fmt.Sprintf("stores %s, %d length adjustment(s)", desc, adjust))
	}
}

// ruleD3dom (pubsub): link stores happen only after the closed test and the
// successful tracker.add, so a rejected push has no effect.
func ruleD3dom(c *Ctx, floor int) {
	p := c.P
	R := c.R
	R.Rule("D3b", "in Queue/Deque every link store of a push is dominated by the closed test and by the successful tracker.add (error path returns first): a push that fails has no effect; every unlink is accompanied by tracker.remove", floor)
	links := linkFieldsOf(p)
	for _, f := range p.FuncsIn("pubsub") {
		if f.Parent != nil {
			continue
		}
		info := f.Info()
		var stores []ast.Node
		walkNoLit(f.Body, func(x ast.Node) bool {
			as, ok := x.(*ast.AssignStmt)
			if !ok {
				return true
			}
			for _, l := range as.Lhs {
				if se, ok := ast.Unparen(l).(*ast.SelectorExpr); ok {
					if s := info.Selections[se]; s != nil && s.Kind() == types.FieldVal {
						if _, isLink := links[s.Obj().(*types.Var).Origin()]; isLink {
							if ap, ok := pathOf(info, se.X); ok && c.Locks().freshPath(f, ap) && len(ap.Fields) == 0 {
								// stores into the new node itself are harmless
								continue
							}
							stores = append(stores, as)
						}
					}
				}
			}
			return true
		})
		if len(stores) == 0 {
			continue
		}
		if f.Decl != nil && strings.HasPrefix(f.Decl.Name.Name, "make") {
			continue
		}
		fl := newFlow(f)
		var closedIf, addIf *ast.IfStmt
		var addCall, removeCall *ast.CallExpr
		walkNoLit(f.Body, func(x ast.Node) bool {
			switch t := x.(type) {
			case *ast.IfStmt:
				if containsReturn(t.Body) && strings.Contains(exprStr(t.Cond), ".closed") {
					closedIf = t
				}
				if t.Init != nil {
					if as, ok := t.Init.(*ast.AssignStmt); ok && len(as.Rhs) == 1 {
						if call, ok := as.Rhs[0].(*ast.CallExpr); ok && selName(call) == "add" && containsReturn(t.Body) {
							addIf, addCall = t, call
						}
					}
				}
			case *ast.CallExpr:
				if selName(t) == "remove" {
					if rse, ok := ast.Unparen(recvExpr(t)).(*ast.SelectorExpr); ok && rse.Sel.Name == "tracker" {
						removeCall = t
					}
				}
			}
			return true
		})
		pos := p.Position(f.Pos())
		at := f.Name
		isPush := addCall != nil
		switch {
		case isPush:
			ok := closedIf != nil
			bad := ""
			for _, s := range stores {
				if closedIf == nil || !fl.Dominates(closedIf.Cond, s) {
					ok, bad = false, "the closed test does not dominate the link store at "+p.Position(s.Pos())
				}
				if !fl.Dominates(addIf.Cond, s) || p.inside(s, addIf.Body) {
					ok, bad = false, "tracker.add's error check does not dominate the link store at "+p.Position(s.Pos())
				}
			}
			R.Check(ok, "D3b", at, pos, fmt.Sprintf("%d link store(s) after the closed test and the successful tracker.add", len(stores)), f.Name+": "+bad+": a push that is rejected (closed / full) would still modify the list")
		case removeCall != nil:
			R.OK("D3b", at, pos, fmt.Sprintf("%d unlink store(s) with tracker.remove", len(stores)))
		default:
			R.Fail("D3b", at, pos, f.Name+" changes list links without tracker.add or tracker.remove: Len() and the capacity accounting no longer match the list")
		}
	}
}

// ruleD2: ownership typestate of dt.Element / dt.Item: an element is attached
// (uncheckedAppend) only when it is known to be detached.
func ruleD2(c *Ctx, floor int) {
	p := c.P
	R := c.R
	R.Rule("D2", "the argument of an attaching primitive (uncheckedAppend) is detached at every call: established by a dominating guard whose body requires arg.list == nil, by a preceding detaching call on the same variable, or by construction", floor)
	R.Rule("D2b", "every call of a detaching primitive (uncheckedRemove) is dominated by the membership/not-root guard (removable), or is tabled", floor)
	attach := p.FuncNamed("dt.(*Element).uncheckedAppend")
	detach := p.FuncNamed("dt.(*Element).uncheckedRemove")
	if attach == nil || detach == nil {
		R.Fail("D2", "anchors", "-", "dt.(*Element).uncheckedAppend / uncheckedRemove not found: the list primitives were renamed or removed")
		return
	}
	// detach must clear the ownership pointer
	clears := false
	walkNoLit(detach.Body, func(x ast.Node) bool {
		if as, ok := x.(*ast.AssignStmt); ok && len(as.Lhs) == 1 && len(as.Rhs) == 1 {
			if se, ok := as.Lhs[0].(*ast.SelectorExpr); ok && se.Sel.Name == "list" && isNilIdent(detach.Info(), as.Rhs[0]) {
				clears = true
			}
		}
		return true
	})
	R.Check(clears, "D2", "dt.(*Element).uncheckedRemove/clears-owner", p.Position(detach.Pos()), "sets e.list = nil", "uncheckedRemove does not reset e.list: a removed element still claims membership and can never be re-attached / is accepted by In()")
	// attach must set the ownership pointer
	sets := false
	walkNoLit(attach.Body, func(x ast.Node) bool {
		if as, ok := x.(*ast.AssignStmt); ok && len(as.Lhs) == 1 {
			if se, ok := as.Lhs[0].(*ast.SelectorExpr); ok && se.Sel.Name == "list" && !isNilIdent(attach.Info(), as.Rhs[0]) {
				sets = true
			}
		}
		return true
	})
	R.Check(sets, "D2", "dt.(*Element).uncheckedAppend/sets-owner", p.Position(attach.Pos()), "sets new.list", "uncheckedAppend does not set new.list: the attached element does not report In(list) and pop() rejects it")

	la := c.Locks()
	for _, cs := range callSitesOf(la, attach) {
		f := cs.f
		info := f.Info()
		arg := cs.call.Args[0]
		at := fmt.Sprintf("%s/attach(%s)", f.Name, exprStr(arg))
		pos := p.Position(cs.call.Pos())
		fl := newFlow(f)
		why := ""
		// (a) dominating guard: if !X.g(arg) { return } with g requiring arg.list == nil
		walkNoLit(f.Body, func(x ast.Node) bool {
			ifs, ok := x.(*ast.IfStmt)
			if !ok || !containsReturn(ifs.Body) || !fl.Dominates(ifs.Cond, cs.call) || p.inside(cs.call, ifs.Body) {
				return true
			}
			ue, ok := ast.Unparen(ifs.Cond).(*ast.UnaryExpr)
			if !ok || ue.Op != token.NOT {
				return true
			}
			gc, ok := ast.Unparen(ue.X).(*ast.CallExpr)
			if !ok || len(gc.Args) != 1 || exprStr(gc.Args[0]) != exprStr(arg) {
				return true
			}
			g := p.FuncOf(calleeFunc(info, gc))
			if g != nil && requiresDetached(g) {
				why = "guard " + g.Name + " requires " + exprStr(arg) + ".list == nil"
			}
			return true
		})
		// (b) preceding detach on the same variable
		if why == "" {
			walkNoLit(f.Body, func(x ast.Node) bool {
				dc, ok := x.(*ast.CallExpr)
				if !ok || p.FuncOf(calleeFunc(info, dc)) != detach {
					return true
				}
				if exprStr(recvExpr(dc)) == exprStr(arg) && fl.Dominates(dc, cs.call) && dc.End() <= cs.call.Pos() {
					why = "detached by the preceding " + exprStr(dc)
				}
				return true
			})
		}
		// (c) constructed here
		if why == "" {
			if id, ok := ast.Unparen(arg).(*ast.Ident); ok && la.isFresh(f, info.Uses[id], 0) {
				why = "freshly constructed element"
			} else if la.freshExpr(f, arg, 0) {
				why = "freshly constructed element"
			}
		}
		R.Check(why != "", "D2", at, pos, why, fmt.Sprintf("%s attaches %s without establishing that it is detached (list == nil): appending an element that is still linked in another (or the same) list splices two lists together and corrupts both lengths", f.Name, exprStr(arg)))
	}
	// D2b
	for _, cs := range callSitesOf(la, detach) {
		f := cs.f
		info := f.Info()
		recv := recvExpr(cs.call)
		at := fmt.Sprintf("%s/detach(%s)", f.Name, exprStr(recv))
		pos := p.Position(cs.call.Pos())
		if why, ok := d2bExceptions[at]; ok {
			R.Exception("D2b", at+": "+why)
			R.OK("D2b", at, pos, "tabled: "+why)
			continue
		}
		fl := newFlow(f)
		ok := false
		walkNoLit(f.Body, func(x ast.Node) bool {
			ifs, isIf := x.(*ast.IfStmt)
			if !isIf || !containsReturn(ifs.Body) || !fl.Dominates(ifs.Cond, cs.call) || p.inside(cs.call, ifs.Body) {
				return true
			}
			walkNoLit(ifs.Cond, func(y ast.Node) bool {
				gc, isCall := y.(*ast.CallExpr)
				if !isCall {
					return true
				}
				g := p.FuncOf(calleeFunc(info, gc))
				if g != nil && g.Decl != nil && g.Decl.Name.Name == "removable" && exprStr(recvExpr(gc)) == exprStr(recv) {
					ok = true
				}
				return true
			})
			return true
		})
		R.Check(ok, "D2b", at, pos, "dominated by !"+exprStr(recv)+".removable() → return", fmt.Sprintf("%s detaches %s without the removable() guard: removing the root sentinel or a detached element corrupts the ring / dereferences a nil list", f.Name, exprStr(recv)))
	}
	// Item.Append inline guard
	if ia := p.FuncNamed("dt.(*Item).Append"); ia != nil {
		ok := false
		walkNoLit(ia.Body, func(x ast.Node) bool {
			if ifs, isIf := x.(*ast.IfStmt); isIf && containsReturn(ifs.Body) && fieldNilCmp(ia.Info(), ifs.Cond, "stack", token.NEQ) {
				ok = true
			}
			return true
		})
		R.Check(ok, "D2", "dt.(*Item).Append/guard", p.Position(ia.Pos()), "rejects an item that already belongs to a stack (n.stack != nil)", "Item.Append no longer rejects an item that belongs to a stack: pushing it again links one item into two stacks")
	}
}

// requiresDetached: the boolean guard's result is a conjunction containing
// <param>.list == nil.
func requiresDetached(g *Func) bool {
	found := false
	walkNoLit(g.Body, func(x ast.Node) bool {
		rs, ok := x.(*ast.ReturnStmt)
		if !ok || len(rs.Results) != 1 {
			return true
		}
		var conj func(e ast.Expr)
		conj = func(e ast.Expr) {
			be, ok := ast.Unparen(e).(*ast.BinaryExpr)
			if !ok {
				return
			}
			if be.Op == token.LAND {
				conj(be.X)
				conj(be.Y)
				return
			}
			if be.Op == token.EQL {
				if se, ok := ast.Unparen(be.X).(*ast.SelectorExpr); ok && se.Sel.Name == "list" && isNilIdent(g.Info(), be.Y) {
					if id, ok := ast.Unparen(se.X).(*ast.Ident); ok {
						if _, isParam := paramIndex(g, g.Info().Uses[id]); isParam {
							if idx, _ := paramIndex(g, g.Info().Uses[id]); idx >= 0 {
								found = true
							}
						}
					}
				}
			}
		}
		conj(rs.Results[0])
		return true
	})
	return found
}

// ruleD5: a value loaded from a nil-terminated link is dereferenced only
// after a nil test of that load.
func ruleD5(c *Ctx, floor int) {
	p := c.P
	R := c.R
	R.Rule("D5", "a pointer loaded from entry.link (nil at the tail) is followed only after a dominating nil test of that same load, or under the tabled non-empty precondition", floor)
	var linkField *types.Var
	for fv, id := range p.fields {
		if id == (FieldID{"pubsub", "entry", "link"}) {
			linkField = fv
		}
	}
	if linkField == nil {
		R.Fail("D5", "anchor", "-", "pubsub.entry.link not found")
		return
	}
	for _, f := range p.FuncsIn("pubsub") {
		info := f.Info()
		isLinkLoad := func(e ast.Expr) bool {
			se, ok := ast.Unparen(e).(*ast.SelectorExpr)
			if !ok {
				return false
			}
			s := info.Selections[se]
			return s != nil && s.Kind() == types.FieldVal && s.Obj().(*types.Var).Origin() == linkField
		}
		fl := newFlow(f)
		nilTested := func(load ast.Expr, at ast.Node) bool {
			want := exprStr(load)
			ok := false
			walkNoLit(f.Body, func(x ast.Node) bool {
				be, isBin := x.(*ast.BinaryExpr)
				if !isBin || (be.Op != token.EQL && be.Op != token.NEQ) {
					return true
				}
				var other ast.Expr
				if exprStr(be.X) == want {
					other = be.Y
				} else if exprStr(be.Y) == want {
					other = be.X
				}
				if other == nil || !isNilIdent(info, other) {
					return true
				}
				// the test must dominate the use and actually establish non-nil there
				if !fl.Dominates(be, at) {
					return true
				}
				// the comparison's position inside its condition: it must be the whole
				// condition or a top-level operand of the right connective
				top, conn := topOperand(p, be)
				switch par := p.Parent(top).(type) {
				case *ast.IfStmt:
					inBody := p.inside(at, par.Body)
					if be.Op == token.EQL {
						// if a == nil [|| …] { leave }  … use after
						if inBody || conn == token.LAND || !blockLeaves(par.Body) {
							return true
						}
					} else {
						// if a != nil [&& …] { use }
						if !inBody || conn == token.LOR {
							return true
						}
					}
				case *ast.ForStmt:
					inBody := p.inside(at, par.Body)
					if be.Op == token.EQL {
						// for a == nil [|| …] { … }  use after the loop
						if inBody || conn == token.LAND {
							return true
						}
					} else if !inBody || conn == token.LOR {
						return true
					}
				default:
					return true
				}
				ok = true
				return true
			})
			return ok
		}
		n := 0
		walkNoLit(f.Body, func(x ast.Node) bool {
			var load ast.Expr
			var use ast.Node
			switch t := x.(type) {
			case *ast.SelectorExpr:
				if isLinkLoad(t.X) { // X.link.f
					load, use = t.X, t
				}
			case *ast.AssignStmt:
				if len(t.Rhs) == 1 && len(t.Lhs) == 1 && isLinkLoad(t.Rhs[0]) {
					if _, isIdent := t.Lhs[0].(*ast.Ident); isIdent {
						load, use = t.Rhs[0], t
					}
				}
			}
			if load == nil {
				return true
			}
			n++
			at := fmt.Sprintf("%s/follow(%s)#%d", f.Name, exprStr(load), n)
			pos := p.Position(use.Pos())
			if why, ok := d5Exceptions[f.Name]; ok {
				R.Exception("D5", f.Name+": "+why)
				R.OK("D5", at, pos, "tabled: "+why)
				return true
			}
			R.Check(nilTested(load, use), "D5", at, pos, "dominated by a nil test of "+exprStr(load),
				fmt.Sprintf("%s follows %s without a dominating nil test: at the tail of the queue (or after the queue drained and the cursor's entry was unlinked) the link is nil and the next dereference panics", f.Name, exprStr(load)))
			return true
		})
	}
}

// ruleD6: dt.Set keeps its index and its order list in bijection.
func ruleD6(c *Ctx, floor int) {
	p := c.P
	R := c.R
	R.Rule("D6", "a Set method that links a value into the order list stores that very element in the hash index in the same block; a method that deletes from the index unlinks the indexed element", floor)
	for _, f := range p.FuncsIn("dt") {
		if f.Decl == nil || f.Decl.Recv == nil || recvTypeName(f.Decl.Recv.List[0].Type) != "Set" {
			continue
		}
		info := f.Info()
		robj := recvObject(f)
		rootedAt := func(e ast.Expr, field string) bool {
			// s.<field>....
			for {
				switch t := ast.Unparen(e).(type) {
				case *ast.SelectorExpr:
					if id, ok := ast.Unparen(t.X).(*ast.Ident); ok && info.Uses[id] == robj && t.Sel.Name == field {
						return true
					}
					e = t.X
				case *ast.CallExpr:
					e = t.Fun
				case *ast.IndexExpr:
					e = t.X
				default:
					return false
				}
			}
		}
		var visit func(g *Func)
		visit = func(g *Func) {
			walkNoLit(g.Body, func(x ast.Node) bool {
				call, ok := x.(*ast.CallExpr)
				if !ok {
					return true
				}
				name := selName(call)
				if (name == "Append" || name == "PushBack" || name == "PushFront") && rootedAt(recvExpr(call), "list") {
					at := fmt.Sprintf("%s/insert(%s)", f.Name, exprStr(call.Fun))
					pos := p.Position(call.Pos())
					if name != "Append" || len(call.Args) != 1 {
						R.Fail("D6", at, pos, fmt.Sprintf("%s links a value into the order list with %s, which creates an element the hash index never learns about: Delete of that value later leaves it in the list (it is still iterated)", f.Name, name))
						return true
					}
					elem := exprStr(call.Args[0])
					// same block: a later store into s.hash with elem as value
					blk, _ := p.Parent(p.Parent(call)).(*ast.BlockStmt)
					ok := false
					if blk != nil {
						for _, st := range blk.List {
							if st.Pos() < call.Pos() {
								continue
							}
							walkNoLit(st, func(y ast.Node) bool {
								switch s := y.(type) {
								case *ast.CallExpr:
									if (selName(s) == "Add" || selName(s) == "Store") && rootedAt(recvExpr(s), "hash") && len(s.Args) == 2 && exprStr(s.Args[1]) == elem {
										ok = true
									}
								case *ast.AssignStmt:
									if len(s.Lhs) == 1 && len(s.Rhs) == 1 {
										if ix, isIx := s.Lhs[0].(*ast.IndexExpr); isIx && rootedAt(ix.X, "hash") && exprStr(s.Rhs[0]) == elem {
											ok = true
										}
									}
								}
								return true
							})
						}
					}
					R.Check(ok, "D6", at, pos, "element "+elem+" is stored in the index in the same block", fmt.Sprintf("%s links %s into the order list but does not store it in the hash index: the index entry for that value keeps a nil/stale element, so Delete cannot unlink it", f.Name, elem))
				}
				// deletes from the index
				isDel := (isBuiltinCall(info, call, "delete") && len(call.Args) == 2 && rootedAt(call.Args[0], "hash")) || (name == "Delete" && rootedAt(recvExpr(call), "hash"))
				if isDel {
					at := fmt.Sprintf("%s/delete", f.Name)
					pos := p.Position(call.Pos())
					// the function loads the indexed element and removes it
					var loaded types.Object
					var visit2 func(h *Func)
					removed := false
					visit2 = func(h *Func) {
						walkNoLit(h.Body, func(y ast.Node) bool {
							switch s := y.(type) {
							case *ast.AssignStmt:
								if len(s.Rhs) == 1 {
									if lc, ok := s.Rhs[0].(*ast.CallExpr); ok && (selName(lc) == "Load" || selName(lc) == "Get") && rootedAt(recvExpr(lc), "hash") {
										if id, ok := s.Lhs[0].(*ast.Ident); ok {
											loaded = info.Defs[id]
											if loaded == nil {
												loaded = info.Uses[id]
											}
										}
									}
								}
							case *ast.SelectorExpr:
								if (s.Sel.Name == "Remove" || s.Sel.Name == "Drop") && loaded != nil {
									if id, ok := ast.Unparen(s.X).(*ast.Ident); ok && info.Uses[id] == loaded {
										removed = true
									}
								}
							}
							return true
						})
						for _, l := range h.Lits {
							visit2(l)
						}
					}
					visit2(f)
					R.Check(removed, "D6", at, pos, "the indexed element is loaded and removed from the order list", f.Name+" deletes the value from the hash index but does not unlink its element from the order list: an ordered set keeps iterating the deleted value")
				}
				return true
			})
			for _, l := range g.Lits {
				visit(l)
			}
		}
		visit(f)
	}
}

// topOperand climbs from a comparison to the outermost boolean expression it
// is an operand of, and reports the connective (LAND/LOR) on the way, or
// ILLEGAL when the comparison is the whole condition. Mixed connectives and
// negations yield LAND for == and LOR for != (i.e. "establishes nothing").
func topOperand(p *Prog, be *ast.BinaryExpr) (ast.Expr, token.Token) {
	var cur ast.Expr = be
	conn := token.ILLEGAL
	for {
		switch par := p.Parent(cur).(type) {
		case *ast.ParenExpr:
			cur = par
			continue
		case *ast.BinaryExpr:
			if par.Op == token.LAND || par.Op == token.LOR {
				if conn != token.ILLEGAL && conn != par.Op {
					if be.Op == token.EQL {
						return par, token.LAND
					}
					return par, token.LOR
				}
				conn = par.Op
				cur = par
				continue
			}
		case *ast.UnaryExpr:
			if be.Op == token.EQL {
				return par, token.LAND
			}
			return par, token.LOR
		}
		return cur, conn
	}
}

// blockLeaves: the block ends by leaving the enclosing flow (return, break,
// continue, goto, panic).
func blockLeaves(b *ast.BlockStmt) bool {
	if len(b.List) == 0 {
		return false
	}
	switch t := b.List[len(b.List)-1].(type) {
	case *ast.ReturnStmt, *ast.BranchStmt:
		return true
	case *ast.ExprStmt:
		if call, ok := t.X.(*ast.CallExpr); ok {
			if id, ok := call.Fun.(*ast.Ident); ok && id.Name == "panic" {
				return true
			}
		}
	}
	return false
}

// ruleD8: the owner's pointer to its node chain (List.root, Stack.head,
// Deque.root) is re-pointed only to a node that points back at this owner:
// either a node created in the same function whose back pointer is set there,
// or a node already on this owner's own chain. Adopting another owner's chain
// leaves every element claiming membership of the other container.
func ruleD8(c *Ctx, pkgs map[string]bool, floor int) {
	p := c.P
	R := c.R
	la := c.Locks()
	R.Rule("D8", "an owner's node pointer (List.root, Stack.head, Deque.root) is assigned only a node whose back pointer names this owner: a node allocated in the same function with its back pointer set there, or a node reached from this owner's own chain — never another container's chain", floor)
	nodes := nodeTypes(p)
	// owner field -> back pointer field name
	type ownerField struct {
		back string
	}
	ofields := map[*types.Var]ownerField{}
	for tn := range nodes {
		st := tn.Type().Underlying().(*types.Struct)
		for i := 0; i < st.NumFields(); i++ {
			fv := st.Field(i)
			pt, ok := fv.Type().(*types.Pointer)
			if !ok {
				continue
			}
			n := namedOf(pt.Elem())
			if n == nil {
				continue
			}
			ntn := n.Origin().Obj()
			if _, isNode := nodes[ntn]; !isNode || ntn == tn {
				continue
			}
			// tn must be an owner (not itself a chain node) and ntn a chain node
			if !strings.HasPrefix(nodes[tn], "owner") || !strings.HasPrefix(nodes[ntn], "self-referential") {
				continue
			}
			// the node has a field pointing back to tn
			nst := ntn.Type().Underlying().(*types.Struct)
			for j := 0; j < nst.NumFields(); j++ {
				if bp, ok := nst.Field(j).Type().(*types.Pointer); ok {
					if bn := namedOf(bp.Elem()); bn != nil && bn.Origin().Obj() == tn {
						ofields[fv] = ownerField{back: nst.Field(j).Name()}
					}
				}
			}
		}
	}
	for _, f := range p.Funcs {
		if !pkgs[shortPkg(f.Pkg.PkgPath)] {
			continue
		}
		info := f.Info()
		walkNoLit(f.Body, func(x ast.Node) bool {
			as, ok := x.(*ast.AssignStmt)
			if !ok {
				return true
			}
			for i, l := range as.Lhs {
				se, ok := ast.Unparen(l).(*ast.SelectorExpr)
				if !ok {
					continue
				}
				s := info.Selections[se]
				if s == nil || s.Kind() != types.FieldVal {
					continue
				}
				of, ok := ofields[s.Obj().(*types.Var).Origin()]
				if !ok {
					continue
				}
				var rhs ast.Expr
				if len(as.Rhs) == len(as.Lhs) {
					rhs = as.Rhs[i]
				} else {
					continue
				}
				at := fmt.Sprintf("%s/%s=%s", f.Name, exprStr(se), trunc(exprStr(rhs), 40))
				pos := p.Position(as.Pos())
				if why, ok := d8Exceptions[at]; ok {
					R.Exception("D8", at+": "+why)
					R.OK("D8", at, pos, "tabled: "+why)
					continue
				}
				owner := exprStr(se.X)
				r := exprStr(rhs)
				switch {
				case strings.HasPrefix(r, owner+"."+se.Sel.Name) || r == owner:
					R.OK("D8", at, pos, "moves along the owner's own chain ("+r+")")
				case la.freshExpr(f, rhs, 0) || func() bool {
					id, ok := ast.Unparen(rhs).(*ast.Ident)
					return ok && la.isFresh(f, info.Uses[id], 0)
				}():
					// back pointer must be set in the same function (assignment or composite key)
					set := false
					ast.Inspect(f.Body, func(y ast.Node) bool {
						switch t := y.(type) {
						case *ast.AssignStmt:
							for _, ll := range t.Lhs {
								if bs, ok := ast.Unparen(ll).(*ast.SelectorExpr); ok && bs.Sel.Name == of.back {
									set = true
								}
							}
						case *ast.KeyValueExpr:
							if k, ok := t.Key.(*ast.Ident); ok && k.Name == of.back {
								set = true
							}
						}
						return true
					})
					R.Check(set, "D8", at, pos, "new node, back pointer ."+of.back+" set in the same function", fmt.Sprintf("%s installs a new %s node but never sets its .%s back pointer to the owner", f.Name, se.Sel.Name, of.back))
				default:
					// a node the function just linked with its back pointer set (n.stack = …; n.stack.head = n)
					if id, ok := ast.Unparen(rhs).(*ast.Ident); ok {
						set := false
						walkNoLit(f.Body, func(y ast.Node) bool {
							if t, ok := y.(*ast.AssignStmt); ok && t.Pos() < as.Pos() {
								for _, ll := range t.Lhs {
									if bs, ok := ast.Unparen(ll).(*ast.SelectorExpr); ok && bs.Sel.Name == of.back {
										if bid, ok := ast.Unparen(bs.X).(*ast.Ident); ok && info.Uses[bid] == info.Uses[id] {
											set = true
										}
									}
								}
							}
							return true
						})
						if set {
							R.OK("D8", at, pos, "node "+id.Name+" whose back pointer was just set")
							continue
						}
					}
					R.Fail("D8", at, pos, fmt.Sprintf("%s points %s at %s, a node that belongs to another container (or whose back pointer is not updated): the elements still report the old owner, so In(), pop and remove reject them or update the wrong length", f.Name, exprStr(se), r))
				}
			}
			return true
		})
	}
}
