package main

// X12b — foreign slices are never written.
//
// A slice handed out by somebody else's Unwind()/Unwrap() method is that
// error's own storage. The unwinding helpers may read it, copy from it and
// append its elements to their own slices; they may not append *onto* it,
// re-slice it into an append target, store into it or copy into it. The
// analysis is a small interprocedural may-alias over slice roots:
//
//   root(e)  = the parameters (by index) and/or the FOREIGN seed an expression
//              of slice type may share its backing array with
//   writes(f)= the parameters of f whose backing array f may write
//
// both computed to a fixpoint over the functions of the packages given.

import (
	"fmt"
	"go/ast"
	"go/token"
	"go/types"
	"sort"
)

const foreignRoot = -100

type aliasSummary struct {
	ret    map[int]map[int]bool // result index -> roots (param index or foreignRoot)
	writes map[int]string       // param index -> where it is written
}

type aliasAnalysis struct {
	p     *Prog
	funcs []*Func
	sum   map[*Func]*aliasSummary
	vars  map[*Func]map[types.Object]map[int]bool
	chg   bool
}

func isSliceType(t types.Type) bool {
	if t == nil {
		return false
	}
	_, ok := t.Underlying().(*types.Slice)
	return ok
}

func (a *aliasAnalysis) paramIdx(f *Func, o types.Object) (int, bool) {
	i := 0
	info := f.Info()
	for _, fld := range f.Type().Params.List {
		if len(fld.Names) == 0 {
			i++
			continue
		}
		for _, nm := range fld.Names {
			if info.Defs[nm] == o {
				return i, true
			}
			i++
		}
	}
	return 0, false
}

func union(dst map[int]bool, src map[int]bool) bool {
	ch := false
	for k := range src {
		if !dst[k] {
			dst[k] = true
			ch = true
		}
	}
	return ch
}

// rootsOfCall returns, per result index, the roots of a call's results.
func (a *aliasAnalysis) rootsOfCall(f *Func, call *ast.CallExpr) map[int]map[int]bool {
	info := f.Info()
	out := map[int]map[int]bool{}
	if isBuiltinCall(info, call, "append") && len(call.Args) > 0 {
		out[0] = a.rootsOf(f, call.Args[0])
		return out
	}
	if id, ok := ast.Unparen(call.Fun).(*ast.Ident); ok {
		if _, isB := info.Uses[id].(*types.Builtin); isB {
			return out // make, new, …: fresh
		}
	}
	// conversion: shares with its operand
	if tv, ok := info.Types[call.Fun]; ok && tv.IsType() && len(call.Args) == 1 {
		out[0] = a.rootsOf(f, call.Args[0])
		return out
	}
	fn := calleeFunc(info, call)
	if fn != nil {
		if g := a.p.FuncOf(fn); g != nil {
			if s := a.sum[g]; s != nil {
				args := a.argRoots(f, call)
				for j, rs := range s.ret {
					o := map[int]bool{}
					for r := range rs {
						if r == foreignRoot {
							o[foreignRoot] = true
						} else if ar, ok := args[r]; ok {
							union(o, ar)
						}
					}
					out[j] = o
				}
				return out
			}
		}
	}
	// a method named Unwind/Unwrap that is not one of the analysed functions (an interface method, a foreign
	// implementation): its slice result is the callee's own storage
	if sel, ok := ast.Unparen(call.Fun).(*ast.SelectorExpr); ok && (sel.Sel.Name == "Unwind" || sel.Sel.Name == "Unwrap") {
		if tv, ok := info.Types[call]; ok && isSliceType(tv.Type) {
			out[0] = map[int]bool{foreignRoot: true}
		}
	}
	return out
}

// argRoots maps parameter index -> roots of the argument bound to it (tuple
// spreading g(h()) included).
func (a *aliasAnalysis) argRoots(f *Func, call *ast.CallExpr) map[int]map[int]bool {
	info := f.Info()
	out := map[int]map[int]bool{}
	if len(call.Args) == 1 {
		if inner, ok := ast.Unparen(call.Args[0]).(*ast.CallExpr); ok {
			if tv, ok := info.Types[inner]; ok {
				if _, isTuple := tv.Type.(*types.Tuple); isTuple {
					return a.rootsOfCall(f, inner)
				}
			}
		}
	}
	for i, arg := range call.Args {
		out[i] = a.rootsOf(f, arg)
	}
	return out
}

func (a *aliasAnalysis) rootsOf(f *Func, e ast.Expr) map[int]bool {
	info := f.Info()
	e = ast.Unparen(e)
	switch t := e.(type) {
	case *ast.SliceExpr:
		return a.rootsOf(f, t.X)
	case *ast.Ident:
		o := info.Uses[t]
		if o == nil {
			o = info.Defs[t]
		}
		if o == nil || !isSliceType(o.Type()) {
			return nil
		}
		out := map[int]bool{}
		for g := f; g != nil; g = g.Parent {
			if i, ok := a.paramIdx(g, o); ok && g == f {
				out[i] = true
			}
			union(out, a.vars[g][o])
		}
		return out
	case *ast.CallExpr:
		return a.rootsOfCall(f, t)[0]
	}
	return nil
}

func (a *aliasAnalysis) bind(f *Func, lhs ast.Expr, roots map[int]bool) {
	id, ok := ast.Unparen(lhs).(*ast.Ident)
	if !ok || len(roots) == 0 {
		return
	}
	info := f.Info()
	o := info.Defs[id]
	if o == nil {
		o = info.Uses[id]
	}
	if o == nil || !isSliceType(o.Type()) {
		return
	}
	if a.vars[f][o] == nil {
		a.vars[f][o] = map[int]bool{}
	}
	if union(a.vars[f][o], roots) {
		a.chg = true
	}
}

func (a *aliasAnalysis) noteWrite(f *Func, roots map[int]bool, where string, report func(string)) {
	for r := range roots {
		if r == foreignRoot {
			if report != nil {
				report(where)
			}
			continue
		}
		if _, ok := a.sum[f].writes[r]; !ok {
			a.sum[f].writes[r] = where
			a.chg = true
		}
	}
}

// pass walks f once; with report != nil it emits the violations.
func (a *aliasAnalysis) pass(f *Func, report func(string)) {
	info := f.Info()
	p := a.p
	walkNoLit(f.Body, func(x ast.Node) bool {
		switch t := x.(type) {
		case *ast.AssignStmt:
			if len(t.Rhs) == 1 && len(t.Lhs) > 1 {
				if call, ok := ast.Unparen(t.Rhs[0]).(*ast.CallExpr); ok {
					rs := a.rootsOfCall(f, call)
					for j, l := range t.Lhs {
						a.bind(f, l, rs[j])
					}
				}
			} else {
				for i, l := range t.Lhs {
					if i < len(t.Rhs) {
						a.bind(f, l, a.rootsOf(f, t.Rhs[i]))
					}
				}
			}
			// element store
			if t.Tok == token.ASSIGN || t.Tok != token.DEFINE {
				for _, l := range t.Lhs {
					if ix, ok := ast.Unparen(l).(*ast.IndexExpr); ok {
						if tv, ok := info.Types[ix.X]; ok && isSliceType(tv.Type) {
							a.noteWrite(f, a.rootsOf(f, ix.X), fmt.Sprintf("%s = … at %s", exprStr(l), p.Position(l.Pos())), report)
						}
					}
				}
			}
		case *ast.ValueSpec:
			for i, nm := range t.Names {
				if i < len(t.Values) {
					a.bind(f, nm, a.rootsOf(f, t.Values[i]))
				}
			}
		case *ast.ReturnStmt:
			if len(t.Results) == 1 {
				if call, ok := ast.Unparen(t.Results[0]).(*ast.CallExpr); ok {
					if tv, ok := info.Types[call]; ok {
						if _, isTuple := tv.Type.(*types.Tuple); isTuple {
							for j, rs := range a.rootsOfCall(f, call) {
								if a.sum[f].ret[j] == nil {
									a.sum[f].ret[j] = map[int]bool{}
								}
								if union(a.sum[f].ret[j], rs) {
									a.chg = true
								}
							}
							return true
						}
					}
				}
			}
			for j, r := range t.Results {
				rs := a.rootsOf(f, r)
				if len(rs) == 0 {
					continue
				}
				if a.sum[f].ret[j] == nil {
					a.sum[f].ret[j] = map[int]bool{}
				}
				if union(a.sum[f].ret[j], rs) {
					a.chg = true
				}
			}
		case *ast.CallExpr:
			switch {
			case isBuiltinCall(info, t, "append") && len(t.Args) > 0:
				a.noteWrite(f, a.rootsOf(f, t.Args[0]), fmt.Sprintf("%s at %s", exprStr(t), p.Position(t.Pos())), report)
			case isBuiltinCall(info, t, "copy") && len(t.Args) == 2:
				a.noteWrite(f, a.rootsOf(f, t.Args[0]), fmt.Sprintf("%s at %s", exprStr(t), p.Position(t.Pos())), report)
			default:
				fn := calleeFunc(info, t)
				if fn == nil {
					return true
				}
				g := a.p.FuncOf(fn)
				if g == nil || a.sum[g] == nil {
					return true
				}
				args := a.argRoots(f, t)
				for i, where := range a.sum[g].writes {
					a.noteWrite(f, args[i], fmt.Sprintf("%s at %s, whose parameter %d is written by %s", exprStr(t.Fun), p.Position(t.Pos()), i, where), report)
				}
			}
		}
		return true
	})
	// named results that are assigned and returned bare
	if f.Type().Results != nil {
		j := 0
		for _, fld := range f.Type().Results.List {
			for _, nm := range fld.Names {
				if rs := a.vars[f][info.Defs[nm]]; len(rs) > 0 {
					if a.sum[f].ret[j] == nil {
						a.sum[f].ret[j] = map[int]bool{}
					}
					if union(a.sum[f].ret[j], rs) {
						a.chg = true
					}
				}
				j++
			}
			if len(fld.Names) == 0 {
				j++
			}
		}
	}
}

func ruleX12b(c *Ctx, pkgs ...string) {
	R := c.R
	p := c.P
	R.Rule("X12b", "no unwinding helper writes a slice it did not make: a slice obtained from an Unwind()/Unwrap() method outside the helper (the operand's own storage) is never appended onto, re-sliced into an append target, stored into or copied into, directly or through a callee", 1)
	a := &aliasAnalysis{p: p, sum: map[*Func]*aliasSummary{}, vars: map[*Func]map[types.Object]map[int]bool{}}
	for _, f := range p.FuncsIn(pkgs...) {
		a.funcs = append(a.funcs, f)
		a.sum[f] = &aliasSummary{ret: map[int]map[int]bool{}, writes: map[int]string{}}
		a.vars[f] = map[types.Object]map[int]bool{}
	}
	for iter := 0; iter < 20; iter++ {
		a.chg = false
		for _, f := range a.funcs {
			a.pass(f, nil)
		}
		if !a.chg {
			break
		}
	}
	if a.chg {
		R.Fail("X12b", "fixpoint", "-", "the alias summaries did not converge")
		return
	}
	for _, f := range a.funcs {
		// an instance: a function that obtains a foreign slice
		seeds := 0
		walkNoLit(f.Body, func(x ast.Node) bool {
			if call, ok := x.(*ast.CallExpr); ok {
				if sel, ok := ast.Unparen(call.Fun).(*ast.SelectorExpr); ok && (sel.Sel.Name == "Unwind" || sel.Sel.Name == "Unwrap") {
					if rs := a.rootsOfCall(f, call)[0]; rs[foreignRoot] {
						seeds++
					}
				}
			}
			return true
		})
		if seeds == 0 {
			continue
		}
		var bad []string
		a.pass(f, func(w string) { bad = append(bad, w) })
		sort.Strings(bad)
		at := f.Name + "/foreign-slices"
		if len(bad) > 0 {
			R.Fail("X12b", at, p.Position(f.Pos()), fmt.Sprintf("%s writes into a slice handed out by an operand's Unwind()/Unwrap(): %s — the operand is rewritten by being unwound (an error listed twice, or one gone, the next time it is looked at)", f.Name, bad[0]))
		} else {
			R.OK("X12b", at, p.Position(f.Pos()), fmt.Sprintf("%d foreign slice(s) obtained; none is a write target here or in a callee", seeds))
		}
	}
}
