package main

import (
	"fmt"
	"go/ast"
	"go/token"
	"go/types"
	"strings"
)

func init() { propChecks["C10"] = checkC10 }

// svcRole classifies calls inside srv.Service methods by role.
func svcRole(f *Func) func(call *ast.CallExpr) string {
	return func(call *ast.CallExpr) string {
		info := f.Info()
		fun := ast.Unparen(call.Fun)
		fieldOf := func(e ast.Expr) string {
			e = ast.Unparen(e)
			if c, ok := e.(*ast.CallExpr); ok && (selName(c) == "Get" || selName(c) == "Load") && len(c.Args) == 0 {
				e = ast.Unparen(recvExpr(c))
			}
			if se, ok := e.(*ast.SelectorExpr); ok {
				if s := info.Selections[se]; s != nil && s.Kind() == types.FieldVal {
					if id, ok := f.Prog.Field(s.Obj().(*types.Var)); ok && id.Pkg == "srv" && id.Type == "Service" {
						return id.Name
					}
				}
			}
			return ""
		}
		switch t := fun.(type) {
		case *ast.SelectorExpr:
			if fld := fieldOf(t); fld != "" {
				switch fld {
				case "Run", "Shutdown", "Cleanup":
					return "cb:" + fld
				case "cancel":
					return "cancel"
				}
			}
		case *ast.Ident:
			if v, ok := info.Uses[t].(*types.Var); ok {
				if rhs := singleDef(f, v); rhs != nil {
					switch fieldOf(rhs) {
					case "Run", "Shutdown", "Cleanup":
						return "cb:" + fieldOf(rhs)
					case "ErrorHandler":
						return "cb:ErrorHandler"
					case "cancel":
						return "cancel"
					}
				}
			}
		}
		switch callName(info, call) {
		case "erc.Recover":
			return "recover"
		case "fun.(*WaitGroup).Done":
			return "wg.Done"
		case "fun.(*WaitGroup).Add":
			return "wg.Add"
		case "fun.(*WaitGroup).Wait":
			return "wg.Wait"
		case "erc.(*Collector).Add":
			return "ec.Add"
		case "erc.(*Collector).Resolve":
			return "ec.Resolve"
		case "sync.(*Once).Do":
			return "once.Do"
		}
		return ""
	}
}

func checkC10(c *Ctx) {
	c.R.Clauses = append(c.R.Clauses,
		"S1: Run/Shutdown/Cleanup/ErrorHandler are invoked at exactly one site each, not in a loop, and every goroutine of the service starts inside the sync.Once body of Start",
		"S2: phase order in the three service goroutines (Run → cancel → wait for Shutdown → Cleanup → isFinished → isRunning=false → signal handler → Done; ctx.Done → Shutdown → signal; both signals → ErrorHandler guarded by a non-nil aggregate)",
		"S4: a deferred erc.Recover is on the stack of every user callback", "S5: no true-store to a lifecycle flag after the goroutine that clears it was launched",
		"S6: the plain field cancel is read only under an atomic flag that is set after the field was written", "S7: Wait returns the aggregate only after wg.Wait",
		"S8: Start returns nil only from the call that ran the once-body", "S9: every callback result flows into the collector", "G1: all four goroutines are counted in the service WaitGroup before they start",
		"L1/L4/W*: the fun.WaitGroup behind Service.Wait keeps its check-and-park in one critical section and never loses the zero broadcast or a cancel")
	c.R.NotCov = append(c.R.NotCov, "the 4^4 fault matrix as observable outcomes (errors.Is over the aggregate is a value property of erc)", "Start racing Wait returning ErrServiceNotStarted")
	// Service.Wait is fun.WaitGroup.Wait over the service goroutines: the wait group's own
	// protocol (counter under mu, check-and-park in one critical section, broadcast at zero,
	// cancel watcher under the lock) is part of "Wait blocks until … and then returns"
	wgOwner := map[string]bool{"fun.WaitGroup": true}
	lockRules(c, wgOwner, nil)
	ruleL4(c, wgOwner, 3)
	condRules(c, wgOwner, nil)
	R := c.R
	p := c.P
	start := p.FuncNamed("srv.(*Service).Start")
	if start == nil {
		R.Fail("S1", "anchor", "-", "srv.(*Service).Start not found")
		return
	}
	R.Rule("S1", "single shot: each lifecycle callback field of Service is invoked at exactly one site in the methods of *Service, outside any loop, inside the literal passed to doStart.Do; every go statement of Start is inside that literal", 6)
	R.Rule("S2b", "in the goroutine that runs Run every later phase (cancel, wait for Shutdown, Cleanup, isFinished, isRunning=false, both signals, wg.Done) is a deferred action: a panic in Run goes through the same phases in the same order", 1)
	R.Rule("S2", "phase order inside the service goroutines, read off the linearised event sequence (statements, then defers in LIFO order)", 3)
	R.Rule("S4", "every user callback runs with a deferred erc.Recover(ec) registered before it in the same goroutine", 4)
	R.Rule("S5", "no Store(true) on a lifecycle flag is executed after the go statement of the goroutine that stores false to it (the two stores would be unordered)", 1)
	R.Rule("S6", "a non-atomic Service field written in Start and read by another method is read under a guard on an atomic flag whose every true-store follows the write", 1)
	R.Rule("S7", "waitFor returns ec.Resolve() on the started path only after s.wg.Wait", 1)
	R.Rule("S8", "every `return nil` of Start is control-dependent on a local that is set only inside the once-body; all other returns yield a sentinel error", 1)
	R.Rule("S9", "the result of Run, Shutdown and Cleanup is passed to the collector's Add", 3)
	R.Rule("G1", "every goroutine that defers wg.Done() is preceded by wg.Add(1) on the same group in the launcher, before the go statement", 4)

	// --- locate the once literal
	var onceLit *Func
	info := start.Info()
	walkNoLit(start.Body, func(x ast.Node) bool {
		call, ok := x.(*ast.CallExpr)
		if ok && callName(info, call) == "sync.(*Once).Do" && len(call.Args) == 1 {
			if lit, ok := ast.Unparen(call.Args[0]).(*ast.FuncLit); ok {
				onceLit = p.byLit[lit]
			}
		}
		return true
	})
	if onceLit == nil {
		R.Fail("S1", "srv.(*Service).Start/once", p.Position(start.Pos()), "Start no longer runs its body through a sync.Once literal: a second Start can run the service again")
		return
	}
	// --- S1: callback invocation sites across all *Service methods
	sites := map[string][]ast.Node{}
	siteFunc := map[ast.Node]*Func{}
	gos := []ast.Node{}
	for _, f := range p.FuncsIn("srv") {
		root := f.Root()
		if root.Decl == nil || root.Decl.Recv == nil || recvTypeName(root.Decl.Recv.List[0].Type) != "Service" {
			continue
		}
		role := svcRole(f)
		walkNoLit(f.Body, func(x ast.Node) bool {
			switch t := x.(type) {
			case *ast.CallExpr:
				if r := role(t); strings.HasPrefix(r, "cb:") {
					sites[r] = append(sites[r], t)
					siteFunc[t] = f
				}
			case *ast.GoStmt:
				if root == start {
					gos = append(gos, t)
					siteFunc[t] = f
				}
			}
			return true
		})
	}
	for _, cb := range []string{"cb:Run", "cb:Shutdown", "cb:Cleanup", "cb:ErrorHandler"} {
		at := "srv.Service/" + cb
		ss := sites[cb]
		switch {
		case len(ss) == 0:
			R.Fail("S1", at, "-", cb[3:]+" is never invoked by the service")
		case len(ss) > 1:
			R.Fail("S1", at, p.Position(ss[1].Pos()), fmt.Sprintf("%s is invoked at %d sites (%s and %s): the phase can run more than once", cb[3:], len(ss), p.Position(ss[0].Pos()), p.Position(ss[1].Pos())))
		default:
			n := ss[0]
			f := siteFunc[n]
			switch {
			case !p.inside(n, onceLit.Lit):
				R.Fail("S1", at, p.Position(n.Pos()), cb[3:]+" is invoked outside the sync.Once body of Start")
			case f.enclosingLoop(n) != nil:
				R.Fail("S1", at, p.Position(n.Pos()), cb[3:]+" is invoked inside a loop")
			default:
				R.OK("S1", at, p.Position(n.Pos()), "one site, inside doStart.Do, not in a loop")
			}
		}
	}
	okGo := true
	for _, g := range gos {
		if !p.inside(g, onceLit.Lit) {
			okGo = false
			R.Fail("S1", "srv.(*Service).Start/go", p.Position(g.Pos()), "a goroutine of the service is started outside the sync.Once body: every Start call starts another one")
		}
	}
	if okGo {
		R.OK("S1", "srv.(*Service).Start/go", p.Position(start.Pos()), fmt.Sprintf("%d go statements, all inside doStart.Do", len(gos)))
	}
	// the once literal must be guarded by isFinished (ErrServiceReturned) before it
	// --- classify the goroutines by the callback they run
	var mainG, handlerG []*Func
	var shutdownG []*Func
	var collect func(f *Func)
	collect = func(f *Func) {
		for _, l := range f.Lits {
			if _, isGo := p.Parent(p.Parent(l.Lit)).(*ast.GoStmt); isGo {
				evs := linearise(l, svcRole(l))
				switch {
				case indexOf(evs, "cb:Run") >= 0:
					mainG = append(mainG, l)
				case indexOf(evs, "cb:ErrorHandler") >= 0:
					handlerG = append(handlerG, l)
				case indexOf(evs, "close:shutdownSignal") >= 0 || indexOf(evs, "cb:Shutdown") >= 0:
					shutdownG = append(shutdownG, l)
				}
			}
			collect(l)
		}
	}
	collect(onceLit)
	if len(mainG) != 1 || len(handlerG) != 1 || len(shutdownG) == 0 {
		R.Undecided("S2", "srv.(*Service).Start/goroutines", p.Position(start.Pos()), fmt.Sprintf("expected one run goroutine, one handler goroutine and the shutdown goroutine(s); found %d/%d/%d", len(mainG), len(handlerG), len(shutdownG)))
		return
	}
	// --- S2 main goroutine
	{
		g := mainG[0]
		evs := linearise(g, svcRole(g))
		// name of the channel the shutdown goroutine closes
		shutCh, mainCh, ehCh := "", "", ""
		sevs := linearise(shutdownG[0], svcRole(shutdownG[0]))
		for _, e := range sevs {
			if strings.HasPrefix(e.Key, "close:") {
				shutCh = strings.TrimPrefix(e.Key, "close:")
			}
		}
		hevs := linearise(handlerG[0], svcRole(handlerG[0]))
		var recvs []string
		for _, e := range hevs {
			if strings.HasPrefix(e.Key, "recv:") {
				recvs = append(recvs, strings.TrimPrefix(e.Key, "recv:"))
			}
		}
		for _, e := range evs {
			if strings.HasPrefix(e.Key, "close:") {
				ch := strings.TrimPrefix(e.Key, "close:")
				for _, r := range recvs {
					if r == ch {
						if mainCh == "" || indexOf(evs, "close:"+ch) > indexOf(evs, "close:"+mainCh) {
							if mainCh != "" && ehCh == "" {
								ehCh = mainCh
							}
							mainCh = ch
						} else if ehCh == "" {
							ehCh = ch
						}
					}
				}
			}
		}
		at := "srv.(*Service).Start/run-goroutine"
		pos := p.Position(g.Pos())
		want := []string{"cb:Run", "cancel", "recv:" + shutCh}
		hasCleanup := indexOf(evs, "cb:Cleanup") >= 0
		if hasCleanup {
			want = append(want, "cb:Cleanup")
		}
		want = append(want, "store:isFinished=true", "store:isRunning=false", "close:"+mainCh, "wg.Done")
		ok, why := checkOrder(evs, want...)
		if !hasCleanup {
			ok, why = false, "Cleanup is never invoked in the run goroutine"
		}
		if ok && ehCh != "" {
			// the handler's other barrier must be closed after the shutdown wait
			ok, why = checkOrder(evs, "recv:"+shutCh, "close:"+ehCh)
		}
		R.Check(ok, "S2", at, pos, "order: "+strings.Join(want, " < "), "phase order broken in the goroutine that runs Run: "+why+"; sequence is "+eventKeys(evs))
		// S2b: every phase after Run is a deferred action, so the panic path (Run panics, erc.Recover
		// picks it up) goes through the same phases as the normal path
		{
			var missing []string
			phases := append([]string{}, want[1:]...)
			if ehCh != "" {
				phases = append(phases, "close:"+ehCh)
			}
			for _, k := range phases {
				deferred := false
				for _, e := range evs {
					if e.Key == k && e.Defer {
						deferred = true
					}
				}
				if !deferred {
					missing = append(missing, k)
				}
			}
			R.Check(len(missing) == 0, "S2b", at+"/deferred-phases", pos, "cancel, the wait for Shutdown, Cleanup, the flags and the signals are all deferred",
				"not deferred in the run goroutine: "+strings.Join(missing, ", ")+" — when Run panics these phases are skipped (Cleanup overlaps a still-running Shutdown, Wait and the ErrorHandler miss Shutdown's error)")
		}
		// Run must not be conditional / in a loop; Cleanup guarded only by its nil test
		for _, e := range evs {
			if e.Key == "cb:Run" && (e.Loop || e.Cond) {
				R.Fail("S2", at+"/run-once", pos, "Run is invoked conditionally or in a loop inside its goroutine")
			}
		}
		// S4 for Run and Cleanup
		checkRecover(c, g, evs, "cb:Run", "srv.(*Service).Start/recover:Run")
		checkRecover(c, g, evs, "cb:Cleanup", "srv.(*Service).Start/recover:Cleanup")
		checkCounted(c, g, onceLit)
		checkCollected(c, g, "cb:Run")
		checkCollected(c, g, "cb:Cleanup")
	}
	// --- S2 shutdown goroutine(s)
	for i, g := range shutdownG {
		evs := linearise(g, svcRole(g))
		at := fmt.Sprintf("srv.(*Service).Start/shutdown-goroutine#%d", i+1)
		pos := p.Position(g.Pos())
		closeKey := ""
		for _, e := range evs {
			if strings.HasPrefix(e.Key, "close:") {
				closeKey = e.Key
			}
		}
		want := []string{"recv:ctx.Done"}
		if indexOf(evs, "cb:Shutdown") >= 0 {
			want = append(want, "cb:Shutdown")
		}
		want = append(want, closeKey, "wg.Done")
		ok, why := checkOrder(evs, want...)
		if closeKey == "" {
			ok, why = false, "the goroutine never closes its completion signal"
		}
		R.Check(ok, "S2", at, pos, "order: "+strings.Join(want, " < "), "phase order broken in the shutdown goroutine: "+why+"; sequence is "+eventKeys(evs))
		if indexOf(evs, "cb:Shutdown") >= 0 {
			checkRecover(c, g, evs, "cb:Shutdown", "srv.(*Service).Start/recover:Shutdown")
			checkCollected(c, g, "cb:Shutdown")
		}
		checkCounted(c, g, onceLit)
	}
	hasShutdownCall := false
	for _, g := range shutdownG {
		if indexOf(linearise(g, svcRole(g)), "cb:Shutdown") >= 0 {
			hasShutdownCall = true
		}
	}
	if !hasShutdownCall {
		R.Fail("S2", "srv.(*Service).Start/shutdown-goroutine", p.Position(start.Pos()), "no goroutine invokes Shutdown")
	}
	// --- S2 handler goroutine
	{
		g := handlerG[0]
		evs := linearise(g, svcRole(g))
		at := "srv.(*Service).Start/handler-goroutine"
		pos := p.Position(g.Pos())
		var recvs []string
		for _, e := range evs {
			if strings.HasPrefix(e.Key, "recv:") && !e.Cond {
				recvs = append(recvs, e.Key)
			}
		}
		ok := len(recvs) >= 2
		why := "the handler goroutine does not wait for both completion signals"
		if ok {
			want := append(append([]string{}, recvs...), "ec.Resolve", "cb:ErrorHandler", "wg.Done")
			ok, why = checkOrder(evs, want...)
		}
		// eh(err) guarded by err != nil
		guarded := false
		for _, e := range evs {
			if e.Key == "cb:ErrorHandler" {
				if call, isCall := e.Node.(*ast.CallExpr); isCall {
					for x := p.Parent(call); x != nil && x != ast.Node(g.Lit); x = p.Parent(x) {
						if ifs, isIf := x.(*ast.IfStmt); isIf && errNilCmp(g.Info(), ifs.Cond, token.NEQ) {
							guarded = true
						}
					}
				}
				if e.Loop {
					ok, why = false, "the error handler is invoked in a loop"
				}
			}
		}
		if ok && !guarded {
			ok, why = false, "the error handler is invoked without the `err != nil` guard on the resolved aggregate"
		}
		R.Check(ok, "S2", at, pos, "both signals < ec.Resolve < ErrorHandler(err != nil) < wg.Done", "handler goroutine: "+why+"; sequence is "+eventKeys(evs))
		checkRecover(c, g, evs, "cb:ErrorHandler", "srv.(*Service).Start/recover:ErrorHandler")
		checkCounted(c, g, onceLit)
	}
	// --- S5: flags
	{
		evs := linearise(onceLit, svcRole(onceLit))
		falseStores := map[string]*Func{}
		for _, g := range append(append(append([]*Func{}, mainG...), shutdownG...), handlerG...) {
			for _, e := range linearise(g, svcRole(g)) {
				if strings.HasPrefix(e.Key, "store:") && strings.HasSuffix(e.Key, "=false") {
					falseStores[strings.TrimSuffix(strings.TrimPrefix(e.Key, "store:"), "=false")] = g
				}
			}
		}
		n := 0
		for flag, g := range falseStores {
			n++
			goIdx := indexOf(evs, "go:"+g.Name)
			bad := ""
			for i, e := range evs {
				if e.Key == "store:"+flag+"=true" && i > goIdx && goIdx >= 0 {
					bad = fmt.Sprintf("Store(true) on %s at %s executes after the goroutine that stores false was started (%s)", flag, p.Position(e.Node.Pos()), map[bool]string{true: "deferred", false: "sequenced"}[e.Defer])
				}
			}
			// also stores in Start outside the once literal, after the Do
			R.Check(bad == "", "S5", "srv.(*Service).Start/flag:"+flag, p.Position(onceLit.Pos()), "every true-store precedes the launch of the goroutine that clears the flag",
				bad+": if Run finishes first the flag ends up true for ever (Running() stays true after Wait)")
		}
		if n == 0 {
			R.Fail("S5", "srv.(*Service).Start/flags", p.Position(onceLit.Pos()), "no goroutine of the service clears a lifecycle flag: Running() never becomes false")
		}
	}
	// --- S6: plain fields written in Start, read elsewhere
	{
		evs := linearise(onceLit, svcRole(onceLit))
		for _, f := range p.FuncsIn("srv") {
			root := f.Root()
			if root == start || root.Decl == nil || root.Decl.Recv == nil || recvTypeName(root.Decl.Recv.List[0].Type) != "Service" || f.Parent != nil {
				continue
			}
			finfo := f.Info()
			walkNoLit(f.Body, func(x ast.Node) bool {
				se, ok := x.(*ast.SelectorExpr)
				if !ok || se.Sel.Name != "cancel" {
					return true
				}
				s := finfo.Selections[se]
				if s == nil || s.Kind() != types.FieldVal {
					return true
				}
				if _, isCall := p.Parent(se).(*ast.CallExpr); isCall {
					// the call s.cancel(): find the guard
				}
				// enclosing if with a flag load
				var flag string
				for y := p.Parent(se); y != nil; y = p.Parent(y) {
					if ifs, isIf := y.(*ast.IfStmt); isIf {
						for _, e := range linearise2(f, ifs.Cond) {
							if strings.HasPrefix(e.Key, "load:") {
								flag = strings.TrimPrefix(e.Key, "load:")
							}
						}
						break
					}
				}
				at := f.Name + "/read:cancel"
				pos := p.Position(se.Pos())
				if flag == "" {
					R.Fail("S6", at, pos, "s.cancel (a plain field written by Start) is read without a guard on an atomic lifecycle flag: data race with a concurrent Start")
					return true
				}
				wi := indexOf(evs, "write:cancel")
				bad := ""
				for i, e := range evs {
					if e.Key == "store:"+flag+"=true" && i < wi {
						bad = fmt.Sprintf("the guard flag %s is set at %s, before s.cancel is written at %s", flag, p.Position(e.Node.Pos()), p.Position(evs[wi].Node.Pos()))
					}
				}
				// stores of the flag in Start outside the once body (e.g. Swap(true) before Do)
				for _, e := range linearise(start, svcRole(start)) {
					if e.Key == "store:"+flag+"=true" {
						bad = fmt.Sprintf("the guard flag %s is set at %s in Start before the once-body writes s.cancel", flag, p.Position(e.Node.Pos()))
					}
				}
				if wi < 0 {
					bad = "s.cancel is not written in the once-body"
				}
				R.Check(bad == "", "S6", at, pos, "guarded by "+flag+", whose true-store follows the write of s.cancel", bad+": a concurrent Close can read s.cancel while Start writes it (data race) or miss it")
				return false
			})
		}
	}
	// --- S7
	if wf := p.FuncNamed("srv.(*Service).waitFor"); wf != nil {
		fl := newFlow(wf)
		winfo := wf.Info()
		var waitCall ast.Node
		walkNoLit(wf.Body, func(x ast.Node) bool {
			if call, ok := x.(*ast.CallExpr); ok && callName(winfo, call) == "fun.(*WaitGroup).Wait" {
				waitCall = call
			}
			return true
		})
		ok := waitCall != nil
		why := "waitFor never waits on the service's WaitGroup"
		n := 0
		walkNoLit(wf.Body, func(x ast.Node) bool {
			rs, isRet := x.(*ast.ReturnStmt)
			if !isRet || len(rs.Results) != 1 {
				return true
			}
			call, isCall := rs.Results[0].(*ast.CallExpr)
			if !isCall || callName(winfo, call) != "erc.(*Collector).Resolve" {
				return true
			}
			n++
			if waitCall != nil && fl.Dominates(waitCall, rs) {
				return true
			}
			// the early return must be guarded by isFinished
			guard := false
			for y := p.Parent(rs); y != nil; y = p.Parent(y) {
				if ifs, isIf := y.(*ast.IfStmt); isIf && strings.Contains(exprStr(ifs.Cond), "isFinished") {
					guard = true
				}
			}
			if !guard {
				ok, why = false, "a return of ec.Resolve() at "+p.Position(rs.Pos())+" is neither after wg.Wait nor under the isFinished guard: Wait can return before Cleanup has"
			}
			return true
		})
		if n == 0 {
			ok, why = false, "waitFor does not return the collector's aggregate"
		}
		R.Check(ok, "S7", "srv.(*Service).waitFor", p.Position(wf.Pos()), "Resolve is returned after wg.Wait (or under isFinished)", why)
		// S7b: waitFor reaches wg.Wait only when a flag is set whose true-store follows every
		// wg.Add of the once-body (otherwise the group can still be empty and Wait returns at once)
		evs := linearise(onceLit, svcRole(onceLit))
		lastAdd := -1
		for i, e := range evs {
			if e.Key == "wg.Add" {
				lastAdd = i
			}
		}
		safe := map[string]bool{"isFinished": true} // set by the run goroutine after everything else
		for i, e := range evs {
			if strings.HasPrefix(e.Key, "store:") && strings.HasSuffix(e.Key, "=true") && i > lastAdd {
				safe[strings.TrimSuffix(strings.TrimPrefix(e.Key, "store:"), "=true")] = true
			}
		}
		for i, e := range evs {
			if strings.HasPrefix(e.Key, "store:") && strings.HasSuffix(e.Key, "=true") && i < lastAdd {
				delete(safe, strings.TrimSuffix(strings.TrimPrefix(e.Key, "store:"), "=true"))
			}
		}
		for _, e := range linearise(start, svcRole(start)) {
			if strings.HasPrefix(e.Key, "store:") && strings.HasSuffix(e.Key, "=true") {
				delete(safe, strings.TrimSuffix(strings.TrimPrefix(e.Key, "store:"), "=true"))
			}
		}
		// the guards in front of wg.Wait: every if-with-return that dominates it
		var guards []ast.Expr
		walkNoLit(wf.Body, func(x ast.Node) bool {
			if ifs, ok := x.(*ast.IfStmt); ok && waitCall != nil && blockAlwaysReturns(ifs.Body) && fl.Dominates(ifs.Cond, waitCall) && !p.inside(waitCall, ifs.Body) {
				guards = append(guards, ifs.Cond)
			}
			return true
		})
		flags := []string{"flag:isRunning", "flag:isFinished", "flag:isStarted"}
		bad := ""
		for mask := 0; mask < 8 && waitCall != nil; mask++ {
			as := map[string]bool{}
			for i, fl := range flags {
				as[fl] = mask&(1<<i) != 0
			}
			it := &interp{f: wf, atoms: as, errObjs: map[types.Object]bool{}, env: map[types.Object]any{}, used: map[string]bool{}}
			proceeds, understood := true, true
			for _, g := range guards {
				v, ok := it.evalBool(g)
				if !ok {
					understood = false
				}
				if v {
					proceeds = false
				}
			}
			if !understood {
				bad = "a guard in front of wg.Wait is not understood"
				break
			}
			if proceeds {
				okSafe := false
				for fl := range safe {
					if as["flag:"+fl] {
						okSafe = true
					}
				}
				if !okSafe {
					var on []string
					for _, fl := range flags {
						if as[fl] {
							on = append(on, strings.TrimPrefix(fl, "flag:"))
						}
					}
					bad = fmt.Sprintf("with flags {%s} set waitFor proceeds to wg.Wait although no flag is set whose store follows the last wg.Add of Start (such flags: %v)", strings.Join(on, ","), keys(safe))
				}
			}
		}
		R.Check(bad == "" && waitCall != nil, "S7", "srv.(*Service).waitFor/started-guard", p.Position(wf.Pos()), fmt.Sprintf("wg.Wait is reached only when one of %v is set (stored after the last wg.Add)", keys(safe)),
			bad+": a Wait that overlaps Start can find the group still empty, return at once and report a nil result while Run has not even begun")
	} else {
		R.Fail("S7", "srv.(*Service).waitFor", "-", "waitFor not found")
	}
	// --- S8
	{
		fl := newFlow(start)
		// locals assigned only inside the once literal
		onceLocals := map[types.Object]bool{}
		ast.Inspect(onceLit.Body, func(x ast.Node) bool {
			if as, ok := x.(*ast.AssignStmt); ok && as.Tok == token.ASSIGN {
				for _, l := range as.Lhs {
					if id, ok := l.(*ast.Ident); ok {
						if v, ok := info.Uses[id].(*types.Var); ok {
							if b, ok := v.Type().Underlying().(*types.Basic); ok && b.Kind() == types.Bool {
								onceLocals[v] = true
							}
						}
					}
				}
			}
			return true
		})
		// remove those also assigned outside
		walkNoLit(start.Body, func(x ast.Node) bool {
			if as, ok := x.(*ast.AssignStmt); ok && as.Tok == token.ASSIGN {
				for _, l := range as.Lhs {
					if id, ok := l.(*ast.Ident); ok {
						delete(onceLocals, info.Uses[id])
					}
				}
			}
			return true
		})
		nilReturns, bad := 0, ""
		walkNoLit(start.Body, func(x ast.Node) bool {
			rs, ok := x.(*ast.ReturnStmt)
			if !ok || len(rs.Results) != 1 {
				return true
			}
			if !isNilIdent(info, rs.Results[0]) {
				return true
			}
			nilReturns++
			// dominated by `if !v { ...return... }` with v a once-local
			guarded := false
			walkNoLit(start.Body, func(y ast.Node) bool {
				ifs, isIf := y.(*ast.IfStmt)
				if !isIf || !fl.Dominates(ifs.Cond, rs) || p.inside(rs, ifs.Body) {
					return true
				}
				ue, isNot := ast.Unparen(ifs.Cond).(*ast.UnaryExpr)
				if !isNot || ue.Op != token.NOT {
					return true
				}
				id, isId := ast.Unparen(ue.X).(*ast.Ident)
				if !isId || !onceLocals[info.Uses[id]] {
					return true
				}
				// every path through the body returns
				if blockAlwaysReturns(ifs.Body) {
					guarded = true
				}
				return true
			})
			// or inside `if v { return nil }`
			for y := p.Parent(rs); y != nil && !guarded; y = p.Parent(y) {
				if ifs, isIf := y.(*ast.IfStmt); isIf {
					if id, isId := ast.Unparen(ifs.Cond).(*ast.Ident); isId && onceLocals[info.Uses[id]] && p.inside(rs, ifs.Body) {
						guarded = true
					}
				}
			}
			if !guarded {
				bad = "`return nil` at " + p.Position(rs.Pos()) + " does not depend on having run the once-body"
			}
			return true
		})
		if nilReturns == 0 {
			bad = "Start never returns nil"
		}
		R.Check(bad == "", "S8", "srv.(*Service).Start/return-nil", p.Position(start.Pos()), fmt.Sprintf("%d `return nil`, each reached only by the call that ran the once-body", nilReturns),
			bad+": a Start call that did not start the service (it lost the race, or the service already finished) also reports success, and the flag it set stays set")
	}
}

// linearise2: events of a single expression.
func linearise2(f *Func, e ast.Expr) []event {
	l := &lineariser{f: f, roleOf: svcRole(f)}
	l.exprEvents(e, false, false, false)
	return l.events
}

func blockAlwaysReturns(b *ast.BlockStmt) bool {
	if len(b.List) == 0 {
		return false
	}
	switch t := b.List[len(b.List)-1].(type) {
	case *ast.ReturnStmt:
		return true
	case *ast.IfStmt:
		if t.Else == nil {
			return false
		}
		eb, ok := t.Else.(*ast.BlockStmt)
		return ok && blockAlwaysReturns(t.Body) && blockAlwaysReturns(eb)
	}
	return false
}

// checkRecover (S4): a deferred erc.Recover is registered before the callback
// runs. In the linearised sequence a deferred recover runs AFTER the callback;
// what matters is registration order, so the check is on the AST: a
// `defer erc.Recover(ec)` statement in the same function literal chain that
// textually precedes the callback's statement (or its defer) and is not nested
// in a different conditional.
func checkRecover(c *Ctx, g *Func, evs []event, cb string, at string) {
	R := c.R
	p := c.P
	i := indexOf(evs, cb)
	if i < 0 {
		return
	}
	call := evs[i].Node
	role := svcRole(g)
	// the statement that holds the callback at the top level of its function chain
	ok := false
	// walk up through enclosing deferred literals to the goroutine body
	var node ast.Node = call
	for {
		ef := p.EnclosingFunc(node)
		if ef == nil {
			break
		}
		// statements of ef's body (and enclosing blocks) before node
		walkNoLit(ef.Body, func(x ast.Node) bool {
			ds, isDefer := x.(*ast.DeferStmt)
			if !isDefer || ds.Pos() >= node.Pos() {
				return true
			}
			if role(ds.Call) == "recover" {
				// the defer must be registered on the path to the callback: same block or an enclosing one
				blk := p.Parent(ds)
				if p.inside(node, blk) {
					ok = true
				}
			}
			return true
		})
		if ok || ef == g || ef.Lit == nil {
			break
		}
		node = ef.Lit
	}
	R.Check(ok, "S4", at, p.Position(call.Pos()), "a deferred erc.Recover(ec) is registered before the callback", cb[3:]+" runs without a deferred erc.Recover on its goroutine's stack: a panic in it kills the process instead of being added to the collector, and later phases do not run")
}

// checkCounted (G1 for the service goroutines).
func checkCounted(c *Ctx, g *Func, launcher *Func) {
	R := c.R
	p := c.P
	role := svcRole(g)
	// defer wg.Done() at top level of g
	hasDone := false
	for _, st := range g.Body.List {
		if ds, ok := st.(*ast.DeferStmt); ok && role(ds.Call) == "wg.Done" {
			hasDone = true
		}
	}
	gs, _ := p.Parent(p.Parent(g.Lit)).(*ast.GoStmt)
	at := "G1/" + g.Name
	pos := p.Position(g.Pos())
	if gs == nil {
		return
	}
	// wg.Add(1) precedes the go statement in the same block
	hasAdd := false
	if blk, ok := p.Parent(gs).(*ast.BlockStmt); ok {
		for _, st := range blk.List {
			if st.Pos() >= gs.Pos() {
				break
			}
			if es, ok := st.(*ast.ExprStmt); ok {
				if call, ok := es.X.(*ast.CallExpr); ok && svcRole(launcher)(call) == "wg.Add" {
					hasAdd = true
				}
			}
			if _, isGo := st.(*ast.GoStmt); isGo {
				hasAdd = false // each Add accounts for the next goroutine only
			}
		}
	}
	switch {
	case !hasDone:
		R.Fail("G1", at, pos, "the goroutine does not `defer s.wg.Done()` at its top: Wait never (or too early) returns")
	case !hasAdd:
		R.Fail("G1", at, pos, "no s.wg.Add(1) precedes this go statement in the launcher: Wait can return before the goroutine has finished")
	default:
		R.OK("G1", at, pos, "wg.Add(1) before go; defer wg.Done() first in the goroutine")
	}
}

// checkCollected (S9): the callback's result is an argument of ec.Add.
func checkCollected(c *Ctx, g *Func, cb string) {
	R := c.R
	p := c.P
	var site *ast.CallExpr
	var sf *Func
	var visit func(f *Func)
	visit = func(f *Func) {
		role := svcRole(f)
		walkNoLit(f.Body, func(x ast.Node) bool {
			if call, ok := x.(*ast.CallExpr); ok && role(call) == cb {
				site, sf = call, f
			}
			return true
		})
		for _, l := range f.Lits {
			visit(l)
		}
	}
	visit(g)
	if site == nil {
		return
	}
	par, ok := p.Parent(site).(*ast.CallExpr)
	R.Check(ok && svcRole(sf)(par) == "ec.Add", "S9", "srv.(*Service).Start/collect:"+cb[3:], p.Position(site.Pos()), "result passed to ec.Add",
		"the error returned by "+cb[3:]+" is not added to the service's collector: Wait does not report it")
}
