package main

// E4 — ordering / typestate over straight-line code and defers.
//
// A function body is linearised into the sequence of *events* it performs in
// execution order: statements in order, then deferred calls in LIFO order
// (deferred literals are expanded in place). Events are named by resolved
// role (which field a callback came from, which channel variable, which atomic
// flag and constant), never by source text.

import (
	"fmt"
	"go/ast"
	"go/constant"
	"go/token"
	"go/types"
	"strings"
)

type event struct {
	Key   string
	Node  ast.Node
	Cond  bool // executed under an if
	Defer bool // ran as a deferred call
	Loop  bool
}

type lineariser struct {
	f        *Func
	la       *LockAnalysis                   // when set, literals/function values in synchronous argument positions are expanded in place
	argRole  func(e ast.Expr) string         // names a function value handed to a synchronous position ("" = ignore)
	roleOf   func(call *ast.CallExpr) string // extra call classification ("" = default)
	events   []event
	undecided []string
}

func (l *lineariser) info() *types.Info { return l.f.Info() }

// chanName: a channel operand named by its variable.
func chanName(info *types.Info, e ast.Expr) string {
	e = ast.Unparen(e)
	if call, ok := e.(*ast.CallExpr); ok && callName(info, call) == "context.Context.Done" {
		return "ctx.Done"
	}
	if id, ok := e.(*ast.Ident); ok {
		return id.Name
	}
	return exprStr(e)
}

// exprEvents appends the events of an expression/simple statement.
func (l *lineariser) exprEvents(n ast.Node, cond, deferred, loop bool) {
	info := l.info()
	add := func(key string, node ast.Node) {
		l.events = append(l.events, event{Key: key, Node: node, Cond: cond, Defer: deferred, Loop: loop})
	}
	var walk func(n ast.Node)
	walk = func(n ast.Node) {
		switch t := n.(type) {
		case nil:
			return
		case *ast.FuncLit:
			return
		case *ast.UnaryExpr:
			walk(t.X)
			if t.Op == token.ARROW {
				add("recv:"+chanName(info, t.X), t)
			}
			return
		case *ast.SendStmt:
			walk(t.Value)
			add("send:"+chanName(info, t.Chan), t)
			return
		case *ast.CallExpr:
			if se, ok := ast.Unparen(t.Fun).(*ast.SelectorExpr); ok {
				walk(se.X)
			}
			for i, a := range t.Args {
				if l.la != nil && l.la.isSyncPosition(info, t, i) {
					if lit, ok := ast.Unparen(a).(*ast.FuncLit); ok {
						sub := &lineariser{f: l.f.Prog.byLit[lit], la: l.la, argRole: l.argRole, roleOf: l.roleOf}
						sub.block(lit.Body.List, cond, deferred, loop)
						l.events = append(l.events, sub.events...)
						continue
					}
					if l.argRole != nil {
						if r := l.argRole(a); r != "" {
							add(r, a)
							continue
						}
					}
				}
				walk(a)
			}
			if isBuiltinCall(info, t, "close") && len(t.Args) == 1 {
				add("close:"+chanName(info, t.Args[0]), t)
				return
			}
			if l.roleOf != nil {
				if r := l.roleOf(t); r != "" {
					add(r, t)
					return
				}
			}
			name := callName(info, t)
			switch name {
			case "sync/atomic.(*Bool).Store", "sync/atomic.(*Bool).Swap":
				if len(t.Args) == 1 {
					if tv := info.Types[t.Args[0]]; tv.Value != nil && tv.Value.Kind() == constant.Bool {
						if ap, ok := pathOf(info, recvExpr(t)); ok && len(ap.Fields) > 0 {
							add(fmt.Sprintf("store:%s=%v", ap.Fields[len(ap.Fields)-1].Name(), constant.BoolVal(tv.Value)), t)
							return
						}
					}
				}
			case "sync/atomic.(*Bool).Load":
				if ap, ok := pathOf(info, recvExpr(t)); ok && len(ap.Fields) > 0 {
					add("load:"+ap.Fields[len(ap.Fields)-1].Name(), t)
					return
				}
			}
			if name != "" {
				add("call:"+name, t)
			} else {
				add("call:"+exprStr(t.Fun), t)
			}
			return
		case *ast.AssignStmt:
			for _, r := range t.Rhs {
				walk(r)
			}
			for _, lh := range t.Lhs {
				if se, ok := ast.Unparen(lh).(*ast.SelectorExpr); ok {
					if s := info.Selections[se]; s != nil && s.Kind() == types.FieldVal {
						add("write:"+s.Obj().Name(), t)
					}
				}
			}
			return
		case *ast.GoStmt:
			for _, a := range t.Call.Args {
				walk(a)
			}
			if lit, ok := ast.Unparen(t.Call.Fun).(*ast.FuncLit); ok {
				add("go:"+l.f.Prog.byLit[lit].Name, t)
			} else {
				add("go:"+exprStr(t.Call.Fun), t)
			}
			return
		}
		// generic descent
		ast.Inspect(n, func(x ast.Node) bool {
			if x == n || x == nil {
				return true
			}
			walk(x)
			return false
		})
	}
	walk(n)
}

type deferred struct {
	stmt *ast.DeferStmt
	cond bool
}

func (l *lineariser) block(list []ast.Stmt, cond, deferred_, loop bool) {
	var defers []deferred
	l.stmts(list, cond, deferred_, loop, &defers)
	for i := len(defers) - 1; i >= 0; i-- {
		d := defers[i]
		if lit, ok := ast.Unparen(d.stmt.Call.Fun).(*ast.FuncLit); ok {
			sub := &lineariser{f: l.f.Prog.byLit[lit], la: l.la, argRole: l.argRole, roleOf: l.roleOf}
			sub.block(lit.Body.List, d.cond || cond, true, loop)
			l.events = append(l.events, sub.events...)
			l.undecided = append(l.undecided, sub.undecided...)
			continue
		}
		l.exprEvents(d.stmt.Call, d.cond || cond, true, loop)
	}
}

func (l *lineariser) stmts(list []ast.Stmt, cond, deferred_, loop bool, defers *[]deferred) {
	for _, s := range list {
		switch t := s.(type) {
		case *ast.DeferStmt:
			// arguments are evaluated now
			for _, a := range t.Call.Args {
				l.exprEvents(a, cond, deferred_, loop)
			}
			*defers = append(*defers, deferred{t, cond})
		case *ast.IfStmt:
			if t.Init != nil {
				l.stmts([]ast.Stmt{t.Init}, cond, deferred_, loop, defers)
			}
			l.exprEvents(t.Cond, cond, deferred_, loop)
			l.stmts(t.Body.List, true, deferred_, loop, defers)
			if t.Else != nil {
				switch e := t.Else.(type) {
				case *ast.BlockStmt:
					l.stmts(e.List, true, deferred_, loop, defers)
				default:
					l.stmts([]ast.Stmt{e}, true, deferred_, loop, defers)
				}
			}
		case *ast.BlockStmt:
			l.stmts(t.List, cond, deferred_, loop, defers)
		case *ast.ForStmt:
			if t.Init != nil {
				l.stmts([]ast.Stmt{t.Init}, cond, deferred_, loop, defers)
			}
			if t.Cond != nil {
				l.exprEvents(t.Cond, cond, deferred_, true)
			}
			l.stmts(t.Body.List, true, deferred_, true, defers)
		case *ast.RangeStmt:
			l.exprEvents(t.X, cond, deferred_, loop)
			l.stmts(t.Body.List, true, deferred_, true, defers)
		case *ast.SelectStmt:
			for _, cl := range t.Body.List {
				cc := cl.(*ast.CommClause)
				if cc.Comm != nil {
					l.stmts([]ast.Stmt{cc.Comm}, true, deferred_, loop, defers)
				}
				l.stmts(cc.Body, true, deferred_, loop, defers)
			}
		case *ast.SwitchStmt:
			if t.Init != nil {
				l.stmts([]ast.Stmt{t.Init}, cond, deferred_, loop, defers)
			}
			if t.Tag != nil {
				l.exprEvents(t.Tag, cond, deferred_, loop)
			}
			for _, cl := range t.Body.List {
				cc := cl.(*ast.CaseClause)
				for _, e := range cc.List {
					l.exprEvents(e, true, deferred_, loop)
				}
				l.stmts(cc.Body, true, deferred_, loop, defers)
			}
		case *ast.LabeledStmt:
			l.stmts([]ast.Stmt{t.Stmt}, cond, deferred_, loop, defers)
		case *ast.ReturnStmt:
			for _, r := range t.Results {
				l.exprEvents(r, cond, deferred_, loop)
			}
		default:
			l.exprEvents(s, cond, deferred_, loop)
		}
	}
}

// lineariseSync is linearise with synchronous literal/function-value
// arguments expanded in place.
func lineariseSync(f *Func, la *LockAnalysis, roleOf func(*ast.CallExpr) string, argRole func(ast.Expr) string) []event {
	l := &lineariser{f: f, la: la, roleOf: roleOf, argRole: argRole}
	l.block(f.Body.List, false, false, false)
	return l.events
}

// linearise returns the events of f's body in execution order.
func linearise(f *Func, roleOf func(*ast.CallExpr) string) []event {
	l := &lineariser{f: f, roleOf: roleOf}
	l.block(f.Body.List, false, false, false)
	return l.events
}

func indexOf(evs []event, key string) int {
	for i, e := range evs {
		if e.Key == key {
			return i
		}
	}
	return -1
}

func countOf(evs []event, key string) int {
	n := 0
	for _, e := range evs {
		if e.Key == key {
			n++
		}
	}
	return n
}

func eventKeys(evs []event) string {
	var s []string
	for _, e := range evs {
		k := e.Key
		if e.Cond {
			k += "?"
		}
		s = append(s, k)
	}
	return strings.Join(s, " < ")
}

// checkOrder verifies that the first occurrences of the given keys exist and
// appear in this order.
func checkOrder(evs []event, keys ...string) (bool, string) {
	last := -1
	lastKey := ""
	for _, k := range keys {
		i := indexOf(evs, k)
		if i < 0 {
			return false, "event " + k + " is missing"
		}
		if i <= last {
			return false, fmt.Sprintf("%s happens before %s", k, lastKey)
		}
		last, lastKey = i, k
	}
	return true, ""
}
