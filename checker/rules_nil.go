package main

// N7 — a typed nil pointer that arrives through an interface is not dereferenced.
//
// `case nil:` of a type switch matches the untyped nil only; a nil *T stored
// in the interface lands in `case *T:`. In every such clause (T a struct of the
// module) each dereference of the bound variable — a field selection, *v, a
// value-receiver method, or a pointer-receiver method that is not itself
// nil-receiver safe — has to be behind a nil test of the variable. "Behind" is
// decided by a must-dataflow over the CFG (v != nil on the edge taken) plus the
// short-circuit forms inside one condition.

import (
	"fmt"
	"go/ast"
	"go/token"
	"go/types"

	"golang.org/x/tools/go/cfg"
)

type nilFlow struct {
	f    *Func
	v    types.Object
	in   map[*cfg.Block]int // 0 unreached, 1 known non-nil, 2 unknown
	fl   *flow
	info *types.Info
}

func (a *nilFlow) isV(e ast.Expr) bool {
	id, ok := ast.Unparen(e).(*ast.Ident)
	return ok && (a.info.Uses[id] == a.v || a.info.Defs[id] == a.v)
}

func (a *nilFlow) transfer(st int, n ast.Node) int {
	walkNoLit(n, func(x ast.Node) bool {
		switch t := x.(type) {
		case *ast.AssignStmt:
			for i, l := range t.Lhs {
				if a.isV(l) {
					st = 2
					if i < len(t.Rhs) && len(t.Lhs) == len(t.Rhs) {
						if u, ok := ast.Unparen(t.Rhs[i]).(*ast.UnaryExpr); ok && u.Op == token.AND {
							if _, isLit := ast.Unparen(u.X).(*ast.CompositeLit); isLit {
								st = 1
							}
						}
					}
				}
			}
		case *ast.UnaryExpr:
			if t.Op == token.AND && a.isV(t.X) {
				st = 2 // address taken: anybody may write it
			}
		}
		return true
	})
	return st
}

func (a *nilFlow) edge(st int, cond ast.Expr, truth bool) int {
	cond = ast.Unparen(cond)
	switch t := cond.(type) {
	case *ast.UnaryExpr:
		if t.Op == token.NOT {
			return a.edge(st, t.X, !truth)
		}
	case *ast.BinaryExpr:
		if (t.Op == token.LAND && truth) || (t.Op == token.LOR && !truth) {
			return a.edge(a.edge(st, t.X, truth), t.Y, truth)
		}
		if t.Op == token.EQL || t.Op == token.NEQ {
			isNil := func(e ast.Expr) bool {
				id, ok := ast.Unparen(e).(*ast.Ident)
				if !ok {
					return false
				}
				_, n := a.info.Uses[id].(*types.Nil)
				return n
			}
			if (a.isV(t.X) && isNil(t.Y)) || (a.isV(t.Y) && isNil(t.X)) {
				if truth == (t.Op == token.NEQ) {
					return 1
				}
			}
		}
	}
	return st
}

func newNilFlow(f *Func, v types.Object) *nilFlow {
	a := &nilFlow{f: f, v: v, in: map[*cfg.Block]int{}, fl: newFlow(f), info: f.Info()}
	g := f.CFG()
	if len(g.Blocks) == 0 {
		return a
	}
	a.in[g.Blocks[0]] = 2
	work := []*cfg.Block{g.Blocks[0]}
	for len(work) > 0 {
		b := work[0]
		work = work[1:]
		st := a.in[b]
		for _, n := range b.Nodes {
			st = a.transfer(st, n)
		}
		for i, s := range b.Succs {
			out := st
			if len(b.Succs) == 2 && len(b.Nodes) > 0 {
				if cond, ok := b.Nodes[len(b.Nodes)-1].(ast.Expr); ok {
					out = a.edge(st, cond, i == 0)
				}
			}
			nw := out
			if cur := a.in[s]; cur != 0 && cur != out {
				nw = 2
			}
			if nw != a.in[s] {
				a.in[s] = nw
				work = append(work, s)
			}
		}
	}
	return a
}

// guardedAt: v is known non-nil when n is evaluated.
func (a *nilFlow) guardedAt(n ast.Node) bool {
	bn, ok := a.fl.At(n)
	if !ok {
		return false
	}
	st := a.in[bn.B]
	if st == 0 {
		return true // unreachable
	}
	for i := 0; i < bn.I; i++ {
		st = a.transfer(st, bn.B.Nodes[i])
	}
	if st == 1 {
		return true
	}
	// inside one condition: v != nil && <n>,  v == nil || <n>
	p := a.f.Prog
	var child ast.Node = n
	for par := p.Parent(n); par != nil; child, par = par, p.Parent(par) {
		if be, ok := par.(*ast.BinaryExpr); ok && be.Y == child {
			if be.Op == token.LAND && a.edge(2, be.X, true) == 1 {
				return true
			}
			if be.Op == token.LOR && a.edge(2, be.X, false) == 1 {
				return true
			}
		}
		if _, isStmt := par.(ast.Stmt); isStmt {
			break
		}
	}
	return false
}

type nilSafety struct {
	p    *Prog
	memo map[*Func]int // 1 safe, 2 unsafe, 3 in progress
	why  map[*Func]string
}

// unguardedDeref returns a description of the first dereference of v in the
// body of f (literals excluded unless whole) that is not behind a nil test.
func (ns *nilSafety) unguardedDeref(f *Func, v types.Object, within ast.Node) string {
	info := f.Info()
	a := newNilFlow(f, v)
	p := ns.p
	bad := ""
	ast.Inspect(within, func(x ast.Node) bool {
		if bad != "" {
			return false
		}
		if lit, ok := x.(*ast.FuncLit); ok && ast.Node(lit) != within {
			// a closure over v: any dereference inside it counts as unguarded unless guarded where the literal is made
			ast.Inspect(lit.Body, func(y ast.Node) bool {
				if se, ok := y.(*ast.SelectorExpr); ok && a.isV(se.X) && bad == "" && !a.guardedAt(lit) {
					if ns.derefs(info, se) != "" {
						bad = fmt.Sprintf("%s inside a closure at %s", exprStr(se), p.Position(se.Pos()))
					}
				}
				return true
			})
			return false
		}
		switch t := x.(type) {
		case *ast.StarExpr:
			if a.isV(t.X) && !a.guardedAt(t) {
				bad = fmt.Sprintf("%s at %s", exprStr(t), p.Position(t.Pos()))
			}
		case *ast.SelectorExpr:
			if a.isV(t.X) {
				if why := ns.derefs(info, t); why != "" && !a.guardedAt(t) {
					bad = fmt.Sprintf("%s at %s (%s)", exprStr(t), p.Position(t.Pos()), why)
				}
			}
		}
		return true
	})
	return bad
}

// derefs: does evaluating the selector v.X dereference v? ("" = no)
func (ns *nilSafety) derefs(info *types.Info, se *ast.SelectorExpr) string {
	s := info.Selections[se]
	if s == nil {
		return ""
	}
	switch s.Kind() {
	case types.FieldVal:
		return "field read"
	case types.MethodVal:
		fn := s.Obj().(*types.Func)
		sig := fn.Type().(*types.Signature)
		if sig.Recv() != nil {
			if _, isPtr := sig.Recv().Type().(*types.Pointer); !isPtr {
				return "value-receiver method"
			}
		}
		if len(s.Index()) > 1 {
			return "method promoted through an embedded field"
		}
		g := ns.p.FuncOf(fn)
		if g == nil {
			return "method outside the module"
		}
		if why := ns.unsafeMethod(g); why != "" {
			return fn.Name() + " is not nil-receiver safe: " + why
		}
	}
	return ""
}

func (ns *nilSafety) unsafeMethod(g *Func) string {
	switch ns.memo[g] {
	case 1, 3:
		return ""
	case 2:
		return ns.why[g]
	}
	ns.memo[g] = 3
	recv := paramObj2(g, -1)
	why := ""
	if recv != nil {
		why = ns.unguardedDeref(g, recv, g.Body)
	}
	if why == "" {
		ns.memo[g] = 1
	} else {
		ns.memo[g] = 2
		ns.why[g] = why
	}
	return why
}

// paramObj2(-1) returns the receiver object of g.
func paramObj2(g *Func, idx int) types.Object {
	if idx >= 0 {
		return paramObj(g, idx)
	}
	if g.Decl == nil || g.Decl.Recv == nil {
		return nil
	}
	for _, fld := range g.Decl.Recv.List {
		for _, nm := range fld.Names {
			return g.Info().Defs[nm]
		}
	}
	return nil
}

func ruleN7(c *Ctx, pkgs ...string) {
	R := c.R
	p := c.P
	R.Rule("N7", "in a type switch over an error/any operand, a clause that binds a pointer to one of the module's structs dereferences the bound variable only behind a nil test of it (a nil *T inside an interface is not the untyped nil of `case nil`): field reads, *v, value-receiver methods and pointer-receiver methods that are not nil-receiver safe all count", 1)
	ns := &nilSafety{p: p, memo: map[*Func]int{}, why: map[*Func]string{}}
	for _, f := range p.FuncsIn(pkgs...) {
		info := f.Info()
		walkNoLit(f.Body, func(x ast.Node) bool {
			ts, ok := x.(*ast.TypeSwitchStmt)
			if !ok {
				return true
			}
			if _, binds := ts.Assign.(*ast.AssignStmt); !binds {
				return true
			}
			for _, cl := range ts.Body.List {
				cc := cl.(*ast.CaseClause)
				if len(cc.List) != 1 {
					continue
				}
				tv, ok := info.Types[cc.List[0]]
				if !ok {
					continue
				}
				pt, ok := tv.Type.(*types.Pointer)
				if !ok {
					continue
				}
				named, ok := pt.Elem().(*types.Named)
				if !ok || named.Obj().Pkg() == nil || !isModulePkg(named.Obj().Pkg().Path()) {
					continue
				}
				if _, isStruct := named.Underlying().(*types.Struct); !isStruct {
					continue
				}
				v := info.Implicits[cc]
				at := fmt.Sprintf("%s/case *%s", f.Name, named.Obj().Name())
				pos := p.Position(cc.Pos())
				if v == nil {
					R.OK("N7", at, pos, "the clause does not use the bound variable")
					continue
				}
				bad := ""
				for _, st := range cc.Body {
					if bad == "" {
						bad = ns.unguardedDeref(f, v, st)
					}
				}
				R.Check(bad == "", "N7", at, pos, "every dereference of the bound pointer is behind a nil test", fmt.Sprintf("a nil *%s stored in the interface reaches %s without a nil test: the operand that should be ignored like any other nil panics instead", named.Obj().Name(), bad))
			}
			return true
		})
	}
}

func isModulePkg(path string) bool {
	return path == modulePath || len(path) > len(modulePath) && path[:len(modulePath)+1] == modulePath+"/"
}
