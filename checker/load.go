package main

import (
	"fmt"
	"go/ast"
	"go/token"
	"go/types"
	"os"
	"path/filepath"
	"sort"
	"strings"

	"golang.org/x/tools/go/cfg"
	"golang.org/x/tools/go/packages"
)

const modulePath = "github.com/tychoish/fun"

// Prog is the type-checked program under analysis: every non-test package of
// the module at repoDir, loaded from the *current* sources on every run.
type Prog struct {
	Fset    *token.FileSet
	Pkgs    []*packages.Package
	ByPath  map[string]*packages.Package
	Funcs   []*Func
	byDecl  map[*ast.FuncDecl]*Func
	byLit   map[*ast.FuncLit]*Func
	byObj   map[*types.Func]*Func
	fields  map[*types.Var]FieldID
	parents map[ast.Node]ast.Node
	RepoDir string
	cfgs    int
	blocks  int
}

// FieldID names a struct field by its declaring named type.
type FieldID struct{ Pkg, Type, Name string }

func (f FieldID) String() string { return f.Pkg + "." + f.Type + "." + f.Name }

// Func is one analysable function body: a declaration or a function literal.
type Func struct {
	Prog   *Prog
	Pkg    *packages.Package
	Decl   *ast.FuncDecl
	Lit    *ast.FuncLit
	Parent *Func // enclosing function for literals
	Name   string
	Body   *ast.BlockStmt
	Obj    *types.Func
	Lits   []*Func // directly nested literals
	cfg    *cfg.CFG
	idx    int
}

func (f *Func) Info() *types.Info { return f.Pkg.TypesInfo }
func (f *Func) Pos() token.Pos {
	if f.Decl != nil {
		return f.Decl.Pos()
	}
	return f.Lit.Pos()
}
func (f *Func) Type() *ast.FuncType {
	if f.Decl != nil {
		return f.Decl.Type
	}
	return f.Lit.Type
}

// Root returns the enclosing declaration of a literal (or f itself).
func (f *Func) Root() *Func {
	for f.Parent != nil {
		f = f.Parent
	}
	return f
}

// Exported reports whether the root declaration is an exported function or an
// exported method of an exported type.
func (f *Func) Exported() bool {
	r := f.Root()
	if r.Decl == nil || !r.Decl.Name.IsExported() {
		return false
	}
	if r.Decl.Recv != nil && len(r.Decl.Recv.List) == 1 {
		if n := recvTypeName(r.Decl.Recv.List[0].Type); n != "" && !ast.IsExported(n) {
			return false
		}
	}
	return true
}

func recvTypeName(e ast.Expr) string {
	for {
		switch t := e.(type) {
		case *ast.StarExpr:
			e = t.X
		case *ast.ParenExpr:
			e = t.X
		case *ast.IndexExpr:
			e = t.X
		case *ast.IndexListExpr:
			e = t.X
		case *ast.Ident:
			return t.Name
		default:
			return ""
		}
	}
}

// CFG returns the control-flow graph of the body (cached).
func (f *Func) CFG() *cfg.CFG {
	if f.cfg == nil {
		info := f.Info()
		f.cfg = cfg.New(f.Body, func(call *ast.CallExpr) bool {
			if id, ok := ast.Unparen(call.Fun).(*ast.Ident); ok {
				if b, ok := info.Uses[id].(*types.Builtin); ok && b.Name() == "panic" {
					return false
				}
			}
			return true
		})
		f.Prog.cfgs++
		f.Prog.blocks += len(f.cfg.Blocks)
	}
	return f.cfg
}

func shortPkg(path string) string {
	if path == modulePath {
		return "fun"
	}
	return strings.TrimPrefix(path, modulePath+"/")
}

// loadProg loads all packages of the module. overlay (may be nil) maps
// absolute file names to replacement contents (used by the self-test mutants).
func loadProg(repoDir string, overlay map[string][]byte, extraEnv ...string) (*Prog, error) {
	fset := token.NewFileSet()
	env := append(os.Environ(), "GOFLAGS=-mod=mod", "GOPROXY=off", "GOSUMDB=off", "GOWORK=off", "GOTOOLCHAIN=local")
	env = append(env, extraEnv...)
	conf := &packages.Config{
		Mode: packages.NeedName | packages.NeedFiles | packages.NeedCompiledGoFiles | packages.NeedImports |
			packages.NeedDeps | packages.NeedTypes | packages.NeedSyntax | packages.NeedTypesInfo | packages.NeedTypesSizes,
		Dir:     repoDir,
		Fset:    fset,
		Env:     env,
		Tests:   false,
		Overlay: overlay,
	}
	pkgs, err := packages.Load(conf, "./...")
	if err != nil {
		return nil, fmt.Errorf("packages.Load: %w", err)
	}
	if len(pkgs) == 0 {
		return nil, fmt.Errorf("no packages loaded from %s", repoDir)
	}
	p := &Prog{Fset: fset, ByPath: map[string]*packages.Package{}, byDecl: map[*ast.FuncDecl]*Func{},
		byLit: map[*ast.FuncLit]*Func{}, byObj: map[*types.Func]*Func{}, fields: map[*types.Var]FieldID{},
		parents: map[ast.Node]ast.Node{}, RepoDir: repoDir}
	sort.Slice(pkgs, func(i, j int) bool { return pkgs[i].PkgPath < pkgs[j].PkgPath })
	var errs []string
	for _, pk := range pkgs {
		for _, e := range pk.Errors {
			errs = append(errs, e.Error())
		}
		if !strings.HasPrefix(pk.PkgPath, modulePath) {
			continue
		}
		p.Pkgs = append(p.Pkgs, pk)
		p.ByPath[pk.PkgPath] = pk
	}
	if len(errs) > 0 {
		return nil, fmt.Errorf("type/load errors: %s", strings.Join(errs, "; "))
	}
	if len(p.Pkgs) == 0 {
		return nil, fmt.Errorf("no module packages found (module %s)", modulePath)
	}
	for _, pk := range p.Pkgs {
		p.indexPkg(pk)
	}
	return p, nil
}

func (p *Prog) indexPkg(pk *packages.Package) {
	sp := shortPkg(pk.PkgPath)
	// struct fields of named types
	scope := pk.Types.Scope()
	for _, name := range scope.Names() {
		tn, ok := scope.Lookup(name).(*types.TypeName)
		if !ok {
			continue
		}
		p.indexStruct(sp, name, tn.Type().Underlying(), "")
	}
	for _, file := range pk.Syntax {
		// parents
		var stack []ast.Node
		ast.Inspect(file, func(n ast.Node) bool {
			if n == nil {
				stack = stack[:len(stack)-1]
				return true
			}
			if len(stack) > 0 {
				p.parents[n] = stack[len(stack)-1]
			}
			stack = append(stack, n)
			return true
		})
		for _, d := range file.Decls {
			fd, ok := d.(*ast.FuncDecl)
			if !ok || fd.Body == nil {
				continue
			}
			obj, _ := pk.TypesInfo.Defs[fd.Name].(*types.Func)
			name := sp + "." + fd.Name.Name
			if fd.Recv != nil && len(fd.Recv.List) == 1 {
				rt := fd.Recv.List[0].Type
				tn := recvTypeName(rt)
				if _, ptr := rt.(*ast.StarExpr); ptr {
					name = sp + ".(*" + tn + ")." + fd.Name.Name
				} else {
					name = sp + "." + tn + "." + fd.Name.Name
				}
			}
			f := &Func{Prog: p, Pkg: pk, Decl: fd, Name: name, Body: fd.Body, Obj: obj, idx: len(p.Funcs)}
			p.Funcs = append(p.Funcs, f)
			p.byDecl[fd] = f
			if obj != nil {
				p.byObj[obj] = f
			}
			p.indexLits(f)
		}
	}
}

func (p *Prog) indexStruct(sp, tname string, t types.Type, prefix string) {
	st, ok := t.(*types.Struct)
	if !ok {
		return
	}
	for i := 0; i < st.NumFields(); i++ {
		fv := st.Field(i)
		p.fields[fv] = FieldID{sp, tname, prefix + fv.Name()}
		// anonymous nested struct types (Iterator.closer, Iterator.err)
		if _, ok := fv.Type().(*types.Struct); ok {
			p.indexStruct(sp, tname, fv.Type(), prefix+fv.Name()+".")
		}
	}
}

func (p *Prog) indexLits(parent *Func) {
	n := 0
	var walk func(node ast.Node)
	walk = func(node ast.Node) {
		ast.Inspect(node, func(x ast.Node) bool {
			lit, ok := x.(*ast.FuncLit)
			if !ok {
				return true
			}
			n++
			f := &Func{Prog: p, Pkg: parent.Pkg, Lit: lit, Parent: parent, Name: fmt.Sprintf("%s$%d", parent.Name, n),
				Body: lit.Body, idx: len(p.Funcs)}
			p.Funcs = append(p.Funcs, f)
			p.byLit[lit] = f
			parent.Lits = append(parent.Lits, f)
			p.indexLits(f)
			return false
		})
	}
	walk(parent.Body)
}

// Field returns the identity of a struct field object (generic origin).
func (p *Prog) Field(v *types.Var) (FieldID, bool) {
	if v == nil {
		return FieldID{}, false
	}
	id, ok := p.fields[v.Origin()]
	return id, ok
}

// FuncOf returns the analysable body for a function object, or nil.
func (p *Prog) FuncOf(obj *types.Func) *Func {
	if obj == nil {
		return nil
	}
	return p.byObj[obj.Origin()]
}

// FuncNamed finds a function by its report name, e.g. "pubsub.(*Queue).doAdd".
func (p *Prog) FuncNamed(name string) *Func {
	for _, f := range p.Funcs {
		if f.Name == name {
			return f
		}
	}
	return nil
}

func (p *Prog) Parent(n ast.Node) ast.Node { return p.parents[n] }

// EnclosingFunc returns the innermost Func whose body contains n.
func (p *Prog) EnclosingFunc(n ast.Node) *Func {
	for x := p.parents[n]; x != nil; x = p.parents[x] {
		switch t := x.(type) {
		case *ast.FuncLit:
			return p.byLit[t]
		case *ast.FuncDecl:
			return p.byDecl[t]
		}
	}
	return nil
}

func (p *Prog) Position(pos token.Pos) string {
	ps := p.Fset.Position(pos)
	rel, err := filepath.Rel(p.RepoDir, ps.Filename)
	if err != nil {
		rel = ps.Filename
	}
	return fmt.Sprintf("%s:%d", rel, ps.Line)
}

// FuncsIn returns the functions (declarations and literals) of the packages
// with the given short names, in source order.
func (p *Prog) FuncsIn(pkgs ...string) []*Func {
	var out []*Func
	for _, f := range p.Funcs {
		sp := shortPkg(f.Pkg.PkgPath)
		for _, w := range pkgs {
			if w == sp {
				out = append(out, f)
			}
		}
	}
	return out
}
