package main

import (
	"fmt"
	"go/ast"
	"go/types"
	"sort"
	"strings"
)

// ----------------------------------------------------------------- L3 flow

// valueReqs computes the lock requirements carried by the function value that
// expression e (inside f) evaluates to.
func (la *LockAnalysis) valueReqs(f *Func, e ast.Expr, depth int) map[string]lockReq {
	out := map[string]lockReq{}
	if depth > 6 {
		return out
	}
	info := f.Info()
	e = ast.Unparen(e)
	switch t := e.(type) {
	case *ast.FuncLit:
		lf := la.p.byLit[t]
		if r := la.res[lf]; r != nil {
			for k, q := range r.reqs {
				out[k] = q
			}
		}
	case *ast.Ident:
		if v, ok := info.Uses[t].(*types.Var); ok {
			if rhs := singleDef(f, v); rhs != nil {
				return la.valueReqs(f, rhs, depth+1)
			}
		}
	case *ast.CallExpr:
		// conversion T(x)
		if tv, ok := info.Types[t.Fun]; ok && tv.IsType() && len(t.Args) == 1 {
			return la.valueReqs(f, t.Args[0], depth+1)
		}
		fn := calleeFunc(info, t)
		if fn == nil {
			return out
		}
		if fn.Name() == "WithLock" && len(t.Args) == 1 {
			// discharge: X.WithLock(m) runs X with m held
			in := la.valueReqs(f, recvExpr(t), depth+1)
			mp, ok := resolvePath(f, t.Args[0])
			for k, q := range in {
				if ok && la.reqMatches(q, mp) {
					continue
				}
				out[k] = q
			}
			return out
		}
		if g := la.p.FuncOf(fn); g != nil {
			if r := la.res[g]; r != nil {
				for _, q := range r.result {
					tq := la.translateReq(g, q, info, t)
					out[tq.key()] = tq
				}
			}
		}
		// methods of function-typed receivers (PreHook, Iterator, Filter...)
		// build on their receiver: the receiver's requirements carry over
		if rx := recvExpr(t); rx != nil {
			if tv, ok := info.Types[rx]; ok {
				if _, isSig := tv.Type.Underlying().(*types.Signature); isSig {
					for k, q := range la.valueReqs(f, rx, depth+1) {
						out[k] = q
					}
				}
			}
		}
	}
	return out
}

// reqMatches: does holding the mutex at path mp satisfy q?
func (la *LockAnalysis) reqMatches(q lockReq, mp accessPath) bool {
	if q.ByType {
		return len(mp.Fields) > 0 && mp.Fields[len(mp.Fields)-1] == q.Field
	}
	return accessPath{q.Root, q.Path}.Key() == mp.Key()
}

// resultFlow propagates function-value requirements through return
// statements to a fixpoint and reports values that leave unwrapped.
func (la *LockAnalysis) resultFlow() {
	for round := 0; round < 8; round++ {
		changed := false
		for _, f := range la.p.Funcs {
			r := la.res[f]
			if r == nil {
				continue
			}
			walkNoLit(f.Body, func(x ast.Node) bool {
				rs, ok := x.(*ast.ReturnStmt)
				if !ok {
					return true
				}
				for _, res := range rs.Results {
					for k, q := range la.valueReqs(f, res, 0) {
						if _, seen := r.result[k]; !seen {
							r.result[k] = q
							changed = true
						}
					}
				}
				return true
			})
		}
		if !changed {
			break
		}
	}
}

// ------------------------------------------------------------ rule emission

// lockRules emits L1/L2/L3 obligations for the functions selected by keep
// (by owner type / package) into the report.
func lockRules(c *Ctx, owners map[string]bool, floors map[string]int) {
	la := c.Locks()
	la.resultFlow()
	p := c.P
	R := c.R
	R.Rule("L1", "every read or write of a guarded field (tables.go) executes with the owner's mutex in the must-held lock set, on every path", floors["L1"])
	R.Rule("L2", "a function that touches guarded state without acquiring is lock-required: every call site holds the mutex or is itself lock-required; none is exported, none runs as a goroutine body", floors["L2"])
	R.Rule("L3", "a lock-required function value (closure, method value) leaves the owner's API only as the receiver of .WithLock(<owner mutex>)", floors["L3"])

	// group accesses by function
	type agg struct {
		f       *Func
		n, bad  int
		fields  map[string]bool
		exempt  []string
		example guardedAccess
	}
	byFunc := map[*Func]*agg{}
	var order []*Func
	for _, a := range la.accesses {
		owner := a.Field.Pkg + "." + a.Field.Type
		if a.Field.Pkg == "local" {
			owner = a.Field.Type
		}
		if owners != nil && !owners[owner] && !owners[ownerOfGuard(la, a.Field)] {
			continue
		}
		g := byFunc[a.F]
		if g == nil {
			g = &agg{f: a.F, fields: map[string]bool{}}
			byFunc[a.F] = g
			order = append(order, a.F)
		}
		g.n++
		g.fields[a.Field.Name] = true
		if a.Exempt != "" {
			g.exempt = append(g.exempt, a.Exempt)
		}
		if !a.Held {
			g.bad++
			if g.example.F == nil {
				g.example = a
			}
		}
	}
	for _, f := range order {
		g := byFunc[f]
		r := la.res[f]
		fields := keys(g.fields)
		pos := p.Position(f.Pos())
		for _, ex := range g.exempt {
			R.Exception("L1", f.Name+": "+ex)
		}
		if g.bad == 0 && (r == nil || len(r.reqs) == 0) {
			R.OK("L1", f.Name, pos, fmt.Sprintf("%d accesses of {%s} under the lock", g.n, strings.Join(fields, ",")))
			continue
		}
		// some access (or a callee) needs a lock that is not held here: decide who is responsible
		detail := ""
		if g.bad > 0 {
			ex := g.example
			detail = fmt.Sprintf("%s touches %s at %s with lock set %s (needs %s)", f.Name, ex.Field, p.Position(ex.Node.Pos()), ex.Locks, ex.Lock)
		} else {
			for _, q := range r.reqs {
				detail = fmt.Sprintf("%s: %s at %s (needs %s)", f.Name, q.Why, p.Position(q.WhyPos), q)
				break
			}
		}
		switch {
		case f.Parent == nil && f.Exported():
			R.Fail("L1", f.Name, pos, "exported API without the lock: "+detail)
		case f.Parent == nil:
			// lock-required helper: its call sites carry the obligation
			n := callSites(la, f)
			R.OK("L2", f.Name, pos, fmt.Sprintf("lock-required helper (%s); obligation carried by %d call sites", reqList(r.reqs), n))
		default:
			switch r.kind {
			case litSync, litDeferred:
				// accounted to the parent (requirement merged upward)
				R.OK("L2", f.Name, pos, "synchronous literal; requirement merged into "+f.Parent.Name)
			case litAsync:
				R.Fail("L2", f.Name, pos, "goroutine body without the lock: "+detail)
			default:
				// escaping closure: L3 decides
				R.OK("L2", f.Name, pos, fmt.Sprintf("lock-required closure value (%s); see L3", reqList(r.reqs)))
			}
		}
	}
	// lock-required functions reached only through calls (no direct access)
	for _, f := range p.Funcs {
		r := la.res[f]
		if r == nil || len(r.reqs) == 0 || byFunc[f] != nil {
			continue
		}
		if !reqsConcern(la, r.reqs, owners) {
			continue
		}
		pos := p.Position(f.Pos())
		var why string
		for _, q := range r.reqs {
			why = q.Why + " at " + p.Position(q.WhyPos)
			break
		}
		switch {
		case f.Parent == nil && f.Exported():
			R.Fail("L1", f.Name, pos, fmt.Sprintf("exported API reaches guarded state without the lock: %s (needs %s)", why, reqList(r.reqs)))
		case f.Parent == nil:
			R.OK("L2", f.Name, pos, fmt.Sprintf("lock-required through callees (%s)", reqList(r.reqs)))
		case r.kind == litAsync:
			R.Fail("L2", f.Name, pos, fmt.Sprintf("goroutine body reaches guarded state without the lock: %s (needs %s)", why, reqList(r.reqs)))
		case r.kind == litEscapes:
			R.OK("L2", f.Name, pos, fmt.Sprintf("lock-required closure value (%s); see L3", reqList(r.reqs)))
		}
	}
	// escapes recorded by the engine (method values etc.)
	for _, e := range la.escapes {
		if e.What == "async" {
			continue // reported above
		}
		if e.What == "premise" {
			if owners == nil || owners[e.F.Root().Name] {
				R.Fail("L1", e.F.Root().Name+"/fast-path", p.Position(e.Pos), e.Detail)
			}
			continue
		}
		if owners != nil && !ownersMention(owners, e.Detail) {
			continue
		}
		R.Fail("L3", e.F.Name+"/funcvalue", p.Position(e.Pos), e.Detail)
	}
	// L3: results
	for _, f := range p.Funcs {
		r := la.res[f]
		if r == nil {
			continue
		}
		// every escaping literal with requirements must sit in an accepted context
		for _, lf := range f.Lits {
			lr := la.res[lf]
			if lr == nil || lr.kind != litEscapes || len(lr.reqs) == 0 || !reqsConcern(la, lr.reqs, owners) {
				continue
			}
			pos := p.Position(lf.Pos())
			ctx := litContext(p, lf)
			switch ctx {
			case "return", "withlock", "conversion":
				R.OK("L3", lf.Name, pos, "closure with requirement "+reqList(lr.reqs)+" is "+ctx+"ed; followed through the results")
			default:
				R.Fail("L3", lf.Name, pos, fmt.Sprintf("closure needs %s (for %s) but is %s: it can run without the lock", reqList(lr.reqs), firstWhy(lr.reqs), ctx))
			}
		}
		if len(r.result) == 0 || !reqsConcern(la, r.result, owners) {
			continue
		}
		pos := p.Position(f.Pos())
		if f.Parent == nil && f.Exported() {
			R.Fail("L3", f.Name+"/result", pos, fmt.Sprintf("returns a function value that must run under %s (it touches %s) without wrapping it in WithLock", reqList(r.result), firstWhy(r.result)))
			continue
		}
		// unexported: each call site must wrap or return it
		n, bad := 0, ""
		for _, cs := range callSitesOf(la, f) {
			n++
			reqs := la.valueReqs(cs.f, cs.outermost, 0)
			if len(reqs) == 0 {
				continue
			}
			if cs.returned {
				continue // flows into the caller's result, checked there
			}
			bad = fmt.Sprintf("result of %s used at %s still requires %s", f.Name, p.Position(cs.call.Pos()), reqList(reqs))
		}
		if bad != "" {
			R.Fail("L3", f.Name+"/result", pos, bad)
		} else {
			R.OK("L3", f.Name+"/result", pos, fmt.Sprintf("result requires %s; wrapped or returned at all %d call sites", reqList(r.result), n))
		}
	}
	if len(la.unknown) > 0 {
		for i, u := range la.unknown {
			R.Undecided("L1", fmt.Sprintf("unknown-idiom-%d", i), "-", u)
		}
	}
}

func firstWhy(m map[string]lockReq) string {
	var ks []string
	for k := range m {
		ks = append(ks, k)
	}
	sort.Strings(ks)
	if len(ks) == 0 {
		return ""
	}
	return m[ks[0]].Why
}

func keys(m map[string]bool) []string {
	var out []string
	for k := range m {
		out = append(out, k)
	}
	sort.Strings(out)
	return out
}

func ownerOfGuard(la *LockAnalysis, id FieldID) string {
	if g, ok := la.guards[id]; ok {
		return g.LockOwner.Pkg + "." + g.LockOwner.Type
	}
	return ""
}

func reqsConcern(la *LockAnalysis, reqs map[string]lockReq, owners map[string]bool) bool {
	if owners == nil {
		return true
	}
	for _, q := range reqs {
		if q.Field != nil {
			if id, ok := la.p.Field(q.Field); ok && owners[id.Pkg+"."+id.Type] {
				return true
			}
		} else if q.Root != nil {
			for o := range owners {
				if strings.Contains(q.Why, o) {
					return true
				}
			}
		}
	}
	return false
}

func ownersMention(owners map[string]bool, s string) bool {
	for o := range owners {
		short := o[strings.Index(o, ".")+1:]
		if strings.Contains(s, "(*"+short+")") || strings.Contains(s, o) {
			return true
		}
	}
	return false
}

// litContext names what happens to an escaping literal.
func litContext(p *Prog, lf *Func) string {
	var n ast.Node = lf.Lit
	for par := p.Parent(n); par != nil; n, par = par, p.Parent(par) {
		switch t := par.(type) {
		case *ast.ParenExpr:
			continue
		case *ast.ReturnStmt:
			return "return"
		case *ast.CallExpr:
			if ast.Unparen(t.Fun) != n && len(t.Args) == 1 {
				// conversion T(lit)?
				if tv, ok := lf.Info().Types[t.Fun]; ok && tv.IsType() {
					continue
				}
			}
			return "passed to " + exprStr(t.Fun)
		case *ast.SelectorExpr:
			if t.Sel.Name == "WithLock" {
				return "withlock"
			}
			continue
		case *ast.AssignStmt:
			return "assigned to " + exprStr(t.Lhs[0])
		case *ast.KeyValueExpr:
			return "stored in field " + exprStr(t.Key)
		case *ast.CompositeLit:
			return "stored in a composite literal"
		case *ast.GoStmt:
			return "started as a goroutine"
		default:
			return fmt.Sprintf("used in %T", par)
		}
	}
	return "unknown"
}

type callSite struct {
	f         *Func
	call      *ast.CallExpr
	outermost ast.Expr // the call extended over chained method calls / conversions
	returned  bool
}

// callSitesOf finds the static call sites of g in the module.
func callSitesOf(la *LockAnalysis, g *Func) []callSite {
	var out []callSite
	p := la.p
	for _, f := range p.Funcs {
		if f.Pkg != g.Pkg && !g.Exported() {
			continue
		}
		info := f.Info()
		walkNoLit(f.Body, func(x ast.Node) bool {
			c, ok := x.(*ast.CallExpr)
			if !ok {
				return true
			}
			if fn := calleeFunc(info, c); fn == nil || p.FuncOf(fn) != g {
				return true
			}
			// extend over chains: g(...).WithLock(m).Iterator() ...
			var outer ast.Expr = c
			for {
				par := p.Parent(outer)
				if pe, ok := par.(*ast.ParenExpr); ok {
					outer = pe
					continue
				}
				if se, ok := par.(*ast.SelectorExpr); ok && se.X == outer {
					if pc, ok := p.Parent(se).(*ast.CallExpr); ok && pc.Fun == ast.Expr(se) {
						outer = pc
						continue
					}
				}
				break
			}
			_, ret := p.Parent(outer).(*ast.ReturnStmt)
			out = append(out, callSite{f: f, call: c, outermost: outer, returned: ret})
			return true
		})
	}
	return out
}

func callSites(la *LockAnalysis, g *Func) int { return len(callSitesOf(la, g)) }
