package main

// Rules added after the independent seeded-change campaign (DESIGN §10), package pubsub:
//
//	W9  closed is reported by a consumer-side wait only from inside its wait loop
//	D9v the validity flag of an internal (T, bool) result is not discarded while the value is used
//	X7  a fixed Capacity is served by a tracker whose cap() never changes
//	K4  the broker never receives from a subscriber's channel
//	K5  the event loop shuts the broker down only on closed/EOF distributor errors
//	L6  locals shared between goroutines are of concurrency-safe types

import (
	"fmt"
	"go/ast"
	"go/token"
	"go/types"
	"strings"
)

// ---------------------------------------------------------------- W9

func ruleW9(c *Ctx, owners map[string]bool, floor int) {
	m := buildCondModel(c, owners)
	R := c.R
	p := c.P
	R.Rule("W9", "a consumer-side wait (one that waits for an item, not for room) reports ErrQueueClosed only from inside its wait loop, i.e. only while there is nothing to take: items queued before Close stay removable", floor)
	seen := map[*Func]bool{}
	for _, w := range m.waits {
		if w.Loop == nil || seen[w.F] {
			continue
		}
		seen[w.F] = true
		// producer-side waits compare against the capacity
		producer := false
		if w.Loop.Cond != nil {
			ast.Inspect(w.Loop.Cond, func(x ast.Node) bool {
				if call, ok := x.(*ast.CallExpr); ok && selName(call) == "cap" {
					producer = true
				}
				return true
			})
		}
		if producer {
			continue
		}
		at := w.F.Name + "/closed-only-when-empty"
		pos := p.Position(w.F.Pos())
		bad := ""
		n := 0
		walkNoLit(w.F.Body, func(x ast.Node) bool {
			rs, ok := x.(*ast.ReturnStmt)
			if !ok {
				return true
			}
			for _, r := range rs.Results {
				if id, ok := ast.Unparen(r).(*ast.Ident); ok && id.Name == "ErrQueueClosed" {
					n++
					if !p.inside(rs, w.Loop.Body) {
						bad = p.Position(rs.Pos())
					}
				}
			}
			return true
		})
		if n == 0 {
			continue
		}
		R.Check(bad == "", "W9", at, pos, fmt.Sprintf("%d return(s) of ErrQueueClosed, all inside the wait loop", n),
			fmt.Sprintf("%s returns ErrQueueClosed at %s outside its wait loop, i.e. without having established that there is nothing to take: a closed container that still holds items reports closed instead of handing them out", w.F.Name, bad))
	}
}

// ---------------------------------------------------------------- D9v

func ruleD9v(c *Ctx, pkgs map[string]bool, floor int) {
	R := c.R
	p := c.P
	R.Rule("D9v", "when a module function returns (value, ok bool), a caller that uses the value also binds ok (a blank ok with a used value hands out the zero value as if it were an item)", floor)
	for _, f := range p.Funcs {
		if !pkgs[shortPkg(f.Pkg.PkgPath)] {
			continue
		}
		info := f.Info()
		n := 0
		walkNoLit(f.Body, func(x ast.Node) bool {
			as, ok := x.(*ast.AssignStmt)
			if !ok || len(as.Lhs) != 2 || len(as.Rhs) != 1 {
				return true
			}
			call, ok := ast.Unparen(as.Rhs[0]).(*ast.CallExpr)
			if !ok {
				return true
			}
			fn := calleeFunc(info, call)
			if fn == nil || fn.Pkg() == nil || !strings.HasPrefix(fn.Pkg().Path(), modulePath) {
				return true
			}
			sig, _ := fn.Type().(*types.Signature)
			if sig == nil || sig.Results().Len() != 2 {
				return true
			}
			if b, ok := sig.Results().At(1).Type().Underlying().(*types.Basic); !ok || b.Kind() != types.Bool {
				return true
			}
			n++
			at := fmt.Sprintf("%s/%s#%d", f.Name, fname(fn), n)
			pos := p.Position(as.Pos())
			v, isId0 := as.Lhs[0].(*ast.Ident)
			o, isId1 := as.Lhs[1].(*ast.Ident)
			if isId1 && o.Name == "_" && !(isId0 && v.Name == "_") {
				R.Fail("D9v", at, pos, fmt.Sprintf("%s keeps the value of %s but discards its ok flag: when the call fails (empty or closed container) the zero value is treated as an item that was never added", f.Name, fname(fn)))
			} else {
				R.OK("D9v", at, pos, "ok is bound (or both results are dropped)")
			}
			return true
		})
	}
}

// ---------------------------------------------------------------- X7

func ruleX7(c *Ctx) {
	R := c.R
	p := c.P
	R.Rule("X7", "the tracker NewDeque installs for a fixed Capacity has a cap() that returns a field no method of that tracker ever writes (a fixed-capacity deque has a constant bound)", 1)
	f := p.FuncNamed("pubsub.NewDeque")
	at := "pubsub.NewDeque/capacity-tracker"
	if f == nil {
		R.Fail("X7", at, "-", "pubsub.NewDeque not found")
		return
	}
	info := f.Info()
	var rhs ast.Expr
	ast.Inspect(f.Body, func(x ast.Node) bool {
		ifs, ok := x.(*ast.IfStmt)
		if !ok || !strings.Contains(exprStr(ifs.Cond), ".Capacity") {
			return true
		}
		for _, s := range ifs.Body.List {
			if as, ok := s.(*ast.AssignStmt); ok && len(as.Lhs) == 1 && len(as.Rhs) == 1 {
				if tv, ok := info.Types[as.Lhs[0]]; ok && typeIs(tv.Type, "pubsub", "queueLimitTracker") {
					rhs = as.Rhs[0]
				}
			}
		}
		return true
	})
	if rhs == nil {
		R.Undecided("X7", at, p.Position(f.Pos()), "no `if … opts.Capacity … { tracker = … }` branch found in NewDeque")
		return
	}
	pos := p.Position(rhs.Pos())
	impl := concreteTypeOf(p, f, rhs, 0)
	if impl == nil {
		R.Undecided("X7", at, pos, "cannot determine the concrete tracker type of "+exprStr(rhs))
		return
	}
	// find impl's cap method and the field it returns
	var capF *Func
	for _, g := range p.Funcs {
		if g.Decl != nil && g.Decl.Recv != nil && g.Decl.Name.Name == "cap" && g.Obj != nil {
			if sig := g.Obj.Type().(*types.Signature); sig.Recv() != nil && namedOf(sig.Recv().Type()) != nil && namedOf(sig.Recv().Type()).Obj() == impl.Obj() {
				capF = g
			}
		}
	}
	if capF == nil {
		R.Undecided("X7", at, pos, "no cap method on "+impl.Obj().Name())
		return
	}
	var field *types.Var
	walkNoLit(capF.Body, func(x ast.Node) bool {
		if rs, ok := x.(*ast.ReturnStmt); ok && len(rs.Results) == 1 {
			if se, ok := ast.Unparen(rs.Results[0]).(*ast.SelectorExpr); ok {
				if s := capF.Info().Selections[se]; s != nil && s.Kind() == types.FieldVal {
					field = s.Obj().(*types.Var)
				}
			}
		}
		return true
	})
	if field == nil {
		// a constant bound (e.g. math.MaxInt) is immutable as well
		R.OK("X7", at, pos, impl.Obj().Name()+".cap() does not return a field")
		return
	}
	writer := ""
	for _, g := range p.Funcs {
		if g.Decl == nil || g.Decl.Recv == nil || g.Obj == nil {
			continue
		}
		sig := g.Obj.Type().(*types.Signature)
		if n := namedOf(sig.Recv().Type()); n == nil || n.Obj() != impl.Obj() {
			continue
		}
		ginfo := g.Info()
		walkNoLit(g.Body, func(x ast.Node) bool {
			var lhs []ast.Expr
			switch s := x.(type) {
			case *ast.AssignStmt:
				lhs = s.Lhs
			case *ast.IncDecStmt:
				lhs = []ast.Expr{s.X}
			}
			for _, l := range lhs {
				if se, ok := ast.Unparen(l).(*ast.SelectorExpr); ok {
					if s := ginfo.Selections[se]; s != nil && s.Kind() == types.FieldVal && s.Obj().(*types.Var).Origin() == field.Origin() {
						writer = g.Name + " at " + p.Position(x.Pos())
					}
				}
			}
			return true
		})
	}
	R.Check(writer == "", "X7", at, pos, fmt.Sprintf("%s.cap() returns %s, which no method writes", impl.Obj().Name(), field.Name()),
		fmt.Sprintf("a fixed Capacity is served by %s, whose cap() returns %s, and %s writes that field: the bound of a fixed-capacity deque changes as items are removed (pushes fail below capacity, force pushes evict early)", impl.Obj().Name(), field.Name(), writer))
}

// concreteTypeOf resolves the named struct type behind an expression of
// interface type: &T{…}, or a call whose body returns &T{…}.
func concreteTypeOf(p *Prog, f *Func, e ast.Expr, depth int) *types.Named {
	info := f.Info()
	e = ast.Unparen(e)
	if tv, ok := info.Types[e]; ok {
		if n := namedOf(tv.Type); n != nil {
			if _, isIface := n.Underlying().(*types.Interface); !isIface {
				return n
			}
		}
	}
	if call, ok := e.(*ast.CallExpr); ok && depth < 2 {
		if g := p.FuncOf(calleeFunc(info, call)); g != nil {
			var out *types.Named
			walkNoLit(g.Body, func(x ast.Node) bool {
				if rs, ok := x.(*ast.ReturnStmt); ok && len(rs.Results) >= 1 {
					if n := concreteTypeOf(p, g, rs.Results[0], depth+1); n != nil {
						out = n
					}
				}
				return true
			})
			return out
		}
	}
	return nil
}

// ---------------------------------------------------------------- K4 / K5

func ruleBroker2(c *Ctx) {
	R := c.R
	p := c.P
	R.Rule("K4", "the broker never receives from a channel that carries messages except its own publish channel: a subscriber's channel is only ever sent to (a receive there steals a delivery from the subscriber)", 1)
	R.Rule("K5", "the event loop shuts the broker down (b.close) only under a test for ErrQueueClosed / io.EOF from the distributor; any other send error (full, no credit, a non-blocking channel's skip) sheds one message and goes on", 1)
	recvs := 0
	for _, f := range p.FuncsIn("pubsub") {
		root := f.Root()
		if root.Decl == nil || root.Decl.Recv == nil || recvTypeName(root.Decl.Recv.List[0].Type) != "Broker" {
			continue
		}
		info := f.Info()
		walkNoLit(f.Body, func(x ast.Node) bool {
			ue, ok := x.(*ast.UnaryExpr)
			if !ok || ue.Op != token.ARROW {
				return true
			}
			tv, ok := info.Types[ue.X]
			if !ok {
				return true
			}
			ch, ok := tv.Type.Underlying().(*types.Chan)
			if !ok {
				return true
			}
			if _, isTP := ch.Elem().(*types.TypeParam); !isTP {
				return true
			}
			recvs++
			at := fmt.Sprintf("%s/recv(%s)", f.Name, exprStr(ue.X))
			pos := p.Position(ue.Pos())
			okRecv := false
			if se, ok := ast.Unparen(ue.X).(*ast.SelectorExpr); ok && se.Sel.Name == "publishCh" {
				okRecv = true
			}
			R.Check(okRecv, "K4", at, pos, "receive from the broker's own publish channel",
				fmt.Sprintf("%s receives from %s, a message channel that is not the broker's publish channel: a message already handed to (or being handed to) a subscriber is taken away from it", f.Name, exprStr(ue.X)))
			return true
		})
	}
	if recvs == 0 {
		R.Fail("K4", "pubsub.(*Broker)/publish-receive", "-", "the broker never receives from its publish channel")
	}
	// K5
	f := p.FuncNamed("pubsub.(*Broker).startQueueWorkers")
	if f == nil {
		R.Fail("K5", "anchor", "-", "pubsub.(*Broker).startQueueWorkers not found")
		return
	}
	n := 0
	var visit func(g *Func)
	visit = func(g *Func) {
		info := g.Info()
		walkNoLit(g.Body, func(x ast.Node) bool {
			call, ok := x.(*ast.CallExpr)
			if !ok {
				return true
			}
			se, ok := ast.Unparen(call.Fun).(*ast.SelectorExpr)
			if !ok || se.Sel.Name != "close" {
				return true
			}
			if tv, ok := info.Types[se.X]; !ok || !typeIs(tv.Type, "pubsub", "Broker") {
				return true
			}
			n++
			at := fmt.Sprintf("%s/close#%d", g.Name, n)
			pos := p.Position(call.Pos())
			// innermost controlling case clause / if
			var conds []ast.Expr
			found := false
			var child ast.Node = call
			for par := p.Parent(call); par != nil && !found; child, par = par, p.Parent(par) {
				switch t := par.(type) {
				case *ast.CaseClause:
					conds, found = t.List, true
				case *ast.IfStmt:
					if t.Body == child {
						conds, found = []ast.Expr{t.Cond}, true
					}
				case *ast.CommClause:
					// `case <-ctx.Done():` is a legitimate reason too
					if t.Comm != nil && isCtxDoneRecv(info, t.Comm) {
						conds, found = nil, true
						R.OK("K5", at, pos, "under case <-ctx.Done()")
						return true
					}
				case *ast.FuncLit, *ast.FuncDecl:
					found = true
				}
			}
			okAll := len(conds) > 0
			for _, cd := range conds {
				if !onlyClosedTests(info, cd) {
					okAll = false
				}
			}
			R.Check(okAll, "K5", at, pos, "guarded by errors.Is(err, ErrQueueClosed|io.EOF)",
				fmt.Sprintf("%s closes the broker without a test for ErrQueueClosed / io.EOF (guard: %s): a transient distributor error — a full non-blocking channel reports a skip — stops a live broker, Publish then blocks for ever and buffered messages are never dispatched", g.Name, guardStr(conds)))
			return true
		})
		for _, l := range g.Lits {
			visit(l)
		}
	}
	visit(f)
	if n == 0 {
		R.Fail("K5", "pubsub.(*Broker).startQueueWorkers/close", p.Position(f.Pos()), "the event loop never closes the broker when the distributor is closed")
	}
}

func guardStr(conds []ast.Expr) string {
	if len(conds) == 0 {
		return "none (default / unconditional)"
	}
	var s []string
	for _, c := range conds {
		s = append(s, exprStr(c))
	}
	return strings.Join(s, ", ")
}

// onlyClosedTests: e is a disjunction of errors.Is(err, S) / ers.Is(err, S…)
// with every S in {ErrQueueClosed, io.EOF}.
func onlyClosedTests(info *types.Info, e ast.Expr) bool {
	e = ast.Unparen(e)
	if be, ok := e.(*ast.BinaryExpr); ok && be.Op == token.LOR {
		return onlyClosedTests(info, be.X) && onlyClosedTests(info, be.Y)
	}
	call, ok := e.(*ast.CallExpr)
	if !ok {
		return false
	}
	switch callName(info, call) {
	case "errors.Is", "ers.Is":
	default:
		return false
	}
	if len(call.Args) < 2 {
		return false
	}
	for _, a := range call.Args[1:] {
		s := exprStr(a)
		if s != "ErrQueueClosed" && s != "io.EOF" && s != "pubsub.ErrQueueClosed" {
			return false
		}
	}
	return true
}

// ---------------------------------------------------------------- L6

var l6SafeNamed = map[string]bool{
	"adt.Map": true, "adt.Atomic": true, "adt.Synchronized": true, "adt.Once": true, "adt.Pool": true,
	"sync.Mutex": true, "sync.RWMutex": true, "sync.WaitGroup": true, "sync.Once": true, "sync.Cond": true, "sync.Map": true,
	"fun.WaitGroup": true, "erc.Collector": true, "pubsub.Broker": true, "pubsub.Queue": true, "pubsub.Deque": true,
	"atomic.Bool": true, "atomic.Int64": true, "atomic.Int32": true, "atomic.Value": true, "atomic.Pointer": true,
	"srv.Service": true, "srv.Orchestrator": true, "fun.Iterator": true, "time.Timer": true, "time.Ticker": true,
	"exec.Cmd": true, "http.Server": true, "testing.T": true,
}

func l6TypeSafe(t types.Type) (bool, string) { return l6TypeSafeN(t, 0) }

func l6TypeSafeN(t types.Type, depth int) (bool, string) {
	if depth > 4 {
		return false, types.TypeString(t, nil)
	}
	switch u := t.(type) {
	case *types.Pointer:
		return l6TypeSafeN(u.Elem(), depth+1)
	case *types.Alias:
		return l6TypeSafeN(types.Unalias(u), depth+1)
	case *types.Named:
		name := typeName(u)
		if l6SafeNamed[name] {
			return true, ""
		}
		switch st := u.Underlying().(type) {
		case *types.Interface, *types.Signature, *types.Chan:
			return true, ""
		case *types.Struct:
			// a bundle of functions / channels / safe parts with no plain data (fun.ChanOp, pubsub.Distributor)
			if st.NumFields() > 0 {
				all := true
				for i := 0; i < st.NumFields(); i++ {
					if ok, _ := l6TypeSafeN(st.Field(i).Type(), depth+1); !ok {
						if b, isBasic := st.Field(i).Type().Underlying().(*types.Basic); !(isBasic && b.Kind() == types.Bool) {
							all = false
						}
					}
				}
				if all {
					return true, ""
				}
			}
		}
		return false, name
	case *types.Chan, *types.Signature, *types.Interface:
		return true, ""
	case *types.Map:
		return false, "map"
	case *types.Slice:
		return false, "slice"
	}
	return false, types.TypeString(t, nil)
}

func ruleL6(c *Ctx, pkgs map[string]bool, floor int) {
	R := c.R
	p := c.P
	R.Rule("L6", "a local variable that is used by more than one goroutine (captured by two go-literals, by one started in a loop, or by a goroutine and its launcher afterwards) and is written or mutated after the first launch is of a concurrency-safe type (adt.Map, sync/atomic types, channels, the module's own locked types); a dt.Set qualifies only after Synchronize()", floor)
	for _, f := range p.Funcs {
		if f.Parent != nil || !pkgs[shortPkg(f.Pkg.PkgPath)] {
			continue
		}
		info := f.Info()
		// go-literals of this declaration (any depth) and whether they run more than once
		type golit struct {
			lit   *ast.FuncLit
			multi bool
			pos   token.Pos
		}
		var gos []golit
		ast.Inspect(f.Body, func(x ast.Node) bool {
			gs, ok := x.(*ast.GoStmt)
			if !ok {
				return true
			}
			if lit, ok := ast.Unparen(gs.Call.Fun).(*ast.FuncLit); ok {
				multi := false
				for par := p.Parent(gs); par != nil; par = p.Parent(par) {
					switch par.(type) {
					case *ast.ForStmt, *ast.RangeStmt:
						multi = true
					}
					if par == ast.Node(f.Body) {
						break
					}
				}
				gos = append(gos, golit{lit, multi, gs.Pos()})
			}
			return true
		})
		if len(gos) == 0 {
			continue
		}
		// candidate variables: declared in f (not params of the go literals themselves)
		users := map[*types.Var]map[int]bool{}
		ast.Inspect(f.Body, func(x ast.Node) bool {
			id, ok := x.(*ast.Ident)
			if !ok {
				return true
			}
			v, ok := info.Uses[id].(*types.Var)
			if !ok || v.IsField() || v.Pkg() == nil || v.Parent() == v.Pkg().Scope() {
				return true
			}
			// only variables created in this function's body: what a parameter or receiver points to is
			// the business of the lock-set rules (L1/L2) of its owner
			if v.Pos() < f.Body.Pos() || v.Pos() > f.Body.End() {
				return true
			}
			for i, g := range gos {
				if id.Pos() >= g.lit.Pos() && id.End() <= g.lit.End() && !(v.Pos() >= g.lit.Pos() && v.Pos() <= g.lit.End()) {
					if users[v] == nil {
						users[v] = map[int]bool{}
					}
					users[v][i] = true
				}
			}
			return true
		})
		for v, us := range users {
			contexts := 0
			first := token.Pos(0)
			for i := range us {
				contexts++
				if gos[i].multi {
					contexts++
				}
				if first == 0 || gos[i].pos < first {
					first = gos[i].pos
				}
			}
			// launcher use after the first launch
			launcherAfter := false
			ast.Inspect(f.Body, func(x ast.Node) bool {
				if lit, ok := x.(*ast.FuncLit); ok {
					for _, g := range gos {
						if g.lit == lit {
							return false
						}
					}
				}
				if id, ok := x.(*ast.Ident); ok && info.Uses[id] == v && id.Pos() > first {
					launcherAfter = true
				}
				return true
			})
			if launcherAfter {
				contexts++
			}
			if contexts < 2 {
				continue
			}
			at := fmt.Sprintf("%s/shared(%s)", f.Name, v.Name())
			pos := p.Position(v.Pos())
			safe, tname := l6TypeSafe(v.Type())
			if safe {
				R.OK("L6", at, pos, "shared by goroutines; type "+types.TypeString(v.Type(), func(*types.Package) string { return "" })+" is concurrency-safe")
				continue
			}
			// read-only after the first launch?
			mutated := ""
			ast.Inspect(f.Body, func(x ast.Node) bool {
				switch s := x.(type) {
				case *ast.AssignStmt:
					for _, l := range s.Lhs {
						if usesObj(info, l, v) && s.Pos() > v.Pos() && (s.Tok != token.DEFINE || !isIdentOf(info, l, v)) {
							if s.Pos() > first || insideAny(s.Pos(), gos[0].lit) {
								mutated = p.Position(s.Pos())
							}
						}
					}
				case *ast.IncDecStmt:
					if usesObj(info, s.X, v) {
						mutated = p.Position(s.Pos())
					}
				case *ast.CallExpr:
					// a method call on the shared value (possible mutation) after launch or inside a goroutine
					if se, ok := ast.Unparen(s.Fun).(*ast.SelectorExpr); ok {
						if id, ok := ast.Unparen(se.X).(*ast.Ident); ok && info.Uses[id] == v {
							if sel, isMethod := info.Selections[se]; isMethod {
								// a value-receiver method works on a copy and cannot change the variable
								if fn, ok := sel.Obj().(*types.Func); ok {
									if sig, ok := fn.Type().(*types.Signature); ok && sig.Recv() != nil {
										if _, ptr := sig.Recv().Type().(*types.Pointer); !ptr {
											if _, vptr := v.Type().Underlying().(*types.Pointer); !vptr {
												return true
											}
										}
									}
								}
								mutated = p.Position(s.Pos())
							}
						}
					}
				case *ast.UnaryExpr:
					if s.Op == token.AND && usesObj(info, s.X, v) {
						mutated = p.Position(s.Pos())
					}
				}
				return true
			})
			if mutated == "" {
				R.OK("L6", at, pos, "shared by goroutines but never written, addressed or called after its definition")
				continue
			}
			if typeIs(v.Type(), "dt", "Set") {
				// accepted when Synchronize() is called before the first launch
				synced := false
				ast.Inspect(f.Body, func(x ast.Node) bool {
					if call, ok := x.(*ast.CallExpr); ok && selName(call) == "Synchronize" && call.Pos() < first {
						if id, ok := ast.Unparen(recvExpr(call)).(*ast.Ident); ok && info.Uses[id] == v {
							synced = true
						}
					}
					return true
				})
				if synced {
					R.OK("L6", at, pos, "dt.Set shared by goroutines, Synchronize() called before the first launch")
					continue
				}
			}
			R.Fail("L6", at, pos, fmt.Sprintf("%s is used by %d goroutine contexts in %s and written/called at %s, but its type %s is not safe for concurrent use: unsynchronised access from the goroutines is a data race", v.Name(), contexts, f.Name, mutated, tname))
		}
	}
}

func isIdentOf(info *types.Info, e ast.Expr, v *types.Var) bool {
	id, ok := ast.Unparen(e).(*ast.Ident)
	return ok && (info.Defs[id] == v)
}

func insideAny(pos token.Pos, lit *ast.FuncLit) bool { return pos >= lit.Pos() && pos <= lit.End() }

// ---------------------------------------------------------------- X2c / X2d / X2e / N5  (trackers and option defaults)

// x2cCapField: what cap() of each tracker returns — the deque treats cap() as the length from
// which a plain push can fail (it evicts / waits when cap() <= len()).
var x2cCapField = map[string]string{
	"queueHardLimitTracker": "capacity",  // a plain push fails exactly at the fixed capacity
	"queueLimitTrackerImpl": "softQuota", // without burst credit a push is refused from the soft quota on, not only at the hard limit
}

func ruleTracker2(c *Ctx) {
	R := c.R
	p := c.P
	R.Rule("X2c", "cap() of each tracker returns the bound from which add() can refuse (hard tracker: capacity; quota tracker: softQuota — a push without credit is refused from the soft quota on, so force pushes must evict and blocking pushes must wait from there)", 2)
	R.Rule("X2d", "in every tracker add() the hard-limit refusal (ErrQueueFull) is decided before the credit refusal (ErrQueueNoCredit)", 1)
	R.Rule("X2e", "the quota tracker lowers softQuota only under a guard that keeps it above 1 (cap() never reaches 0: a blocking push on an empty deque would wait for ever)", 1)
	for _, f := range p.FuncsIn("pubsub") {
		if f.Decl == nil || f.Decl.Recv == nil {
			continue
		}
		tn := recvNamed(f)
		info := f.Info()
		switch f.Decl.Name.Name {
		case "cap":
			want, ok := x2cCapField[tn]
			if !ok {
				continue
			}
			got := ""
			walkNoLit(f.Body, func(x ast.Node) bool {
				if rs, ok := x.(*ast.ReturnStmt); ok && len(rs.Results) == 1 {
					if se, ok := ast.Unparen(rs.Results[0]).(*ast.SelectorExpr); ok {
						got = se.Sel.Name
					}
				}
				return true
			})
			R.Check(got == want, "X2c", f.Name+"/bound", p.Position(f.Pos()), "returns "+want,
				fmt.Sprintf("%s returns %q, not %q: the deque's notion of \"full\" no longer coincides with the point from which add() refuses, so a force push fails with an error instead of evicting and a blocking push returns an error instead of waiting", f.Name, got, want))
		case "add":
			var full, credit token.Pos
			ast.Inspect(f.Body, func(x ast.Node) bool {
				rs, ok := x.(*ast.ReturnStmt)
				if !ok || len(rs.Results) != 1 {
					return true
				}
				id, ok := ast.Unparen(rs.Results[0]).(*ast.Ident)
				if !ok {
					return true
				}
				// position of the condition that guards this return
				guard := rs.Pos()
				var child ast.Node = rs
				for par := p.Parent(rs); par != nil; child, par = par, p.Parent(par) {
					if ifs, ok := par.(*ast.IfStmt); ok && ast.Node(ifs.Body) == child {
						guard = ifs.Cond.Pos()
						break
					}
					if cc, ok := par.(*ast.CaseClause); ok && len(cc.List) > 0 {
						guard = cc.List[0].Pos()
						break
					}
					if _, ok := par.(*ast.FuncDecl); ok {
						break
					}
				}
				switch id.Name {
				case "ErrQueueFull":
					if full == 0 {
						full = guard
					}
				case "ErrQueueNoCredit":
					if credit == 0 {
						credit = guard
					}
				}
				return true
			})
			if credit != 0 {
				R.Check(full != 0 && full < credit, "X2d", f.Name+"/full-before-credit", p.Position(f.Pos()), "ErrQueueFull is decided first",
					f.Name+" tests the burst credit before the hard limit: at the hard limit with less than one credit the caller gets ErrQueueNoCredit instead of ErrQueueFull (and a sender that retries on no-credit spins at a full queue)")
			}
		}
		// X2e: stores that lower softQuota
		walkNoLit(f.Body, func(x ast.Node) bool {
			inc, ok := x.(*ast.IncDecStmt)
			if !ok || inc.Tok != token.DEC {
				return true
			}
			se, ok := ast.Unparen(inc.X).(*ast.SelectorExpr)
			if !ok || se.Sel.Name != "softQuota" {
				return true
			}
			guarded := false
			var child ast.Node = inc
			for par := p.Parent(inc); par != nil; child, par = par, p.Parent(par) {
				if ifs, ok := par.(*ast.IfStmt); ok && p.inside(child, ifs.Body) {
					ast.Inspect(ifs.Cond, func(y ast.Node) bool {
						be, ok := y.(*ast.BinaryExpr)
						if !ok {
							return true
						}
						l, r := exprStr(be.X), exprStr(be.Y)
						if (be.Op == token.GTR && strings.HasSuffix(l, ".softQuota") && r == "1") || (be.Op == token.GEQ && strings.HasSuffix(l, ".softQuota") && r == "2") || (be.Op == token.LSS && l == "1" && strings.HasSuffix(r, ".softQuota")) {
							guarded = true
						}
						return true
					})
				}
				if _, ok := par.(*ast.FuncDecl); ok {
					break
				}
			}
			R.Check(guarded, "X2e", f.Name+"/quota-floor", p.Position(inc.Pos()), "softQuota-- under softQuota > 1",
				f.Name+" lowers softQuota without the `softQuota > 1` floor: the quota can reach 0, cap() is then 0 and a blocking push waits on an empty deque for ever (the broker's event loop wedges in Send)")
			_ = info
			return true
		})
	}
}

// ruleN5: in an options Validate, a default that is computed from another
// field is assigned after that field's own default.
func ruleN5(c *Ctx) {
	R := c.R
	p := c.P
	R.Rule("N5", "in QueueOptions.Validate a default computed from another option field is assigned after that field's own default (BurstCredit defaults to the soft quota, which itself defaults to the hard limit)", 1)
	f := p.FuncNamed("pubsub.(*QueueOptions).Validate")
	if f == nil {
		R.Fail("N5", "pubsub.(*QueueOptions).Validate", "-", "not found")
		return
	}
	recv := recvObject(f)
	info := f.Info()
	type asg struct {
		field string
		pos   token.Pos
		reads map[string]bool
	}
	var all []asg
	walkNoLit(f.Body, func(x ast.Node) bool {
		as, ok := x.(*ast.AssignStmt)
		if !ok || len(as.Lhs) != 1 || len(as.Rhs) != 1 {
			return true
		}
		se, ok := ast.Unparen(as.Lhs[0]).(*ast.SelectorExpr)
		if !ok {
			return true
		}
		if id, ok := ast.Unparen(se.X).(*ast.Ident); !ok || info.Uses[id] != recv {
			return true
		}
		a := asg{field: se.Sel.Name, pos: as.Pos(), reads: map[string]bool{}}
		ast.Inspect(as.Rhs[0], func(y ast.Node) bool {
			if r, ok := y.(*ast.SelectorExpr); ok {
				if id, ok := ast.Unparen(r.X).(*ast.Ident); ok && info.Uses[id] == recv {
					a.reads[r.Sel.Name] = true
				}
			}
			return true
		})
		all = append(all, a)
		return true
	})
	n := 0
	for _, a := range all {
		for g := range a.reads {
			if g == a.field {
				continue
			}
			for _, b := range all {
				if b.field == g {
					n++
					R.Check(b.pos < a.pos, "N5", fmt.Sprintf("pubsub.(*QueueOptions).Validate/%s<-%s", a.field, g), p.Position(a.pos), "the default of "+g+" is assigned first",
						fmt.Sprintf("Validate computes the default of %s from %s before %s has received its own default: with both unset the queue starts with the raw (zero or negative) value as burst credit, and is refused pushes the admission rules allow", a.field, g, g))
				}
			}
		}
	}
	if n == 0 {
		R.OK("N5", "pubsub.(*QueueOptions).Validate/no-dependent-defaults", p.Position(f.Pos()), "no default depends on another defaulted field")
	}
}

// ---------------------------------------------------------------- W9b

// ruleW9b: inside the Queue iterator's wait loop, "closed → io.EOF" is the last
// thing looked at before parking: nothing that can still discover an unseen
// item (a cursor reset) comes after it.
func ruleW9b(c *Ctx) {
	R := c.R
	p := c.P
	R.Rule("W9b", "in the Queue iterator's wait loop the closed test that ends the iteration comes after every cursor reset in the loop body, and a reset that found items leaves the loop (closed is reported only when there is nothing left to take)", 1)
	f := p.FuncNamed("pubsub.(*Queue).Producer")
	at := "pubsub.(*Queue).Producer$1/closed-last"
	if f == nil || len(f.Lits) == 0 {
		R.Fail("W9b", at, "-", "not found")
		return
	}
	lit := f.Lits[0]
	info := lit.Info()
	var loop *ast.ForStmt
	walkNoLit(lit.Body, func(x ast.Node) bool {
		if fs, ok := x.(*ast.ForStmt); ok && loop == nil {
			hasWait := false
			ast.Inspect(fs.Body, func(y ast.Node) bool {
				if call, ok := y.(*ast.CallExpr); ok && strings.Contains(callName(info, call), "unsafeWaitFor") {
					hasWait = true
				}
				return true
			})
			if hasWait {
				loop = fs
			}
		}
		return true
	})
	if loop == nil {
		R.Undecided("W9b", at, p.Position(f.Pos()), "no wait loop found in the Queue iterator")
		return
	}
	var closedTest token.Pos
	var lastReset token.Pos
	var cursor types.Object
	// the cursor is the variable the loop condition dereferences
	ast.Inspect(loop.Cond, func(y ast.Node) bool {
		if se, ok := y.(*ast.SelectorExpr); ok && se.Sel.Name == "link" && cursor == nil {
			if id, ok := ast.Unparen(se.X).(*ast.Ident); ok {
				cursor = info.Uses[id]
			}
		}
		return true
	})
	resetThenLeaves := true
	walkNoLit(loop.Body, func(x ast.Node) bool {
		switch t := x.(type) {
		case *ast.IfStmt:
			if se, ok := ast.Unparen(t.Cond).(*ast.SelectorExpr); ok && se.Sel.Name == "closed" && containsReturn(t.Body) && closedTest == 0 {
				closedTest = t.Pos()
			}
		case *ast.AssignStmt:
			if len(t.Lhs) == 1 {
				if id, ok := ast.Unparen(t.Lhs[0]).(*ast.Ident); ok && cursor != nil && info.Uses[id] == cursor {
					lastReset = t.Pos()
					// the statements after the reset in its block: `if cursor.link != nil { break }`
					if blk, ok := p.Parent(t).(*ast.BlockStmt); ok {
						found := false
						for _, s := range blk.List {
							if s.Pos() <= t.Pos() {
								continue
							}
							if ifs, ok := s.(*ast.IfStmt); ok && strings.Contains(exprStr(ifs.Cond), ".link != nil") {
								for _, b := range ifs.Body.List {
									if br, ok := b.(*ast.BranchStmt); ok && br.Tok == token.BREAK {
										found = true
									}
								}
							}
							if br, ok := s.(*ast.BranchStmt); ok && br.Tok == token.CONTINUE {
								found = true // re-evaluates the loop condition, which looks at the new cursor
							}
						}
						if !found {
							resetThenLeaves = false
						}
					}
				}
			}
		}
		return true
	})
	ok := closedTest != 0 && (lastReset == 0 || lastReset < closedTest) && resetThenLeaves
	R.Check(ok, "W9b", at, p.Position(loop.Pos()), "cursor reset, then closed → EOF, then wait", "the Queue iterator tests `closed` before it has reset a stale cursor (or does not look at the reset cursor's successor): when the cursor's entry was removed, the queue refilled and was then closed, the iterator reports io.EOF although unseen, never-removed items are queued")
}

// ---------------------------------------------------------------- X7b / N6  (constructor wiring)

func ruleCtorWiring(c *Ctx) {
	R := c.R
	p := c.P
	R.Rule("X7b", "NewQueue builds every queue on the quota tracker made from the validated options (the soft quota adapts even when it starts at the hard limit, so no other tracker is equivalent); NewUnlimitedQueue on the no-limit tracker", 2)
	R.Rule("N6", "DequeOptions.Validate validates the very QueueOptions object NewDeque then builds the tracker from (Validate writes the defaults through that pointer; validating a copy leaves SoftQuota/BurstCredit at zero)", 1)
	want := map[string]string{"pubsub.NewQueue": "queueLimitTrackerImpl", "pubsub.NewUnlimitedQueue": "queueNoLimitTrackerImpl"}
	for name, tracker := range want {
		f := p.FuncNamed(name)
		if f == nil {
			R.Fail("X7b", name, "-", "not found")
			continue
		}
		info := f.Info()
		bad, n := "", 0
		walkNoLit(f.Body, func(x ast.Node) bool {
			call, ok := x.(*ast.CallExpr)
			if !ok || callName(info, call) != "pubsub.makeQueue" || len(call.Args) != 1 {
				return true
			}
			n++
			ct := concreteTypeOf(p, f, call.Args[0], 0)
			if ct == nil || ct.Obj().Name() != tracker {
				got := "?"
				if ct != nil {
					got = ct.Obj().Name()
				}
				bad = fmt.Sprintf("%s at %s", got, p.Position(call.Pos()))
			}
			return true
		})
		R.Check(n > 0 && bad == "", "X7b", name+"/tracker", p.Position(f.Pos()), "makeQueue("+tracker+")", fmt.Sprintf("%s builds a queue on %s instead of %s: the admission rules (soft quota decay, burst credit) no longer apply on that path — e.g. a queue with SoftQuota == HardLimit admits items the rules refuse after it was drained below half", name, bad, tracker))
	}
	f := p.FuncNamed("pubsub.(*DequeOptions).Validate")
	if f == nil {
		R.Fail("N6", "pubsub.(*DequeOptions).Validate", "-", "not found")
		return
	}
	info := f.Info()
	ok, n := true, 0
	walkNoLit(f.Body, func(x ast.Node) bool {
		call, isCall := x.(*ast.CallExpr)
		if !isCall || callName(info, call) != "pubsub.(*QueueOptions).Validate" {
			return true
		}
		n++
		// the receiver must be the field opts.QueueOptions itself (a pointer), not a local copy
		se, isSel := ast.Unparen(recvExpr(call)).(*ast.SelectorExpr)
		if !isSel || se.Sel.Name != "QueueOptions" {
			ok = false
		}
		return true
	})
	R.Check(ok && n > 0, "N6", "pubsub.(*DequeOptions).Validate/in-place", p.Position(f.Pos()), "opts.QueueOptions.Validate() on the shared object", "DequeOptions.Validate validates a copy of the QueueOptions (or does not validate them): the defaults are not written to the object NewDeque reads, so a deque built from QueueOptions{HardLimit: n} starts with quota 0 and refuses every push")
}
