package main

import (
	"fmt"
	"go/ast"
	"go/token"
	"go/types"
	"strings"
)

// ruleL4: one critical section per operation — no explicit (non-deferred)
// unlock inside a function that touches the owner's guarded state.
func ruleL4(c *Ctx, owners map[string]bool, floor int) {
	R := c.R
	p := c.P
	la := c.Locks()
	R.Rule("L4", "every function (and iterator closure) that touches the guarded state of Queue/Deque is a single critical section: no unlock that is followed, on some path of the same function, by another acquisition — so no other operation can interleave between its reads, its decision to wait and its writes", floor)
	touched := map[*Func]bool{}
	for _, a := range la.accesses {
		owner := a.Field.Pkg + "." + a.Field.Type
		if owners[owner] || owners[ownerOfGuard(la, a.Field)] {
			touched[a.F] = true
		}
	}
	for f := range touched {
		info := f.Info()
		bad := ""
		fl := newFlow(f)
		isAcquire := func(n ast.Node) bool {
			hit := false
			walkNoLit(n, func(y ast.Node) bool {
				if c2, ok := y.(*ast.CallExpr); ok {
					if fn := calleeFunc(info, c2); fn != nil {
						if _, isL := lockFuncs[fname(fn)]; isL {
							hit = true
						}
						if _, isA := la.acquireW[fn]; isA {
							hit = true
						}
					}
				}
				return !hit
			})
			return hit
		}
		walkNoLit(f.Body, func(x ast.Node) bool {
			call, ok := x.(*ast.CallExpr)
			if !ok {
				return true
			}
			fn := calleeFunc(info, call)
			if fn == nil {
				return true
			}
			_, isRelW := la.releaseW[fn]
			if !unlockFuncs[fname(fn)] && !isRelW {
				return true
			}
			if _, isDefer := p.Parent(call).(*ast.DeferStmt); isDefer {
				return true
			}
			// an explicit unlock that is followed, on some path, by another
			// acquisition in the same function splits the operation in two
			if from, ok := fl.At(call); ok {
				for _, n := range fl.reachableFrom(from) {
					if isAcquire(n) {
						bad = p.Position(call.Pos())
					}
				}
			}
			return true
		})
		R.Check(bad == "", "L4", f.Name, p.Position(f.Pos()), "one critical section (no unlock that is followed by a re-lock)", fmt.Sprintf("%s unlocks at %s and locks again later: what it read before the unlock can be stale when it acts on it (lost wake-up window, nil link after a concurrent Remove)", f.Name, bad))
	}
}

// rulePS1: who may send — the only channel send in package fun is the one in
// ChanSend.Write (every pipe hand-off goes through it).
func rulePS1(c *Ctx) {
	R := c.R
	p := c.P
	R.Rule("PS1", "the only channel send statement of package fun is in ChanSend.Write: every hand-off of an item between pipeline goroutines goes through that one select", 1)
	n := 0
	for _, f := range p.FuncsIn("fun") {
		for _, op := range chanOpsIn(f) {
			if !op.Send {
				continue
			}
			n++
			R.Check(f.Name == "fun.ChanSend.Write", "PS1", fmt.Sprintf("%s/send:%s", f.Name, exprStr(op.Ch)), p.Position(op.Node.Pos()), "the pipeline's single send site", f.Name+" sends on a channel directly, bypassing ChanSend.Write (its ctx/closed-channel handling and blocking-mode contract)")
		}
	}
	if n == 0 {
		R.Fail("PS1", "fun.ChanSend.Write", "-", "no send statement found in package fun")
	}
}

// ruleForcePush: Force push evicts from the opposite end.
func ruleForcePush(c *Ctx) {
	R := c.R
	p := c.P
	R.Rule("D7", "ForcePushFront evicts from the back (pop(root.prev)) and inserts after the root; ForcePushBack evicts from the front (pop(root.next)) and inserts after root.prev; the eviction happens only when cap()==len()", 2)
	want := map[string][2]string{
		"pubsub.(*Deque).ForcePushFront": {"dq.root.prev", "dq.root"},
		"pubsub.(*Deque).ForcePushBack":  {"dq.root.next", "dq.root.prev"},
	}
	for name, w := range want {
		f := p.FuncNamed(name)
		if f == nil {
			R.Fail("D7", name, "-", "not found")
			continue
		}
		robj := recvObject(f)
		norm := func(e ast.Expr) string {
			s := exprStr(e)
			if robj != nil {
				s = strings.Replace(s, robj.Name()+".", "dq.", 1)
			}
			return s
		}
		popArg, addArg, guarded := "", "", false
		walkNoLit(f.Body, func(x ast.Node) bool {
			call, ok := x.(*ast.CallExpr)
			if !ok {
				return true
			}
			switch selName(call) {
			case "pop":
				if len(call.Args) == 1 {
					popArg = norm(call.Args[0])
					for y := p.Parent(call); y != nil; y = p.Parent(y) {
						if ifs, isIf := y.(*ast.IfStmt); isIf {
							g := normGuard(exprStr(ifs.Cond))
							if strings.Contains(g, "cap()") && strings.Contains(g, "len()") && (strings.Contains(g, "==") || strings.Contains(g, "<=")) {
								guarded = true
							}
						}
					}
				}
			case "addAfter":
				if len(call.Args) == 2 {
					addArg = norm(call.Args[1])
				}
			}
			return true
		})
		ok := popArg == w[0] && addArg == w[1] && guarded
		R.Check(ok, "D7", name, p.Position(f.Pos()), fmt.Sprintf("evicts %s when full, inserts after %s", popArg, addArg),
			fmt.Sprintf("%s: evicts %q (want %s), inserts after %q (want %s), eviction guarded by cap()==len(): %v — a force push must evict exactly one item from the opposite end, and only when the deque is full", name, popArg, w[0], addArg, w[1], guarded))
	}
}

// ---------------------------------------------------------------- C08

func ruleBroker(c *Ctx) {
	R := c.R
	p := c.P
	R.Rule("K1", "the subscriber set is mutated (Ensure/Store/Delete/…) only inside the broker's event-loop goroutine, which handles one request at a time", 2)
	R.Rule("K2c", "the subscribers a message is sent to are read from the subscriber set in the loop iteration that received the message; nothing but the set itself is carried over from one message to the next", 1)
	R.Rule("K2", "a dispatch worker handles one message at a time: its loop is Receive → dispatchMessage → next, dispatchMessage sends the received message (not another value) to each subscriber through sendMsg, and the parallel branch waits for all its sends before returning", 3)
	R.Rule("K3", "Stop reaches the broker's cancel function; the event loop cancels the broker when the distributor is closed", 2)
	f := p.FuncNamed("pubsub.(*Broker).startQueueWorkers")
	if f == nil {
		R.Fail("K1", "anchor", "-", "pubsub.(*Broker).startQueueWorkers not found")
		return
	}
	info := f.Info()
	// the subscriber set variable: a local *adt.Map
	var subs types.Object
	ast.Inspect(f.Body, func(x ast.Node) bool {
		if id, ok := x.(*ast.Ident); ok {
			if v, ok := info.Defs[id].(*types.Var); ok && typeIs(v.Type(), "adt", "Map") {
				subs = v
			}
		}
		return true
	})
	if subs == nil {
		R.Fail("K1", "pubsub.(*Broker).startQueueWorkers/subs", p.Position(f.Pos()), "the subscriber set (adt.Map) is no longer a local of startQueueWorkers")
		return
	}
	mutators := map[string]bool{"Ensure": true, "Store": true, "Delete": true, "Set": true, "EnsureStore": true, "EnsureSet": true, "EnsureDefault": true, "Get": true}
	var loopLit *Func
	muts := 0
	bad := ""
	var visit func(g *Func)
	visit = func(g *Func) {
		walkNoLit(g.Body, func(x ast.Node) bool {
			call, ok := x.(*ast.CallExpr)
			if !ok || !mutators[selName(call)] {
				return true
			}
			if id, ok := ast.Unparen(recvExpr(call)).(*ast.Ident); ok && info.Uses[id] == subs {
				muts++
				if loopLit == nil {
					loopLit = g
				} else if loopLit != g {
					bad = fmt.Sprintf("the subscriber set is mutated in %s and in %s", loopLit.Name, g.Name)
				}
			}
			return true
		})
		for _, l := range g.Lits {
			visit(l)
		}
	}
	visit(f)
	switch {
	case muts == 0:
		R.Fail("K1", "pubsub.(*Broker).startQueueWorkers/subs", p.Position(f.Pos()), "subscriptions are never recorded")
	case bad != "":
		R.Fail("K1", "pubsub.(*Broker).startQueueWorkers/subs", p.Position(f.Pos()), bad+": subscribe/unsubscribe are no longer serialised with each other")
	default:
		_, isGo := p.Parent(p.Parent(loopLit.Lit)).(*ast.GoStmt)
		// exactly one such goroutine: the go statement is not in a loop
		inLoop := f.enclosingLoop(loopLit.Lit) != nil
		R.Check(isGo && !inLoop, "K1", "pubsub.(*Broker).startQueueWorkers/subs", p.Position(loopLit.Pos()), fmt.Sprintf("%d mutation sites, all in the single event-loop goroutine %s", muts, loopLit.Name), "the goroutine that mutates the subscriber set is started in a loop (several event loops)")
	}
	// every other use of subs outside the event loop is read-only (Keys/Len/Iterator)
	readOnly := true
	ast.Inspect(f.Body, func(x ast.Node) bool {
		if id, ok := x.(*ast.Ident); ok && info.Uses[id] == subs {
			if se, ok := p.Parent(id).(*ast.SelectorExpr); ok && !mutators[se.Sel.Name] {
				switch se.Sel.Name {
				case "Keys", "Len", "Iterator", "Values", "Check", "Load", "Range":
				default:
					readOnly = false
				}
			}
		}
		return true
	})
	R.Check(readOnly, "K1", "pubsub.(*Broker).startQueueWorkers/readers", p.Position(f.Pos()), "dispatch workers only read the set", "a use of the subscriber set outside the event loop is not a read")
	// K2: dispatch worker loop
	var worker *Func
	for _, l := range f.Lits {
		if _, isGo := p.Parent(p.Parent(l.Lit)).(*ast.GoStmt); isGo && l != loopLit {
			worker = l
		}
	}
	if worker == nil {
		R.Fail("K2", "pubsub.(*Broker).startQueueWorkers/worker", p.Position(f.Pos()), "no dispatch worker goroutine found")
	} else {
		evs := linearise(worker, nil)
		ri, di := -1, -1
		var dcall *ast.CallExpr
		var msgVar types.Object
		for i, e := range evs {
			if call, ok := e.Node.(*ast.CallExpr); ok {
				switch callName(info, call) {
				case "pubsub.Distributor.Receive":
					ri = i
					if as, ok := p.Parent(call).(*ast.AssignStmt); ok && len(as.Lhs) >= 1 {
						if id, ok := as.Lhs[0].(*ast.Ident); ok {
							msgVar = info.Defs[id]
						}
					}
				case "pubsub.(*Broker).dispatchMessage":
					di, dcall = i, call
				}
			}
		}
		ok := ri >= 0 && di > ri && dcall != nil
		why := "the worker loop is not Receive followed by dispatchMessage"
		if ok {
			// the message argument is the received variable, no go statement around the dispatch
			last := dcall.Args[len(dcall.Args)-1]
			if id, isId := ast.Unparen(last).(*ast.Ident); !isId || info.Uses[id] != msgVar {
				ok, why = false, "dispatchMessage is not given the message that was just received"
			}
			for y := p.Parent(dcall); y != nil && y != ast.Node(worker.Lit); y = p.Parent(y) {
				if _, isGo := y.(*ast.GoStmt); isGo {
					ok, why = false, "dispatchMessage runs in its own goroutine: one worker overlaps two messages, so subscribers can see them out of order"
				}
			}
			// error from Receive ends the worker
			// every error from Receive keeps the (zero) message away from the dispatch: the guard is
			// `err != nil` (alone or as a disjunct — a conjunct would let some errors through), its body
			// leaves the iteration, and it dominates the dispatch
			errRet := false
			wfl := newFlow(worker)
			walkNoLit(worker.Body, func(x ast.Node) bool {
				ifs, isIf := x.(*ast.IfStmt)
				if !isIf || !blockLeaves(ifs.Body) || !wfl.Dominates(ifs.Cond, dcall) || p.inside(dcall, ifs.Body) {
					return true
				}
				var disj func(e ast.Expr) bool
				disj = func(e ast.Expr) bool {
					e = ast.Unparen(e)
					if be, isBin := e.(*ast.BinaryExpr); isBin {
						if be.Op == token.LOR {
							return disj(be.X) || disj(be.Y)
						}
						if be.Op == token.NEQ {
							return errNilCmp(info, be, token.NEQ)
						}
					}
					return false
				}
				if disj(ifs.Cond) {
					errRet = true
				}
				return true
			})
			if !errRet {
				ok, why = false, "not every failed Receive keeps its (zero) message away from dispatchMessage: a value that was never published is delivered to the subscribers"
			}
		}
		R.Check(ok, "K2", "pubsub.(*Broker).startQueueWorkers/worker", p.Position(worker.Pos()), "for { msg := Receive; dispatchMessage(msg) }", why)
		// K2c: the targets of a message are read from the subscriber set in the iteration that received it
		if dcall != nil && len(dcall.Args) >= 2 {
			var loop *ast.ForStmt
			for y := p.Parent(dcall); y != nil && y != ast.Node(worker.Lit); y = p.Parent(y) {
				if fs, isFor := y.(*ast.ForStmt); isFor && loop == nil {
					loop = fs
				}
			}
			bad, reachesSubs := "", false
			seen := map[types.Object]bool{}
			var visit func(e ast.Expr, depth int)
			visit = func(e ast.Expr, depth int) {
				if depth > 6 {
					return
				}
				ast.Inspect(e, func(y ast.Node) bool {
					id, isId := y.(*ast.Ident)
					if !isId {
						return true
					}
					v, isVar := info.Uses[id].(*types.Var)
					if !isVar || v.IsField() || seen[v] {
						return true
					}
					seen[v] = true
					if strings.Contains(v.Type().String(), "adt.Map[") {
						reachesSubs = true
						return true
					}
					if loop != nil && v.Pos() >= loop.Body.Pos() && v.Pos() < loop.Body.End() {
						// bound in this iteration: look at everything assigned to it in the loop
						walkNoLit(loop.Body, func(z ast.Node) bool {
							if as, isAs := z.(*ast.AssignStmt); isAs {
								for i, l := range as.Lhs {
									if lid, isL := l.(*ast.Ident); isL && (info.Defs[lid] == types.Object(v) || info.Uses[lid] == types.Object(v)) {
										if len(as.Rhs) == len(as.Lhs) {
											visit(as.Rhs[i], depth+1)
										} else if len(as.Rhs) == 1 {
											visit(as.Rhs[0], depth+1)
										}
									}
								}
							}
							return true
						})
						return true
					}
					switch {
					case typeIs(v.Type(), "context", "Context"), v.Type().String() == "int", v.Type().String() == "bool":
					default:
						if _, isSig := v.Type().Underlying().(*types.Signature); !isSig && bad == "" {
							bad = fmt.Sprintf("%s (%s), declared outside the per-message loop", v.Name(), v.Type().String())
						}
					}
					return true
				})
			}
			visit(dcall.Args[1], 0)
			switch {
			case bad != "":
				R.Fail("K2c", "pubsub.(*Broker).startQueueWorkers/targets", p.Position(dcall.Pos()), "the targets handed to dispatchMessage depend on "+bad+": state carried from one message to the next, so a subscriber can be missed, or reached twice, by one publication")
			case !reachesSubs:
				R.Fail("K2c", "pubsub.(*Broker).startQueueWorkers/targets", p.Position(dcall.Pos()), "the targets handed to dispatchMessage are not read from the subscriber set")
			default:
				R.OK("K2c", "pubsub.(*Broker).startQueueWorkers/targets", p.Position(dcall.Pos()), "targets = "+exprStr(dcall.Args[1])+", read from the subscriber set per message")
			}
		}
	}
	if dm := p.FuncNamed("pubsub.(*Broker).dispatchMessage"); dm != nil {
		dinfo := dm.Info()
		var msgParam types.Object
		for i := 0; ; i++ {
			o := paramObj(dm, i)
			if o == nil {
				break
			}
			msgParam = o
		}
		sends, bad := 0, ""
		var visit2 func(g *Func)
		visit2 = func(g *Func) {
			walkNoLit(g.Body, func(x ast.Node) bool {
				call, ok := x.(*ast.CallExpr)
				if !ok || callName(dinfo, call) != "pubsub.(*Broker).sendMsg" {
					return true
				}
				sends++
				arg := ast.Unparen(call.Args[1])
				id, isId := arg.(*ast.Ident)
				if !isId {
					bad = "sendMsg is given " + exprStr(arg) + " instead of the dispatched message"
					return true
				}
				obj := dinfo.Uses[id]
				if obj != msgParam {
					// parameter of the go-literal bound to msg at the call
					okBound := false
					if lit := p.EnclosingFunc(call); lit != nil && lit.Lit != nil {
						if idx, isP := paramIndex(lit, obj); isP && idx >= 0 {
							if gc, isCall := p.Parent(lit.Lit).(*ast.CallExpr); isCall && idx < len(gc.Args) {
								if aid, isId := ast.Unparen(gc.Args[idx]).(*ast.Ident); isId && dinfo.Uses[aid] == msgParam {
									okBound = true
								}
							}
						}
					}
					if !okBound {
						bad = "sendMsg is given " + id.Name + ", which is not the dispatched message"
					}
				}
				return true
			})
			for _, l := range g.Lits {
				visit2(l)
			}
		}
		visit2(dm)
		R.Check(sends >= 1 && bad == "", "K2", "pubsub.(*Broker).dispatchMessage/value", p.Position(dm.Pos()), fmt.Sprintf("%d sendMsg sites, each forwarding the dispatched message", sends), "dispatchMessage: "+bad+" (a subscriber would receive a value that was never published)")
	}
	// K3
	if st := p.FuncNamed("pubsub.(*Broker).Stop"); st != nil {
		ok := false
		walkNoLit(st.Body, func(x ast.Node) bool {
			if call, isCall := x.(*ast.CallExpr); isCall && strings.HasSuffix(exprStr(call.Fun), ".close") {
				ok = true
			}
			return true
		})
		R.Check(ok, "K3", "pubsub.(*Broker).Stop", p.Position(st.Pos()), "calls b.close()", "Stop does not call the broker's cancel function: the event loop and workers keep running and Wait never returns")
	}
	if loopLit != nil {
		ok := false
		walkNoLit(loopLit.Body, func(x ast.Node) bool {
			if call, isCall := x.(*ast.CallExpr); isCall && strings.HasSuffix(exprStr(call.Fun), ".close") {
				ok = true
			}
			return true
		})
		R.Check(ok, "K3", "pubsub.(*Broker).startQueueWorkers/closed-distributor", p.Position(loopLit.Pos()), "the event loop cancels the broker when the distributor reports closed", "the event loop no longer stops the broker when its distributor is closed: dispatch workers wait for ever")
	}
}

// ---------------------------------------------------------------- C11

var srvMustUse = map[string]string{
	"srv.(*Service).Start":     "Service.Start",
	"srv.(*Service).Wait":      "Service.Wait",
	"srv.(*Service).waitFor":   "Service.waitFor",
	"fun.Worker.Run":           "Worker.Run",
	"itertool.ParallelForEach": "ParallelForEach",
	"itertool.Process":         "itertool.Process",
	"pubsub.(*Queue).Add":      "Queue.Add",
}

func ruleSrv(c *Ctx) {
	R := c.R
	p := c.P
	R.Rule("O1", "in package srv no error returned by Service.Start/Wait/waitFor, Worker.Run, ParallelForEach or Queue.Add is dropped: it is returned, added to a collector, handed to an observer, or asserted — the one tabled exception is `_ = s.Start(ctx)` in Service.Worker", 12)
	R.Rule("O2", "the Cleanup service runs its jobs with ContinueOnError and ContinueOnPanic and recover-wraps each job, so a failing or panicking cleanup never prevents the others", 3)
	R.Rule("O3", "the orchestrator's run loop takes Remove before Wait (queued services are drained even after cancellation), starts or awaits every service in a counted goroutine, and returns only after wg.Wait", 3)
	for _, f := range p.FuncsIn("srv") {
		info := f.Info()
		walkNoLit(f.Body, func(x ast.Node) bool {
			call, ok := x.(*ast.CallExpr)
			if !ok {
				return true
			}
			what, ok := srvMustUse[callName(info, call)]
			if !ok {
				return true
			}
			at := fmt.Sprintf("%s/%s", f.Name, what)
			pos := p.Position(call.Pos())
			switch par := p.Parent(call).(type) {
			case *ast.ExprStmt:
				R.Fail("O1", at, pos, fmt.Sprintf("the error returned by %s is discarded: a failure of that service/job never reaches Wait or the handler", what))
			case *ast.AssignStmt:
				blank := true
				for _, l := range par.Lhs {
					if id, isId := l.(*ast.Ident); !isId || id.Name != "_" {
						blank = false
					}
				}
				if blank {
					if why, ok := o1Exceptions[f.Name+"/"+what]; ok {
						R.Exception("O1", f.Name+": "+why)
						R.OK("O1", at, pos, "tabled: "+why)
					} else {
						R.Fail("O1", at, pos, fmt.Sprintf("the error returned by %s is assigned to _", what))
					}
				} else {
					R.OK("O1", at, pos, "result bound to a variable")
				}
			case *ast.GoStmt, *ast.DeferStmt:
				R.Fail("O1", at, pos, fmt.Sprintf("%s is started with go/defer: its error is lost", what))
			default:
				R.OK("O1", at, pos, fmt.Sprintf("result used (%T)", par))
			}
			return true
		})
	}
	// O2 (resolved callees, not text)
	if f := p.FuncNamed("srv.Cleanup"); f != nil {
		pos := p.Position(f.Pos())
		info := f.Info()
		var pfe *ast.CallExpr
		ast.Inspect(f.Body, func(x ast.Node) bool {
			if call, ok := x.(*ast.CallExpr); ok && callName(info, call) == "itertool.ParallelForEach" {
				pfe = call
			}
			return true
		})
		if pfe == nil || len(pfe.Args) < 3 {
			R.Fail("O2", "srv.Cleanup/ParallelForEach", pos, "the cleanup jobs are no longer run through itertool.ParallelForEach(ctx, jobs, fn, options…)")
		} else {
			opts := map[string]bool{}
			for _, a := range pfe.Args[3:] {
				if oc, ok := ast.Unparen(a).(*ast.CallExpr); ok {
					opts[callName(info, oc)] = true
				}
			}
			R.Check(opts["fun.WorkerGroupConfContinueOnError"], "O2", "srv.Cleanup/ContinueOnError", pos, "option passed", "Cleanup no longer passes WorkerGroupConfContinueOnError: the first failing cleanup stops the rest")
			R.Check(opts["fun.WorkerGroupConfContinueOnPanic"], "O2", "srv.Cleanup/ContinueOnPanic", pos, "option passed", "Cleanup no longer passes WorkerGroupConfContinueOnPanic: a panicking cleanup stops the rest")
			lit, isLit := ast.Unparen(pfe.Args[2]).(*ast.FuncLit)
			recovered, collected, nonNil := false, false, ""
			if isLit {
				ast.Inspect(lit.Body, func(x ast.Node) bool {
					switch t := x.(type) {
					case *ast.CallExpr:
						switch callName(info, t) {
						case "fun.Worker.WithRecover":
							recovered = true
						case "erc.(*Collector).Add":
							// the job's own result goes to the collector
							if len(t.Args) == 1 {
								ast.Inspect(resolveLocal(f, t.Args[0]), func(y ast.Node) bool {
									if c2, ok := y.(*ast.CallExpr); ok && callName(info, c2) == "fun.Worker.Run" {
										collected = true
									}
									return true
								})
							}
						}
					case *ast.ReturnStmt:
						for _, r := range t.Results {
							if !isNilIdent(info, r) {
								nonNil = p.Position(t.Pos())
							}
						}
					}
					return true
				})
			}
			R.Check(isLit && recovered, "O2", "srv.Cleanup/WithRecover", pos, "each job is recover-wrapped", "cleanup jobs are not recover-wrapped")
			R.Check(isLit && collected && nonNil == "", "O2", "srv.Cleanup/job-error-collected", pos, "the job's error goes to the service's collector and the worker function returns nil",
				"the per-job function hands the job's error to the worker group ("+nonNil+") instead of the service's own collector: the group's classification treats io.EOF and context errors as terminal for that worker and does not record them, so such a job's error is lost and, with enough of them, the remaining accepted jobs never run")
		}
	} else {
		R.Fail("O2", "srv.Cleanup", "-", "not found")
	}
	// O3
	if f := p.FuncNamed("srv.(*Orchestrator).Service"); f != nil && len(f.Lits) > 0 {
		run := f.Lits[0]
		evs := linearise(run, nil)
		ri, wi := -1, -1
		for i, e := range evs {
			if call, ok := e.Node.(*ast.CallExpr); ok {
				switch callName(run.Info(), call) {
				case "pubsub.(*Queue).Remove":
					if ri < 0 {
						ri = i
					}
				case "pubsub.(*Queue).Wait":
					if wi < 0 {
						wi = i
					}
				}
			}
		}
		R.Check(ri >= 0 && wi > ri, "O3", "srv.(*Orchestrator).Service/remove-before-wait", p.Position(run.Pos()), "Remove, else Wait", "the orchestrator loop does not try Remove before Wait: once its context is cancelled, services that were already queued are never started or awaited")
		// return after wg.Wait
		fl := newFlow(run)
		var waitCall ast.Node
		walkNoLit(run.Body, func(x ast.Node) bool {
			if call, ok := x.(*ast.CallExpr); ok && isWGMethod(callName(run.Info(), call), "Wait") {
				waitCall = call
			}
			return true
		})
		ok := waitCall != nil
		walkNoLit(run.Body, func(x ast.Node) bool {
			if rs, isRet := x.(*ast.ReturnStmt); isRet && waitCall != nil && !fl.Dominates(waitCall, rs) {
				ok = false
			}
			return true
		})
		R.Check(ok, "O3", "srv.(*Orchestrator).Service/wait-before-return", p.Position(run.Pos()), "every return is after wg.Wait()", "the orchestrator's Run can return without waiting for the services it started")
		// a service the orchestrator starts itself is awaited unconditionally: waitFor(ctx) gives up as
		// soon as the orchestrator's context is cancelled, i.e. exactly when the services are shutting down
		for _, l := range run.Lits {
			levs := linearise(l, nil)
			si, wi2, wname := -1, -1, ""
			for i, e := range levs {
				if call, ok := e.Node.(*ast.CallExpr); ok {
					switch n := callName(run.Info(), call); n {
					case "srv.(*Service).Start":
						si = i
					case "srv.(*Service).Wait", "srv.(*Service).waitFor":
						if si >= 0 && wi2 < 0 {
							wi2, wname = i, n
						}
					}
				}
			}
			if si < 0 {
				continue
			}
			R.Check(wi2 > si && wname == "srv.(*Service).Wait", "O3", "srv.(*Orchestrator).Service/await-started", p.Position(l.Pos()), "Start, then the unconditional Service.Wait",
				fmt.Sprintf("the goroutine that starts a service awaits it with %q: a wait bounded by the orchestrator's own context returns as soon as that context is cancelled, so Run (and Wait) return while the service is still shutting down and its Cleanup error is lost", wname))
		}
		// every started/awaited service error is collected
		adds := 0
		ast.Inspect(run.Body, func(x ast.Node) bool {
			if call, isCall := x.(*ast.CallExpr); isCall && callName(run.Info(), call) == "erc.(*Collector).Add" {
				adds++
			}
			return true
		})
		R.Check(adds >= 4, "O3", "srv.(*Orchestrator).Service/collects", p.Position(run.Pos()), fmt.Sprintf("%d results added to the collector", adds), "fewer than the four service outcomes (running→waitFor, finished→Wait, Start, Wait) are added to the collector")
	} else {
		R.Fail("O3", "srv.(*Orchestrator).Service", "-", "not found")
	}
}

// ruleO4: a service that starts other services under its own context keeps
// running until they have returned. Returning from Run makes the service's run
// goroutine cancel that context (S2), which stops every member at once.
func ruleO4(c *Ctx) {
	R := c.R
	p := c.P
	R.Rule("O4", "a Run function in package srv that starts another Service with Run's own context awaits that service before it returns — Wait() after Start in the starting goroutine, or the service's Wait registered in a queue whose entries Run itself invokes and joins before returning (returning from Run cancels the context the members share)", 2)
	for _, f := range p.FuncsIn("srv") {
		info := f.Info()
		ast.Inspect(f.Body, func(x ast.Node) bool {
			cl, ok := x.(*ast.CompositeLit)
			if !ok {
				return true
			}
			tv, ok := info.Types[cl]
			if !ok || !typeIs(tv.Type, "srv", "Service") {
				return true
			}
			for _, el := range cl.Elts {
				kv, ok := el.(*ast.KeyValueExpr)
				if !ok {
					continue
				}
				if k, ok := kv.Key.(*ast.Ident); !ok || k.Name != "Run" {
					continue
				}
				lit, ok := kv.Value.(*ast.FuncLit)
				if !ok {
					continue
				}
				run := p.byLit[lit]
				if run == nil {
					continue
				}
				checkRunAwaits(c, run)
			}
			return true
		})
	}
}

func checkRunAwaits(c *Ctx, run *Func) {
	R := c.R
	p := c.P
	info := run.Info()
	ctxObj := paramObj(run, 0)
	var all []*Func
	var collect func(g *Func)
	collect = func(g *Func) {
		all = append(all, g)
		for _, l := range g.Lits {
			collect(l)
		}
	}
	collect(run)
	for _, g := range all {
		fl := newFlow(g)
		walkNoLit(g.Body, func(x ast.Node) bool {
			start, ok := x.(*ast.CallExpr)
			if !ok || callName(info, start) != "srv.(*Service).Start" || len(start.Args) != 1 {
				return true
			}
			if id, ok := ast.Unparen(start.Args[0]).(*ast.Ident); !ok || ctxObj == nil || info.Uses[id] != ctxObj {
				return true // started under some other context: Run's return does not cancel it
			}
			member := exprStr(recvExpr(start))
			at := fmt.Sprintf("%s/start(%s)", run.Name, member)
			pos := p.Position(start.Pos())
			// (a) awaited in the same goroutine
			direct := false
			var queue types.Object
			var regCall *ast.CallExpr
			walkNoLit(g.Body, func(y ast.Node) bool {
				if call, ok := y.(*ast.CallExpr); ok && callName(info, call) == "srv.(*Service).Wait" && exprStr(recvExpr(call)) == member && fl.Dominates(start, call) {
					direct = true
				}
				return true
			})
			// the registration may sit in a deferred literal of the starting goroutine
			ast.Inspect(g.Body, func(y ast.Node) bool {
				call, ok := y.(*ast.CallExpr)
				if !ok {
					return true
				}
				switch callName(info, call) {
				case "pubsub.(*Queue).Add":
					// Q.Add(member.Wait)
					if len(call.Args) == 1 {
						if se, ok := ast.Unparen(call.Args[0]).(*ast.SelectorExpr); ok && exprStr(se.X) == member {
							if s := info.Selections[se]; s != nil && s.Kind() == types.MethodVal && fname(s.Obj().(*types.Func).Origin()) == "srv.(*Service).Wait" {
								if id, ok := ast.Unparen(recvExpr(call)).(*ast.Ident); ok {
									queue = info.Uses[id]
									regCall = call
								}
							}
						}
					}
				}
				return true
			})
			if direct && g == run {
				R.OK("O4", at, pos, "Start is followed by "+member+".Wait() in Run itself")
				return true
			}
			if direct {
				// awaited in a goroutine Run starts: Run joins that goroutine, and not only for as long as its own context lasts
				if g.Parent != run {
					R.Fail("O4", at, pos, "the goroutine that starts and awaits "+member+" is not started by Run's own body: the join cannot be decided")
					return true
				}
				rfl := newFlow(run)
				var join *ast.CallExpr
				bounded := ""
				walkNoLit(run.Body, func(y ast.Node) bool {
					call, ok := y.(*ast.CallExpr)
					if !ok || call.Pos() < g.Lit.End() || join != nil {
						return true
					}
					if _, isWait := isWaitCall(info, call); isWait {
						if waitBoundedBy(run, call, ctxObj) {
							bounded = p.Position(call.Pos())
						} else {
							join = call
						}
					}
					return true
				})
				switch {
				case join == nil && bounded != "":
					R.Fail("O4", at, pos, fmt.Sprintf("%s awaits the goroutines that run %s only through a wait bounded by Run's own context (%s): when the group's context ends Run returns at once, the members are still shutting down, and what they return is lost", run.Name, member, bounded))
				case join == nil:
					R.Fail("O4", at, pos, fmt.Sprintf("%s starts and awaits %s in a goroutine it never joins", run.Name, member))
				default:
					okJoin := true
					walkNoLit(run.Body, func(y ast.Node) bool {
						if rs, isRet := y.(*ast.ReturnStmt); isRet && rs.Pos() > g.Lit.End() && !rfl.Dominates(join, rs) {
							okJoin = false
						}
						return true
					})
					R.Check(okJoin, "O4", at, pos, "Start is followed by "+member+".Wait() in a goroutine that Run joins ("+p.Position(join.Pos())+") before it returns", run.Name+" can return without joining the goroutine that awaits "+member)
				}
				return true
			}
			if queue == nil {
				R.Fail("O4", at, pos, fmt.Sprintf("%s starts %s with Run's own context and neither awaits it nor registers its Wait: when Run returns the service's context is cancelled and %s is stopped at once, although neither it nor the group's context ended", run.Name, member, member))
				return true
			}
			// the registration happens whatever Start returned (a member that was already running or already
			// finished reports an error from Start and must be awaited all the same): it is a top-level defer
			// registered before Start, or every path from Start to the goroutine's exit passes it
			always := false
			for x := p.Parent(regCall); x != nil && x != ast.Node(g.Body); x = p.Parent(x) {
				if ds, ok := x.(*ast.DeferStmt); ok {
					if _, top := p.Parent(ds).(*ast.BlockStmt); top && p.Parent(ds) == ast.Node(g.Body) && fl.Dominates(ds, start) {
						always = true
					}
				}
			}
			if !always {
				if from, ok := fl.At(start); ok {
					_, skips := fl.pathToExitAvoiding(from, func(n ast.Node) bool {
						hit := false
						ast.Inspect(n, func(y ast.Node) bool {
							if y == ast.Node(regCall) {
								hit = true
							}
							return !hit
						})
						return hit
					})
					always = !skips
				}
			}
			if !always {
				R.Fail("O4", at, pos, fmt.Sprintf("%s registers %s.Wait only on some paths after Start (%s): a member whose Start reports an error because it is already running or already finished is never awaited, so the group returns before that member has returned and its failure is missing", run.Name, member, p.Position(regCall.Pos())))
				return true
			}
			// (b) the registered waiters are invoked and joined inside Run itself
			why, ok := runInvokesWaiters(p, run, queue, ctxObj)
			if ok {
				R.OK("O4", at, pos, why)
			} else {
				R.Fail("O4", at, pos, fmt.Sprintf("%s starts %s with Run's own context and registers its Wait in %s, but Run %s: Run returns as soon as the members have been started, the service then cancels the shared context and every member is stopped at once (they are only awaited afterwards)", run.Name, member, queue.Name(), why))
			}
			return true
		})
	}
}

// runInvokesWaiters: in run's own body there is a loop over q.Iterator() that
// invokes every value (directly or in a goroutine it starts), followed by a
// wait-group join that dominates every return after the loop.
func runInvokesWaiters(p *Prog, run *Func, q types.Object, ctxObj types.Object) (string, bool) {
	info := run.Info()
	var iter types.Object
	walkNoLit(run.Body, func(x ast.Node) bool {
		as, ok := x.(*ast.AssignStmt)
		if !ok || len(as.Lhs) != 1 || len(as.Rhs) != 1 {
			return true
		}
		call, ok := ast.Unparen(resolveLocal(run, as.Rhs[0])).(*ast.CallExpr)
		if !ok || callName(info, call) != "pubsub.(*Queue).Iterator" {
			return true
		}
		if id, ok := ast.Unparen(recvExpr(call)).(*ast.Ident); ok && info.Uses[id] == q {
			if l, ok := as.Lhs[0].(*ast.Ident); ok {
				iter = info.Defs[l]
				if iter == nil {
					iter = info.Uses[l]
				}
			}
		}
		return true
	})
	if iter == nil {
		return "never iterates over " + q.Name(), false
	}
	var loop *ast.ForStmt
	walkNoLit(run.Body, func(x ast.Node) bool {
		fs, ok := x.(*ast.ForStmt)
		if !ok || fs.Cond == nil {
			return true
		}
		if call, ok := ast.Unparen(fs.Cond).(*ast.CallExpr); ok && callName(info, call) == "fun.(*Iterator).Next" {
			if id, ok := ast.Unparen(recvExpr(call)).(*ast.Ident); ok && info.Uses[id] == iter {
				loop = fs
			}
		}
		return true
	})
	if loop == nil {
		return "has no loop over the waiters", false
	}
	// the loop body invokes iter.Value(): directly, or as the argument of a go literal that calls its parameter
	invoked := false
	ast.Inspect(loop.Body, func(x ast.Node) bool {
		call, ok := x.(*ast.CallExpr)
		if !ok {
			return true
		}
		isValue := func(e ast.Expr) bool {
			vc, ok := ast.Unparen(e).(*ast.CallExpr)
			if !ok || callName(info, vc) != "fun.(*Iterator).Value" {
				return false
			}
			id, ok := ast.Unparen(recvExpr(vc)).(*ast.Ident)
			return ok && info.Uses[id] == iter
		}
		if isValue(call.Fun) {
			invoked = true
		}
		if lit, ok := ast.Unparen(call.Fun).(*ast.FuncLit); ok {
			for i, a := range call.Args {
				if !isValue(a) {
					continue
				}
				// parameter i of the literal is called inside it
				n := 0
				for _, fld := range lit.Type.Params.List {
					for _, nm := range fld.Names {
						if n == i {
							pobj := info.Defs[nm]
							ast.Inspect(lit.Body, func(y ast.Node) bool {
								if ic, ok := y.(*ast.CallExpr); ok {
									if id, ok := ast.Unparen(ic.Fun).(*ast.Ident); ok && info.Uses[id] == pobj {
										invoked = true
									}
								}
								return true
							})
						}
						n++
					}
				}
			}
		}
		return true
	})
	if !invoked {
		return "iterates over the waiters without calling them", false
	}
	// a join after the loop dominates every later return
	fl := newFlow(run)
	var join ast.Node
	walkNoLit(run.Body, func(x ast.Node) bool {
		if call, ok := x.(*ast.CallExpr); ok && call.Pos() > loop.End() {
			if _, isWait := isWaitCall(info, call); isWait && join == nil && !waitBoundedBy(run, call, ctxObj) {
				join = call
			}
		}
		return true
	})
	if join == nil {
		return "starts the waiters but does not join them (with a wait that outlasts Run's own context) before returning", false
	}
	ok := true
	walkNoLit(run.Body, func(x ast.Node) bool {
		if rs, isRet := x.(*ast.ReturnStmt); isRet && rs.Pos() > loop.End() && !fl.Dominates(join, rs) {
			ok = false
		}
		return true
	})
	if !ok {
		return "can return after the waiter loop without the join", false
	}
	return fmt.Sprintf("the member's Wait is registered in %s; Run calls every registered waiter and joins them (%s) before it returns", q.Name(), p.Position(join.Pos())), true
}

// waitBoundedBy: the wait call gives up when ctx ends — WaitGroup.Wait(c) with
// c being ctx itself or a context derived from it.
func waitBoundedBy(f *Func, call *ast.CallExpr, ctx types.Object) bool {
	info := f.Info()
	if ctx == nil || len(call.Args) != 1 || !isWGMethod(callName(info, call), "Wait") {
		return false
	}
	mentions := func(e ast.Expr) bool {
		hit := false
		ast.Inspect(e, func(y ast.Node) bool {
			if id, ok := y.(*ast.Ident); ok && info.Uses[id] == ctx {
				hit = true
			}
			return !hit
		})
		return hit
	}
	arg := call.Args[0]
	return mentions(arg) || mentions(resolveLocal(f, arg))
}
