#!/bin/bash
# Build the checker from files on disk only (x/tools v0.29.0 is vendored under checker/vendor).
set -eu
cd "$(dirname "$0")"
export GOFLAGS=-mod=vendor GOPROXY=off GOSUMDB=off GOTOOLCHAIN=local GOWORK=off
mkdir -p bin evidence
(cd checker && go build -o ../bin/funcheck .)
echo "built bin/funcheck"
